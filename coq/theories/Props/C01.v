(* Props/C01.v — Scatter then gather returns the original list in its original order.
   Only statements here; every proof is [exact <lemma of Gather/Proofs.v>].

   Vocabulary.  [scatter] is ScatterStep._scatter, [gather_run 1 arr] is GatherStep(depth=1).run fed the
   arrival sequence [arr] (tokens and termination tokens tagged with the port they are taken from).
   A *legal complete* arrival sequence is written  l1 ++ OnTerm p1 Completed :: l2 ++ [OnTerm p2 Completed]
   with p1 <> p2 and no token of port p1 in l2: the tokens l1 ++ l2 in ANY order, the termination token
   of one port at any position after the last token of that port, the other termination token last
   (ports are FIFO, so these are all the sequences a GatherStep can see when both inputs complete). *)
From Coq Require Import List NArith ZArith Permutation.
From SF Require Import Base.Str Base.Dec Tags.Model Gather.Model Gather.Proofs Gather.ProofsD Gather.ProofsN.
Import ListNotations.
Local Open Scope string_scope. Local Open Scope list_scope.

(* scatter: element i gets tag t.i (decimal), payloads untouched, size token (t, length) *)
Theorem C01_scatter : forall (t : tag) (vs : list tok),
  t <> [] ->
  exists es, scatter (ListTok (render t) vs) = Some (es, (render t, N.of_nat (length vs)))
             /\ elems_ok t es /\ map untag es = map untag vs /\ length es = length vs.
Proof. exact scatter_spec. Qed.

(* THE PROPERTY, one list: any tag, any length (0 and >= 10 included), any tag-preserving element-wise step f,
   any legal complete arrival sequence at the gather: exactly one output, the list token with the original
   tag whose elements are f of the original elements in the original order; then COMPLETED. *)
Theorem C01_roundtrip : forall (t : tag) (vs : list tok) (f : tok -> tok) es sz l1 l2 p1 p2,
  t <> [] -> (forall x, tag_of (f x) = tag_of x) ->
  scatter (ListTok (render t) vs) = Some (es, sz) ->
  Permutation (l1 ++ l2) (OnSize (fst sz) (snd sz) :: map OnElem (map f es)) ->
  p1 <> p2 -> (forall a, In a l2 -> port_of a <> p1) ->
  let s := gather_run 1 (l1 ++ OnTerm p1 Completed :: l2 ++ [OnTerm p2 Completed]) in
  gout (gd s) = [ListTok (render t) (map f es)] /\ gfinal s = Some Completed
  /\ map untag es = map untag vs.
Proof. exact roundtrip. Qed.

(* several scattered lists (pairwise distinct tags, e.g. the elements of an outer scatter) gathered by the
   same step, their arrivals interleaved arbitrarily: the outputs are, as a multiset, exactly one correct
   list per scattered list *)
Theorem C01_many_keys : forall (insts : list inst) l1 l2 p1 p2,
  Forall inst_ok insts -> NoDup (map ikey insts) ->
  Permutation (l1 ++ l2) (all_arrivals insts) ->
  p1 <> p2 -> (forall a, In a l2 -> port_of a <> p1) ->
  let s := gather_run 1 (l1 ++ OnTerm p1 Completed :: l2 ++ [OnTerm p2 Completed]) in
  Permutation (gout (gd s)) (expected_out insts)
  /\ gfinal s = Some (match insts with [] => Skipped | _ => Completed end).
Proof. exact gather_many_perm. Qed.

(* ... and the same with the two termination tokens carrying ANY statuses other than FAILED (a gather whose lists are
   all empty receives SKIPPED on the normal path): same outputs, the final status follows the statuses *)
Theorem C01_many_keys_any_status : forall (insts : list inst) l1 l2 p1 p2 st1 st2,
  Forall inst_ok insts -> NoDup (map ikey insts) ->
  Permutation (l1 ++ l2) (all_arrivals insts) ->
  p1 <> p2 -> (forall a, In a l2 -> port_of a <> p1) ->
  st1 <> Failed -> st2 <> Failed ->
  let s := gather_run 1 (l1 ++ OnTerm p1 st1 :: l2 ++ [OnTerm p2 st2]) in
  Permutation (gout (gd s)) (expected_out insts)
  /\ gfinal s = Some (get_status (reduce_statuses [reduce_statuses [Skipped; st1]; st2])
                                  (match insts with [] => true | _ => false end)).
Proof. exact gather_many_perm_st. Qed.
(* what a GatherStep of any depth emits does not depend on the statuses of its termination tokens, as long as none
   is FAILED -- for ANY token arrivals (no hypothesis on them beyond port order) *)
Theorem C01_status_independent : forall d l1 l2 p1 p2 st1 st2 st1' st2',
  (forall a, In a (l1 ++ l2) -> is_term a = false) ->
  p1 <> p2 -> (forall a, In a l2 -> port_of a <> p1) ->
  st1 <> Failed -> st2 <> Failed -> st1' <> Failed -> st2' <> Failed ->
  gout (gd (gather_run d (l1 ++ OnTerm p1 st1 :: l2 ++ [OnTerm p2 st2]))) =
  gout (gd (gather_run d (l1 ++ OnTerm p1 st1' :: l2 ++ [OnTerm p2 st2']))).
Proof. exact gout_status_independent. Qed.

(* nested scatter (two levels), gathered by two chained depth-1 gathers: the inner gather sees all t.i.j and
   the sizes t.i in any order; the outer gather sees the inner gather's outputs in any order and the size t *)
Theorem C01_nested_two_levels : forall (t : tag) (wss : list (list tok)) (f : tok -> tok) l1 l2 p1 p2 m1 m2 q1 q2,
  t <> [] -> (forall x, tag_of (f x) = tag_of x) ->
  let insts := inner_insts t 0 (nested_ess t 0 f wss) in
  Permutation (l1 ++ l2) (all_arrivals insts) ->
  p1 <> p2 -> (forall a, In a l2 -> port_of a <> p1) ->
  let s_in := gather_run 1 (l1 ++ OnTerm p1 Completed :: l2 ++ [OnTerm p2 Completed]) in
  Permutation (m1 ++ m2) (OnSize (render t) (N.of_nat (length wss)) :: map OnElem (gout (gd s_in))) ->
  q1 <> q2 -> (forall a, In a m2 -> port_of a <> q1) ->
  let s_out := gather_run 1 (m1 ++ OnTerm q1 Completed :: m2 ++ [OnTerm q2 Completed]) in
  gout (gd s_out) = [ListTok (render t) (expected_out insts)] /\ gfinal s_out = Some Completed.
Proof. exact nested_roundtrip. Qed.
(* ... where the inner scatter really receives list i with tag t.i from the outer scatter *)
Theorem C01_outer_scatter_feeds_inner : forall (t : tag) i (wss : list (list tok)) (a : string),
  t <> [] ->
  scatter_from (N.of_nat i) (render t) (map (ListTok a) wss) =
  map (fun p => ListTok (render (t ++ [N.of_nat (fst p)])) (snd p)) (combine (seq i (length wss)) wss).
Proof. exact outer_scatter_elems. Qed.

(* the comparator used by _gather orders sibling elements by numeric index: 9 before 10 *)
Theorem C01_numeric_order : forall (t : tag) i j x y,
  t <> [] -> tag_of x = render (t ++ [i]) -> tag_of y = render (t ++ [j]) ->
  ((cmp_tok x y < 0)%Z <-> (i < j)%N) /\ ((cmp_tok x y <=? 0)%Z = (i <=? j)%N).
Proof. exact numeric_order. Qed.

(* whatever order the element tokens arrived in, sorting them gives the scattered order *)
Theorem C01_sort_canonical : forall (t : tag) es p,
  t <> [] -> elems_ok t es -> Permutation p es -> sort_toks p = es.
Proof. exact sort_canonical. Qed.

(* ONE GatherStep of depth d >= 1 over d nested scatter levels (what flat_crossproduct builds): the element
   tokens carry the tags t ++ s, |s| = d, pairwise distinct; [flat_ok] lists them in increasing compare_tags
   order (ragged shapes allowed); the size token carries their number.  Any legal complete arrival sequence:
   one output, the flat list in compare_tags order. *)
Theorem C01_gather_depth_d : forall d (t : tag) (ss : list (list N)) (es : list tok) l1 l2 p1 p2,
  1 <= d -> t <> [] -> flat_ok d t ss es ->
  Permutation (l1 ++ l2) (OnSize (render t) (N.of_nat (length es)) :: map OnElem es) ->
  p1 <> p2 -> (forall a, In a l2 -> port_of a <> p1) ->
  let s := gather_run d (l1 ++ OnTerm p1 Completed :: l2 ++ [OnTerm p2 Completed]) in
  gout (gd s) = [ListTok (render t) es] /\ gfinal s = Some Completed.
Proof. exact gather_depth_d. Qed.
(* rectangular case: d scatter levels of sizes dims, all index tuples in row-major order, PRODUCT size *)
Theorem C01_gather_depth_d_product : forall (dims : list nat) (t : tag) (es : list tok) l1 l2 p1 p2,
  dims <> [] -> t <> [] ->
  map tag_of es = map (fun s => render (t ++ s)) (grid dims) ->
  Permutation (l1 ++ l2) (OnSize (render t) (N.of_nat (fold_right Nat.mul 1 dims)) :: map OnElem es) ->
  p1 <> p2 -> (forall a, In a l2 -> port_of a <> p1) ->
  let s := gather_run (length dims) (l1 ++ OnTerm p1 Completed :: l2 ++ [OnTerm p2 Completed]) in
  gout (gd s) = [ListTok (render t) es] /\ gfinal s = Some Completed.
Proof. exact gather_depth_d_grid. Qed.

(* the empty list through the real pipeline: the scatter emits nothing but the size token (t, 0) and, its element
   port being empty, terminates SKIPPED; the gather then receives TerminationToken(SKIPPED) on both ports, in any
   legal interleaving with the size token: it still delivers the empty list with the original tag, and ends SKIPPED *)
Theorem C01_empty : forall (t : string) l1 l2 p1 p2,
  Permutation (l1 ++ l2) [OnSize t 0] -> p1 <> p2 -> (forall a, In a l2 -> port_of a <> p1) ->
  scatter (ListTok t []) = Some ([], (t, 0%N)) /\ scatter_run_status [ListTok t []] Completed = Some Skipped /\
  let s := gather_run 1 (l1 ++ OnTerm p1 Skipped :: l2 ++ [OnTerm p2 Skipped]) in
  gout (gd s) = [ListTok t []] /\ gfinal s = Some Skipped.
Proof. exact empty_pipeline. Qed.

(* nesting depth d, by induction on d: a tree of uniform depth d below tag t (its leaves = the element tokens after
   d scatters and the element-wise step), gathered by d chained depth-1 gathers ([chain]: the leaves arrive in any
   order; every level is one GatherStep run on ANY legal complete arrival sequence of that level's size tokens and
   of whatever the level below emitted, in whatever order): the result is exactly the nested list token [expect] *)
Theorem C01_nested_d : forall d (t : tag) (tr : tree) outs,
  t <> [] -> depth_is d tr -> chain d [(t, tr)] outs -> outs = [expect t tr].
Proof. exact nested_d. Qed.
(* ... for whole families of subtrees at one level (what a gather inside an outer scatter sees) *)
Theorem C01_nested_d_family : forall d (F : fam) outs,
  fam_ok d F -> chain d F outs -> Permutation outs (fexpect F).
Proof. exact chain_correct. Qed.
(* ... and the leaves of one level are what ScatterStep produces *)
Theorem C01_scatter_is_expect : forall (t : tag) i xs,
  t <> [] -> scatter_from (N.of_nat i) (render t) xs = expect_from t i (map Leaf xs).
Proof. exact scatter_is_expect. Qed.

(* ---- non-vacuity / headline instances ---- *)
(* C01_nested_two_levels on [[a;b];[]]: inner gather fed in reverse order, outer gather fed its outputs reversed *)
Example C01_nested_two_levels_example :
  let f := fun x : tok => x in
  let wss := [[Tok "0" "a"; Tok "0" "b"]; []] in
  let insts := inner_insts [0%N] 0 (nested_ess [0%N] 0 f wss) in
  let s_in := gather_run 1 (rev (all_arrivals insts) ++ OnTerm SizeP Completed :: [] ++ [OnTerm ElemP Completed]) in
  let m1 := OnSize "0" 2 :: map OnElem (rev (gout (gd s_in))) in
  let s_out := gather_run 1 (m1 ++ OnTerm ElemP Completed :: [] ++ [OnTerm SizeP Completed]) in
  Permutation (rev (all_arrivals insts) ++ []) (all_arrivals insts) /\
  gout (gd s_out) = [ListTok "0" [ListTok "0.0" [Tok "0.0.0" "a"; Tok "0.0.1" "b"]; ListTok "0.1" []]] /\
  gfinal s_out = Some Completed.
Proof. split; [rewrite app_nil_r; apply Permutation_sym, Permutation_rev|]. vm_compute. split; reflexivity. Qed.
Example C01_status_example :
  gout (gd (gather_run 1 [OnSize "0" 0; OnTerm SizeP Skipped; OnTerm ElemP Skipped])) =
  gout (gd (gather_run 1 [OnSize "0" 0; OnTerm SizeP Completed; OnTerm ElemP Recovered])).
Proof. vm_compute. reflexivity. Qed.
Example C01_nested_d_hyps : exists outs, chain 2 [([0%N], ex_tree)] outs /\ depth_is 2 ex_tree.
Proof. exact ex_chain. Qed.
Example C01_expect_example :
  expect [0%N] ex_tree = ListTok "0" [ListTok "0.0" [Tok "0.0.0" "a"; Tok "0.0.1" "b"]; ListTok "0.1" []].
Proof. vm_compute. reflexivity. Qed.
Example C01_empty_hyps : Permutation ([OnSize "0" 0] ++ []) [OnSize "0" 0] /\ SizeP <> ElemP.
Proof. split; [apply Permutation_refl|discriminate]. Qed.
Example C01_grid_example :
  map (fun s => render ([0%N] ++ s)) (grid [2; 3]) = ["0.0.0"; "0.0.1"; "0.0.2"; "0.1.0"; "0.1.1"; "0.1.2"].
Proof. vm_compute. reflexivity. Qed.
(* depth 2, 2 x 11 elements arriving in reverse order: "0.1.10" after "0.1.9", "0.1.0" after "0.0.10" *)
Example C01_depth2_reversed :
  let es := map (fun s => Tok (render ([0%N] ++ s)) "v") (grid [2; 11]) in
  let arr := map OnElem (rev es) ++ [OnSize "0" 22; OnTerm SizeP Completed; OnTerm ElemP Completed] in
  gout (gd (gather_run 2 arr)) = [ListTok "0" es].
Proof. vm_compute. reflexivity. Qed.
Definition ex_vs : list tok := map (fun v => Tok "0" v) ["a";"b";"c";"d";"e";"f";"g";"h";"i";"j";"k";"l"].
(* 12 elements arriving in reverse order, size token in the middle, size port terminating early *)
Example C01_twelve_reversed :
  let es := scatter_elems "0" ex_vs in
  let arr := map OnElem (rev (skipn 6 es)) ++ [OnSize "0" 12; OnTerm SizeP Completed]
             ++ map OnElem (rev (firstn 6 es)) ++ [OnTerm ElemP Completed] in
  gout (gd (gather_run 1 arr)) = [ListTok "0" es] /\ gfinal (gather_run 1 arr) = Some Completed
  /\ map tag_of (skipn 8 es) = ["0.8";"0.9";"0.10";"0.11"].
Proof. vm_compute. repeat split; reflexivity. Qed.
(* the hypotheses of C01_roundtrip are met by a non-trivial value *)
Example C01_roundtrip_hyps :
  exists t vs es sz l1 l2 p1 p2,
    t <> [] /\ scatter (ListTok (render t) vs) = Some (es, sz) /\ length vs = 12 /\
    Permutation (l1 ++ l2) (OnSize (fst sz) (snd sz) :: map OnElem (map (fun x => x) es)) /\
    p1 <> p2 /\ (forall a, In a l2 -> port_of a <> p1) /\ l2 <> [].
Proof.
  exists [0%N], ex_vs, (scatter_elems "0" ex_vs), ("0", 12%N),
         [OnSize "0" 12], (map OnElem (scatter_elems "0" ex_vs)), SizeP, ElemP.
  repeat split; try discriminate.
  - rewrite map_id. apply Permutation_refl.
  - intros a Ha. apply in_map_iff in Ha. destruct Ha as (e & <- & _). discriminate.
Qed.
(* empty list: the size token alone fires the empty list *)
Example C01_empty_list :
  gout (gd (gather_run 1 [OnSize "0.3" 0; OnTerm ElemP Completed; OnTerm SizeP Completed])) = [ListTok "0.3" []].
Proof. vm_compute. reflexivity. Qed.
Example C01_many_keys_hyps :
  let insts := inner_insts [0%N] 0 (nested_ess [0%N] 0 (fun x => x) [[Tok "0" "a"; Tok "0" "b"]; []; [Tok "0" "c"]]) in
  Forall inst_ok insts /\ NoDup (map ikey insts) /\ length (all_arrivals insts) = 6 /\
  map ikey insts = ["0.0"; "0.1"; "0.2"].
Proof.
  split; [apply nested_inst_ok; reflexivity|]. split; [apply inner_insts_nodup; discriminate|].
  split; reflexivity.
Qed.

Print Assumptions C01_scatter.
Print Assumptions C01_roundtrip.
Print Assumptions C01_many_keys.
Print Assumptions C01_many_keys_any_status.
Print Assumptions C01_status_independent.
Print Assumptions C01_nested_two_levels.
Print Assumptions C01_outer_scatter_feeds_inner.
Print Assumptions C01_numeric_order.
Print Assumptions C01_sort_canonical.
Print Assumptions C01_gather_depth_d.
Print Assumptions C01_empty.
Print Assumptions C01_nested_d.
Print Assumptions C01_nested_d_family.
Print Assumptions C01_scatter_is_expect.
Print Assumptions C01_gather_depth_d_product.
