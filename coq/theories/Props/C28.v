(* Props/C28.v — Steps get the binding of their nearest bound ancestor.
   Only statements here; every proof is [exact <lemma of Binding/Proofs.v>].
   Model: Binding/Model.v (the trie of WorkflowConfig: put / set_targets / propagate; PurePosixPath.parts;
   _get_workdir and _check_stacked_deployments with explicit fuel).  Spec: Binding/Spec.v (flat list of
   bindings, no trie). *)
From Coq Require Import List Bool NArith.
From SF Require Import Base.Str Tags.Model Binding.Model Binding.Spec Binding.Proofs Binding.Closed Binding.Cycle Binding.Corr.
Import ListNotations.
Local Open Scope string_scope. Local Open Scope list_scope.

(* For every list of bindings (step and port bindings interleaved in any way, any number, any depth, the
   same path bound several times) that the constructor accepts, and every step name: the binding used for
   the step is [nearest]: walking down the step's path from the root, a step binding declared exactly on
   an ancestor (or on the step itself) replaces the inherited one, later declarations on the same path
   winning; None = local execution.  Port bindings never influence the answer. *)
Theorem C28_nearest : forall bs root name,
  build bs = Some root -> get_binding root name = nearest (map parse bs) (pparts name) None.
Proof. exact get_binding_nearest. Qed.

(* The same in closed form: among the step bindings whose (normalised) path is a prefix of the step's path,
   the one with the longest path, and among equally long ones the one declared last ([best]); None (local
   execution) when there is none.  Port bindings are not candidates. *)
Theorem C28_nearest_closed : forall bs root name,
  build bs = Some root -> get_binding root name = best (map parse bs) (pparts name).
Proof. exact get_binding_best. Qed.

(* the constructor accepts exactly the lists whose binding paths are all absolute *)
Theorem C28_accepts_absolute : forall bs,
  build bs <> None <-> forallb (fun b => is_absolute (b_path b)) bs = true.
Proof. exact build_defined. Qed.

(* set_targets (which skips port nodes and their subtrees) never changes an answer of propagate *)
Theorem C28_set_targets_transparent : forall parts ch tgt,
  propagate parts (set_children tgt ch) tgt = propagate parts ch tgt.
Proof. exact propagate_set_children. Qed.

(* A target's working directory: the deployment's own, else the first one along the wraps chain, else
   none; for every chain length (the fuel only has to cover the chain). *)
Theorem C28_workdir : forall ds d k r fuel,
  inherits ds d k r -> k <= fuel -> get_workdir fuel ds d = WOk r.
Proof. exact get_workdir_inherits'. Qed.

(* The cycle check always terminates (the model's fuel is never exhausted) ... *)
Theorem C28_check_terminates : forall ds, check_stacked ds <> CFuel.
Proof. exact check_stacked_terminates. Qed.
(* ... a rejection names a deployment to which a wraps chain really comes back (self references included) ... *)
Theorem C28_cycles_rejected_is_cycle_partial : forall ds n,
  check_stacked ds = CCycle n -> exists x y j, d_name x = n /\ d_name y = n /\ reach ds x (S j) y.
Proof. exact rejected_has_cycle. Qed.
(* ... and after acceptance every target's working directory is computed without running out of fuel,
   i.e. _get_workdir terminates on every declared deployment.
   _partial: "every reachable cycle is rejected" is proved only in this contrapositive form (accepted =>
   every wraps chain ends); the direct form is exercised by the correspondence. *)
Theorem C28_cycles_accepted_terminates_partial : forall ds,
  check_stacked ds = CNoCycle ->
  forall d own, In d ds -> exists r, target_workdir ds own d = WOk r.
Proof. exact accepted_workdir_terminates. Qed.

(* Direct form: a wraps cycle (x comes back to x after m+1 steps, self references = m 0) reachable from a
   declared deployment d is never accepted; and when every wraps reference names a declared deployment the
   answer is the definition error naming some deployment (otherwise a KeyError on the undefined name may come
   first).  Together with C28_cycles_rejected_is_cycle_partial: rejected iff a cycle is reachable. *)
Theorem C28_cycles_never_accepted : forall ds d j x m,
  In d ds -> reach ds d j x -> reach ds x (S m) x -> check_stacked ds <> CNoCycle.
Proof. exact reachable_cycle_not_accepted. Qed.
Theorem C28_cycles : forall ds d j x m,
  closed ds -> In d ds -> reach ds d j x -> reach ds x (S m) x -> exists n, check_stacked ds = CCycle n.
Proof. exact reachable_cycle_rejected. Qed.
Example C28_cycles_example :
  let ds := [D "a" None (Some "b"); D "b" None (Some "c"); D "c" (Some "/w") (Some "b")] in
  reach ds (D "a" None (Some "b")) 1 (D "b" None (Some "c")) /\
  reach ds (D "b" None (Some "c")) 2 (D "b" None (Some "c")) /\ check_stacked ds = CCycle "b".
Proof.
  split; [|split].
  - eapply reachS; [reflexivity|vm_compute; reflexivity|constructor].
  - eapply reachS; [reflexivity|vm_compute; reflexivity|].
    eapply reachS; [reflexivity|vm_compute; reflexivity|constructor].
  - vm_compute. reflexivity.
Qed.

(* The cycle clause as one statement.  With unique deployment names (they are the keys of a mapping) and every
   wraps reference defined: the constructor raises the definition error IFF some declared deployment reaches a
   wraps cycle (self references included).  This supersedes the two _partial statements above. *)
Theorem C28_cycles_iff : forall ds,
  NoDup (map d_name ds) -> closed ds ->
  ((exists n, check_stacked ds = CCycle n) <->
   (exists d x j m, In d ds /\ reach ds d j x /\ reach ds x (S m) x)).
Proof. exact rejected_iff_cycle. Qed.
Example C28_cycles_iff_example :
  let ds := [D "a" None (Some "b"); D "b" None (Some "c"); D "c" (Some "/w") (Some "b"); D "e" None None] in
  NoDup (map d_name ds) /\ closed ds.
Proof.
  split.
  - repeat constructor; simpl; intros H; repeat destruct H as [H|H]; try discriminate H; exact H.
  - intros d w Hd Hw. simpl in Hd.
    destruct Hd as [<-|[<-|[<-|[<-|[]]]]]; simpl in Hw; try discriminate Hw; injection Hw as <-; vm_compute; discriminate.
Qed.

(* non-vacuity *)
Example C28_nearest_example :
  let bs := [B true "/" 0; B true "/main/sub" 1; B false "/main/sub/p" 2; B true "/main//sub/./step" 3;
             B true "/main/sub" 4] in
  exists root, build bs = Some root /\
    map (get_binding root) ["/main"; "/main/sub"; "/main/sub/p/x"; "/main/sub/step/inner"; "/other"; "rel"]
    = [Some 0; Some 4; Some 4; Some 3; Some 0; None]%N.
Proof. eexists. split; vm_compute; reflexivity. Qed.
Example C28_workdir_example :
  let ds := [D "a" None (Some "b"); D "b" None (Some "c"); D "c" (Some "/w") None; D "x" None (Some "x")] in
  inherits ds (D "a" None (Some "b")) 2 (Some "/w") /\ check_stacked ds = CCycle "x" /\
  check_stacked (firstn 3 ds) = CNoCycle.
Proof.
  split; [|split; vm_compute; reflexivity].
  eapply inh_step; [reflexivity|reflexivity|vm_compute; reflexivity|].
  eapply inh_step; [reflexivity|reflexivity|vm_compute; reflexivity|].
  apply inh_own. reflexivity.
Qed.

Print Assumptions C28_nearest.
Print Assumptions C28_nearest_closed.
Print Assumptions C28_accepts_absolute.
Print Assumptions C28_set_targets_transparent.
Print Assumptions C28_workdir.
Print Assumptions C28_check_terminates.
Print Assumptions C28_cycles_rejected_is_cycle_partial.
Print Assumptions C28_cycles_accepted_terminates_partial.
Print Assumptions C28_cycles_never_accepted.
Print Assumptions C28_cycles.
Print Assumptions C28_cycles_iff.
