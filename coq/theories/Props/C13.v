(* Props/C13.v — Jobs go to the first admissible declared target.
   Only statements here; every proof is [exact <lemma of Filter/Proofs.v>].
   Model: Filter/Model.v (matching filter as repaired by the fix that keeps survivors in a list; the
   scheduler's attempt loop as passes over a FIFO of per-target tasks). *)
From Coq Require Import List Bool NArith Permutation.
From SF Require Import Base.Str Base.Corr Filter.Model Filter.Proofs Filter.Corr.
Import ListNotations.
Local Open Scope string_scope. Local Open Scope list_scope.

(* A matching filter returns exactly the targets kept by the property's wording ([keeps]: some rule of
   that deployment and service whose predicates all equal the job's input values), in the order in
   which they were declared, and never an empty list.  No bound on the number of targets or rules. *)
Theorem C13_filter : forall rules job ts l,
  get_targets rules job ts = Ok l -> l = filter (keeps rules job) ts /\ l <> [].
Proof. exact get_targets_ok. Qed.

(* When every predicate names an existing plain input the filter is total: it returns that list, or
   raises "no matching targets" exactly when the list is empty; the two other exceptions only occur
   for predicates on missing or file/list/object inputs. *)
Theorem C13_filter_total : forall rules job ts,
  rules_wf rules job = true ->
  get_targets rules job ts = match filter (keeps rules job) ts with [] => Err ENoTargets | l => Ok l end.
Proof. exact get_targets_wf. Qed.
Theorem C13_filter_other_errors : forall rules job ts e,
  get_targets rules job ts = Err e -> e <> ENoTargets -> rules_wf rules job = false.
Proof. exact get_targets_raises_only_if_ill_formed. Qed.

(* A chain of filters (as DefaultScheduler.schedule applies them) returns the targets that survive every
   filter, still in declared order. *)
Theorem C13_chain : forall fs job ts l,
  chain fs job ts = Ok l -> l = filter (survives fs job) ts.
Proof. exact chain_ok. Qed.

(* A filter OBJECT keeps nothing from one job to the next: running a sequence of jobs (each with its own step
   name, inputs and target list) through the same chained filter objects, threading the objects' state
   (rules, _evaluated_steps), gives for every job exactly what the stateless chain gives for that job alone. *)
Theorem C13_filter_stateless : forall cs sts,
  run_calls sts cs = map (fun c => chain (map f_rules sts) (c_inputs c) (c_ts c)) cs.
Proof. exact run_calls_stateless. Qed.
(* so the k-th job of any sequence gets the survivors of all filters among ITS targets, in ITS declared order *)
Theorem C13_filter_each_job : forall cs sts k c l,
  nth_error cs k = Some c -> nth_error (run_calls sts cs) k = Some (Ok l) ->
  l = filter (survives (map f_rules sts) (c_inputs c)) (c_ts c).
Proof. exact run_calls_each. Qed.

(* The attempt loop: whatever the sequence of passes (initial attempt, then one per notify_all) and
   whatever can host during each pass, the allocation trace is: nothing until the first pass in which
   some target can host, and from then on the first such target in list order. *)
Theorem C13_first_trace : forall hosts ts,
  run_trace hosts {| waiting := ts; scheduled := None |} = trace_spec hosts ts.
Proof. exact run_trace_spec. Qed.

(* The same, spelled out: the chosen target could host in pass k, every target before it in the list
   could not, and in every earlier pass no target of the list could. *)
Theorem C13_first : forall hosts ts t,
  scheduled (run hosts ts) = Some t ->
  exists k h l1 l2,
    nth_error hosts k = Some h /\ ts = l1 ++ t :: l2 /\ h t = true /\
    (forall x, In x l1 -> h x = false) /\
    (forall k' h', k' < k -> nth_error hosts k' = Some h' -> forall x, In x ts -> h' x = false).
Proof. exact run_first. Qed.

(* A job stays unscheduled only if no target could ever host, and then its waiting tasks are still
   queued in declared order (so the next pass again tries the targets in that order). *)
Theorem C13_unscheduled : forall hosts ts,
  scheduled (run hosts ts) = None ->
  (forall h, In h hosts -> forall x, In x ts -> h x = false) /\ waiting (run hosts ts) = ts.
Proof. exact run_unscheduled. Qed.

(* End to end: schedule() = filters then attempt loop; the job goes to the first target of the declared
   list that survives all filters and can host, in the first pass where there is one. *)
Theorem C13_schedule : forall fs job ts hosts tr,
  schedule fs job ts hosts = Ok tr -> tr = trace_spec hosts (filter (survives fs job) ts).
Proof. exact schedule_ok. Qed.
Theorem C13_first_surviving_admissible : forall (p h : target -> bool) ts,
  find h (filter p ts) = find (fun t => p t && h t) ts.
Proof. exact (@find_filter target). Qed.

(* The code before the fix kept the survivors in a set(): for any iteration order of that set only the
   elements are right ... *)
Theorem C13_filter_perm_before_fix : forall order rules job ts l,
  (forall x, Permutation (order x) x) ->
  get_targets_set order rules job ts = Ok l -> Permutation l (filter (keeps rules job) ts).
Proof. exact get_targets_set_perm. Qed.
(* ... and the declared order is lost as soon as the set iterates differently (witness: two targets, one
   rule matching both, the set iterating in reverse). *)
Theorem C13_declared_order_before_fix_refuted :
  exists order rules job ts l,
    (forall x, Permutation (order x) x) /\
    get_targets_set order rules job ts = Ok l /\ l <> filter (keeps rules job) ts.
Proof.
  exists (@rev target), [mk_rule (R "d" None [("p", "x")])], [("p", (KPlain, "x"))],
    [T 0 "d" (Some "a"); T 1 "d" (Some "b")], [T 1 "d" (Some "b"); T 0 "d" (Some "a")].
  split; [intros x; apply Permutation_sym, Permutation_rev|].
  split; [vm_compute; reflexivity|vm_compute; discriminate].
Qed.

(* non-vacuity *)
Example C13_filter_example :
  let rules := map mk_rule [R "d1" None [("p", "x")]; R "d0" (Some "a") [("p", "x"); ("q", "1")]] in
  let job := [("p", (KPlain, "x")); ("q", (KPlain, "1"))] in
  let ts := [T 0 "d0" (Some "a"); T 1 "d2" None; T 2 "d1" (Some "b"); T 3 "d0" None] in
  rules_wf rules job = true /\
  get_targets rules job ts = Ok [T 0 "d0" (Some "a"); T 2 "d1" (Some "b")].
Proof. vm_compute. split; reflexivity. Qed.
Example C13_first_example :
  let ts := [T 0 "d0" None; T 1 "d1" None; T 2 "d2" None] in
  let busy0 := [("d0", @None string); ("d1", None); ("d2", None)] in
  let busy1 := [("d0", @None string)] in
  map (option_map t_idx)
      (run_trace (map host_of [busy0; busy1; []])
                 {| waiting := ts; scheduled := None |})
  = [None; Some 1%N; Some 1%N].
Proof. vm_compute. reflexivity. Qed.
Example C13_dict_example : dict_of [("p", "a"); ("q", "b"); ("p", "c")] = [("p", "c"); ("q", "b")].
Proof. vm_compute. reflexivity. Qed.

Print Assumptions C13_filter.
Print Assumptions C13_filter_total.
Print Assumptions C13_filter_other_errors.
Print Assumptions C13_chain.
Print Assumptions C13_filter_stateless.
Print Assumptions C13_filter_each_job.
Print Assumptions C13_first_trace.
Print Assumptions C13_first.
Print Assumptions C13_unscheduled.
Print Assumptions C13_schedule.
Print Assumptions C13_first_surviving_admissible.
Print Assumptions C13_filter_perm_before_fix.
Print Assumptions C13_declared_order_before_fix_refuted.
