(* Props/C18.v — Recovery re-runs only failed jobs and producers of lost data.
   Only statements here; every proof is [exact <lemma of ProvGraph/Proofs.v>].

   Vocabulary (ProvGraph/Proofs.v; d = provenance table, inputs = the failed job's input tokens):
     dep d t p     : p is a recorded previous token of t (load_dependee_tokens)
     lostT d t     : t is not available and is not a job token whose job is being recovered elsewhere
     anc d inputs  : provenance ancestors of the inputs (reflexive-transitive closure of dep)
     reach d inputs: ancestors reached through lost tokens only
     is_node / sedge (Graph/Proofs.v): nodes / edges of the built token graph (edge p -> t: p was used to make t)

     port_of_token d t nm : token t of the table sits on the port named nm
     private_port d jp outs : whatever was made from a token of port jp sits on a port named in outs
     MI port_of m  : the GraphMapper m is consistent: both its graphs are mirror-consistent (C20's WF),
                     token_availability and token_instances have the same keys, every token listed under a port
                     is a known token whose port is that one (so it is listed under one port only)

   What is proved is the planning chain build_graph -> create_graph_mapper -> get_step_ids (which tokens enter the
   recovery graph, which ports the mapper can have, which steps may be selected) for every set-iteration order,
   and the consistency of the GraphMapper maps under its four mutating operations.
   NOT proved: that create_graph_mapper copies the graph edge by edge into the GraphMapper, and what
   _update_token does to the token graph when two tokens are 'equal' (compared with the real classes on every run
   instead); the engine-level claim is checked on real recovered runs by the harness, not proved. *)
From Coq Require Import List Bool NArith.
From Coq Require Import Permutation.
From SF Require Import Graph.Model Graph.Util Graph.Proofs ProvGraph.Model ProvGraph.Proofs ProvGraph.Proofs2
                       ProvGraph.Proofs3 ProvGraph.Proofs4 ProvGraph.Proofs5.
Import ListNotations.

(* every token of the recovery graph is a provenance ancestor of an input of the failed job, reached through
   lost tokens only *)
Theorem C18_ancestors : forall d inputs dag info, build_graph d inputs = BOk dag info ->
  forall x, is_node dag x -> reach d inputs x /\ anc d inputs x.
Proof.
  intros d inputs dag info H x Hx.
  destruct (build_graph_spec d inputs dag info H) as [_ [_ [R _]]].
  split; [exact (R x Hx)|exact (reach_anc d inputs x (R x Hx))].
Qed.

(* the search stops at available tokens: a token gets producer-side predecessors only if it is lost, and
   then exactly its recorded previous tokens *)
Theorem C18_stops_at_available : forall d inputs dag info, build_graph d inputs = BOk dag info ->
  (forall p t, sedge dag p t -> lostT d t /\ dep d t p) /\
  (forall t, is_node dag t -> lostT d t -> forall p, dep d t p -> sedge dag p t).
Proof.
  intros d inputs dag info H.
  destruct (build_graph_spec d inputs dag info H) as [_ [_ [_ [A [_ [B _]]]]]]. split; assumption.
Qed.

(* a token other than the failed job's own inputs is in the graph only because a LOST token of the graph
   was made from it: producers of data that stayed available are never pulled in through that data *)
Theorem C18_only_producers_of_lost : forall d inputs dag info, build_graph d inputs = BOk dag info ->
  (forall x, In x inputs -> is_node dag x) /\
  (forall x, is_node dag x -> In x inputs \/ exists t, sedge dag x t /\ lostT d t).
Proof.
  intros d inputs dag info H.
  destruct (build_graph_spec d inputs dag info H) as [_ [A [_ [_ [B _]]]]]. split; assumption.
Qed.

(* soft failure (no input lost): the graph is exactly the failed job's inputs, nothing upstream *)
Theorem C18_soft_failure : forall d inputs dag info, build_graph d inputs = BOk dag info ->
  (forall i, In i inputs -> ~ lostT d i) ->
  (forall x, is_node dag x <-> In x inputs) /\ (forall p t, ~ sedge dag p t).
Proof. exact build_graph_soft. Qed.

(* the built graph is mirror-consistent (so every C20 theorem applies to it) and every node has its info *)
Theorem C18_graph_consistent : forall d inputs dag info, build_graph d inputs = BOk dag info ->
  WF dag /\ forall x, is_node dag x -> has_info info x.
Proof.
  intros d inputs dag info H.
  destruct (build_graph_spec d inputs dag info H) as [W [_ [_ [_ [_ [_ I]]]]]]. split; assumption.
Qed.

(* step selection: a step is selected only if ALL its input ports carry tokens of the mapper and one of its
   output ports (not an output port of the failed step) does.
   partial: relating the mapper's ports to the built graph is left to the correspondence. *)
Theorem C18_get_step_ids_sound : forall m steps ports outs s,
  In s (get_step_ids m steps ports outs) ->
  exists st, In st steps /\ s_id st = s /\
    (forall i, In i (s_in st) -> exists nm, port_name ports i = Some nm /\ mget (m_port_tokens m) nm <> None) /\
    (exists o nm, In o (s_out st) /\ mget (m_port_tokens m) nm <> None /\ ~ In nm outs /\
                  list_min (mgetd (m_name_ids m) nm) = Some o).
Proof. exact get_step_ids_sound. Qed.

(* FULL STATEMENT for get_step_ids (no restriction to conflict-free graphs is needed for this direction): after
   build_graph and create_graph_mapper (any set-iteration order), every port of the mapper carries a token of the
   recovery graph ... *)
Theorem C18_mapper_ports_are_graph_ports : forall order, (forall l, Permutation (order l) l) ->
  forall d inputs dag info m,
  build_graph d inputs = BOk dag info -> create_graph_mapper order dag info = Some (inl m) ->
  forall nm, mget (m_port_tokens m) nm <> None -> exists t, is_node dag t /\ port_of_token d t nm.
Proof. exact mapper_port_has_graph_token. Qed.

(* ... hence a selected step has graph tokens on all its input ports and on one of its output ports ... *)
Theorem C18_selected_step_ports : forall order, (forall l, Permutation (order l) l) ->
  forall d inputs dag info m,
  build_graph d inputs = BOk dag info -> create_graph_mapper order dag info = Some (inl m) ->
  forall steps ports outs s, In s (get_step_ids m steps ports outs) ->
  exists st, In st steps /\ s_id st = s /\
    (forall i, In i (s_in st) -> exists nm t, port_name ports i = Some nm /\ is_node dag t /\ port_of_token d t nm) /\
    (exists o nm t, In o (s_out st) /\ ~ In nm outs /\ is_node dag t /\ port_of_token d t nm).
Proof. exact selected_step_ports. Qed.

(* ... and a job STEP (a step with a private job port jp that is not a port of the failed job's inputs) is
   selected only if a LOST TOKEN OF THE RECOVERY GRAPH sits on one of the step's output ports.
   partial: this is at STEP granularity.  A scattered step is selected as soon as ONE of its elements' outputs is
   lost; which TAGS of the step run again in the recovery workflow is decided by _inject_tokens / Step.restore and
   the dataflow of the recovery workflow, which are not modelled as a dataflow (see C18_job_rerun_only_if_needed_partial
   for the per-job statement at the level of the recovery graph, and the engine scenarios for the rest). *)
Theorem C18_step_selected_only_if_output_lost_partial : forall order, (forall l, Permutation (order l) l) ->
  forall d inputs dag info m,
  build_graph d inputs = BOk dag info -> create_graph_mapper order dag info = Some (inl m) ->
  forall steps ports outs s st i jp out_names,
  In s (get_step_ids m steps ports outs) -> In st steps -> s_id st = s ->
  (forall st', In st' steps -> s_id st' = s -> st' = st) ->
  In i (s_in st) -> port_name ports i = Some jp ->
  private_port d jp out_names ->
  (forall x, In x inputs -> ~ port_of_token d x jp) ->
  exists t, is_node dag t /\ lostT d t /\ exists nm, port_of_token d t nm /\ In nm out_names.
Proof. exact selected_job_step_lost_output. Qed.

(* PER JOB (step, tag).  [J] is a job name; [inter x]: x was made for J on the way to its execution (its transferred
   inputs); [out t]: t is an output of J; H1/H2 say that the provenance of J has this shape (whatever is made from a
   job token of J is such an intermediate token or an output of J; whatever is made from an intermediate token is an
   output of J).  Then a job token of J is in the recovery graph only if J is the failed job (its job token or one
   of its transferred inputs is an input of the failed job) or ONE OF J'S OWN OUTPUTS IS LOST and in the graph.
   partial: "J is re-executed in the recovery workflow => a job token of J is in the recovery graph" is not proved
   (it is the dataflow of the recovery workflow: _inject_tokens puts the available mapper tokens, ScatterStep.restore
   filters on the tags of the unavailable ones); every engine scenario checks exactly that link on the real run
   (CEngine in ProvGraph/Corr.v: each re-executed job has a job token in the model's graph). *)
Theorem C18_job_rerun_only_if_needed_partial : forall d inputs dag info,
  build_graph d inputs = BOk dag info ->
  forall (J : N) (inter out : N -> Prop),
  (forall j t, job_token_of d J j -> dep d t j -> inter t \/ out t) ->
  (forall x t, inter x -> dep d t x -> out t) ->
  forall j, is_node dag j -> job_token_of d J j ->
  (In j inputs \/ exists x, inter x /\ In x inputs) \/
  (exists t, out t /\ is_node dag t /\ lostT d t).
Proof. exact job_token_in_graph_only_if_needed. Qed.

(* what goes into the ports of the recovery workflow: the mapper built by create_graph_mapper lists only tokens of
   the recovery graph, each under its own port and with the availability build_graph recorded; so the tokens
   _inject_tokens puts into a port are AVAILABLE graph tokens of that port, and the tokens handed to Step.restore
   (whose tags are ScatterStep's valid_tags) are UNAVAILABLE graph tokens of that port. *)
Theorem C18_injected_tokens_are_available : forall order, (forall l, Permutation (order l) l) ->
  forall dag info m, WF dag -> create_graph_mapper order dag info = Some (inl m) ->
  forall port t, In t (injected_tokens m port) ->
  exists pi, is_node dag t /\ aget info t = Some pi /\ i_port pi = port /\ i_avail pi = true.
Proof.
  intros order H dag info m W C port t. apply (injected_are_available dag info m port t).
  exact (TI_create_graph_mapper order H dag info W m C).
Qed.

Theorem C18_restored_tokens_are_unavailable : forall order, (forall l, Permutation (order l) l) ->
  forall dag info m, WF dag -> create_graph_mapper order dag info = Some (inl m) ->
  forall port t, In t (restore_tokens m port) ->
  exists pi, is_node dag t /\ aget info t = Some pi /\ i_port pi = port /\ i_avail pi = false.
Proof.
  intros order H dag info m W C port t. apply (restored_are_unavailable dag info m port t).
  exact (TI_create_graph_mapper order H dag info W m C).
Qed.

(* GraphMapper keeps its port <-> token maps consistent under add / move_token_to_root / replace_token /
   remove_port, for every set-iteration order (tokens are presented with their own port: op_respects) ... *)
Theorem C18_mapper_consistent : forall order, (forall l, Permutation (order l) l) ->
  forall port_of m op m', MI port_of m -> op_respects port_of op -> apply_op order m op = inl m' -> MI port_of m'.
Proof. exact MI_apply_op. Qed.

Theorem C18_mapper_consistent_initially : forall port_of, MI port_of empty_mapper.
Proof. exact MI_empty. Qed.

(* ... so is the mapper returned by create_graph_mapper, and a token is listed under one port only *)
Theorem C18_created_mapper_consistent : forall order, (forall l, Permutation (order l) l) ->
  forall dag info m, WF dag -> create_graph_mapper order dag info = Some (inl m) ->
  MI (fun t => match aget info t with Some pi => i_port pi | None => 0%N end) m.
Proof. exact MI_create_graph_mapper. Qed.

Theorem C18_token_in_one_port : forall port_of m p1 p2 t, MI port_of m ->
  In t (mgetd (m_port_tokens m) p1) -> In t (mgetd (m_port_tokens m) p2) -> p1 = p2.
Proof. exact MI_one_port. Qed.

(* FINAL ROUND: RollbackFailureManager._synchronize_workflows sits between create_graph_mapper and get_step_ids.
   [sync_mapper order m jts] is its effect on the mapper (jts: the job tokens of the jobs another recovery workflow
   is already recovering).  It keeps the mapper consistent ... *)
Theorem C18_sync_keeps_mapper_consistent : forall order, (forall l, Permutation (order l) l) ->
  forall port_of jts m, MI port_of m -> MI port_of (sync_mapper order m jts).
Proof. exact MI_sync. Qed.

(* ... it detaches everything the recovering job had produced: after the step for job token jt, jt has no
   successor left in the token graph (so its consumers are regenerated from the other recovery's tokens, not by
   running the job again) ... *)
Theorem C18_sync_detaches_recovering_job : forall order, (forall l, Permutation (order l) l) ->
  forall m jt v, WF (m_dag m) -> ~ sedge (m_dag (sync_step order m jt)) jt v.
Proof. exact sync_step_detaches. Qed.

(* ... it only removes ports, so every port of the mapper that get_step_ids really receives still carries a
   token of the recovery graph ... *)
Theorem C18_synced_mapper_ports_are_graph_ports : forall order, (forall l, Permutation (order l) l) ->
  forall d inputs dag info m jts,
  build_graph d inputs = BOk dag info -> create_graph_mapper order dag info = Some (inl m) ->
  forall nm, mget (m_port_tokens (sync_mapper order m jts)) nm <> None ->
  exists t, is_node dag t /\ port_of_token d t nm.
Proof. exact synced_port_has_graph_token. Qed.

(* ... and the step-selection statement holds for the whole planning path
   build_graph -> create_graph_mapper -> _synchronize_workflows -> get_step_ids (STEP granularity, hence partial
   as C18_step_selected_only_if_output_lost_partial). *)
Theorem C18_plan_end_to_end_step_partial : forall order, (forall l, Permutation (order l) l) ->
  forall d inputs dag info m jts,
  build_graph d inputs = BOk dag info -> create_graph_mapper order dag info = Some (inl m) ->
  forall steps ports outs s st i jp out_names,
  In s (get_step_ids (sync_mapper order m jts) steps ports outs) -> In st steps -> s_id st = s ->
  (forall st', In st' steps -> s_id st' = s -> st' = st) ->
  In i (s_in st) -> port_name ports i = Some jp ->
  private_port d jp out_names ->
  (forall x, In x inputs -> ~ port_of_token d x jp) ->
  exists t, is_node dag t /\ lostT d t /\ exists nm, port_of_token d t nm /\ In nm out_names.
Proof. exact synced_selected_step_lost_output. Qed.

(* ---- non-vacuity ---- *)
(* 1: source (available); 2: job token of job 7 (made from 1); 3: output of job 7, LOST (made from 1, 2);
   4: job token of the failed job 8 (made from 3); 5: another available input of the failed job, made from 6;
   6: available, must not be pulled in. *)
Definition ex_db : db :=
  [ mkTok 1 1 1 0 None true false [];
    mkTok 2 2 2 0 (Some 7) true false [1];
    mkTok 3 3 3 0 None false false [1; 2];
    mkTok 4 4 4 0 (Some 8) true false [3];
    mkTok 5 5 5 0 None true false [6];
    mkTok 6 6 6 0 None true false [] ]%N.

Example C18_ex_build :
  match build_graph ex_db [3; 4; 5]%N with
  | BOk dag info => get_nodes dag = [3; 4; 5; 1; 2]%N /\ edges_of (gsucc dag) = [(1, 3); (2, 3)]%N
  | _ => False
  end.
Proof. vm_compute. split; reflexivity. Qed.
Example C18_ex_lost : lostT ex_db 3%N /\ ~ lostT ex_db 5%N.
Proof.
  split.
  - eexists. split; [reflexivity|reflexivity].
  - intros [r [A B]]. vm_compute in A. injection A as <-. discriminate B.
Qed.
Example C18_ex_soft :
  match build_graph ex_db [4; 5]%N with
  | BOk dag info => get_nodes dag = [4; 5]%N /\ edges_of (gsucc dag) = []
  | _ => False
  end.
Proof. vm_compute. split; reflexivity. Qed.
(* steps: 10 = schedule of job 7 (in port 1, out port 2); 11 = job 7 (in 1, 2; out 3); 12 = producer of 5 (in 6, out 5) *)
Example C18_ex_steps :
  match build_graph ex_db [3; 4; 5]%N with
  | BOk dag info =>
      match create_graph_mapper (fun l => l) dag info with
      | Some (inl m) =>
          get_step_ids m [mkStep 10 [1] [2]; mkStep 11 [1; 2] [3]; mkStep 12 [6] [5]; mkStep 13 [] [1]]%N
                       [(1, 1); (2, 2); (3, 3); (4, 4); (5, 5); (6, 6)]%N [9%N] = [10; 11; 13]%N
      | _ => False
      end
  | _ => False
  end.
Proof. vm_compute. reflexivity. Qed.

(* the hypotheses of C18_step_selected_only_if_output_lost_partial are met: step 11 (job 7) has the private job port 2,
   everything made from a token of port 2 sits on port 3, and no input of the failed job sits on port 2 *)
Example C18_ex_private : private_port ex_db 2%N [3%N].
Proof.
  intros t p rt rp Ht Hp Hq Hport. apply find_tok_In in Ht. simpl in Ht.
  repeat (destruct Ht as [<- |Ht];
          [simpl in Hp;
           repeat (destruct Hp as [<- |Hp];
                   [vm_compute in Hq; injection Hq as <-; simpl in Hport; try discriminate Hport; simpl; auto|]);
           try destruct Hp|]).
  destruct Ht.
Qed.
Example C18_ex_inputs_not_on_job_port : forall x, In x [3; 4; 5]%N -> ~ port_of_token ex_db x 2%N.
Proof.
  intros x Hx [r [A B]]. simpl in Hx.
  destruct Hx as [<- |[<- |[<- |[]]]]; vm_compute in A; injection A as <-; discriminate B.
Qed.

(* job 7 of ex_db: no intermediate tokens, its output is token 3; its job token 2 is in the graph and 3 is lost *)
Example C18_ex_job_shape :
  (forall j t, job_token_of ex_db 7%N j -> dep ex_db t j -> False \/ t = 3%N) /\ job_token_of ex_db 7%N 2%N.
Proof.
  split; [|eexists; split; reflexivity].
  intros j t [rj [Hj Jj]] [rt [Ht Dt]]. right.
  pose proof (find_tok_id ex_db _ _ Hj) as Ej. pose proof (find_tok_id ex_db _ _ Ht) as Et.
  apply find_tok_In in Hj. apply find_tok_In in Ht. simpl in Hj, Ht.
  destruct Hj as [<- |[<- |[<- |[<- |[<- |[<- |[]]]]]]]; simpl in Jj, Ej; try discriminate Jj; subst j;
    destruct Ht as [<- |[<- |[<- |[<- |[<- |[<- |[]]]]]]]; simpl in Dt, Et; subst t;
    try reflexivity; intuition discriminate.
Qed.

(* job 7 (job token 2) is being recovered elsewhere: its output 3 is moved to the root, and steps 10, 11 are no longer
   selected (only 13, the producer of the source port, whose token 1 is still an input of the failed job's graph) *)
Example C18_ex_sync :
  match build_graph ex_db [3; 4; 5]%N with
  | BOk dag info =>
      match create_graph_mapper (fun l => l) dag info with
      | Some (inl m) =>
          let m' := sync_mapper (fun l => l) m [2%N] in
          successors (m_dag m') 2%N = [] /\ contains (m_dag m) 2%N = true /\
          get_step_ids m' [mkStep 10 [1] [2]; mkStep 11 [1; 2] [3]; mkStep 12 [6] [5]; mkStep 13 [] [1]]%N
                       [(1, 1); (2, 2); (3, 3); (4, 4); (5, 5); (6, 6)]%N [9%N] <> [10; 11; 13]%N
      | _ => False
      end
  | _ => False
  end.
Proof. vm_compute. repeat split; try reflexivity. discriminate. Qed.

Print Assumptions C18_ancestors.
Print Assumptions C18_stops_at_available.
Print Assumptions C18_only_producers_of_lost.
Print Assumptions C18_soft_failure.
Print Assumptions C18_graph_consistent.
Print Assumptions C18_get_step_ids_sound.
Print Assumptions C18_mapper_ports_are_graph_ports.
Print Assumptions C18_selected_step_ports.
Print Assumptions C18_step_selected_only_if_output_lost_partial.
Print Assumptions C18_job_rerun_only_if_needed_partial.
Print Assumptions C18_injected_tokens_are_available.
Print Assumptions C18_restored_tokens_are_unavailable.
Print Assumptions C18_sync_keeps_mapper_consistent.
Print Assumptions C18_sync_detaches_recovering_job.
Print Assumptions C18_synced_mapper_ports_are_graph_ports.
Print Assumptions C18_plan_end_to_end_step_partial.
Print Assumptions C18_mapper_consistent.
Print Assumptions C18_mapper_consistent_initially.
Print Assumptions C18_created_mapper_consistent.
Print Assumptions C18_token_in_one_port.
