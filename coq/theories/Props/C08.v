(* Props/C08.v — Saving then loading a workflow reproduces it exactly.
   Only statements here; every proof is [exact <lemma of Persist/Proofs.v>].

   Modelled and proved: the token family (Token with any JSON value, ListToken, ObjectToken nested to any depth,
   TerminationToken, IterationTerminationToken) through the token table, and the independence of loaded copies as
   far as it depends on the database layer (rows handed out by the cached getters, DbCache/Model.v).
   NOT modelled (exercised by the check on the real code only, judged by the oracle): steps, ports, wiring,
   combinator trees, deployment/target/filter configurations, JobToken, the WorkflowBuilder copy, CWL entities. *)
From Coq Require Import List NArith ZArith.
From SF Require Import Base.Str DbCache.Model DbCache.Proofs Persist.Model Persist.Proofs.
Import ListNotations.
Local Open Scope string_scope. Local Open Scope list_scope.

(* load (save t) = t: same type, tag, value and recoverable flag, for every nested token and whatever the token
   table already contains.  PARTIAL with respect to the property text: tokens only (see the header). *)
Theorem C08_token_roundtrip_partial : forall t d,
  wf t -> load (height t) (snd (save t d)) (fst (save t d)) = Some t.
Proof. exact token_roundtrip. Qed.

(* saving never changes what an already stored record loads to *)
Theorem C08_save_keeps_stored_records : forall t d f id u,
  load f d id = Some u -> load f (snd (save t d)) id = Some u.
Proof. exact save_keeps_loaded. Qed.

(* two loads are independent as far as the database layer is concerned: with the deep-copying getters, changing
   any object inside one handed-out row changes neither the stored record, nor the cache, nor any other
   handed-out row.  PARTIAL: the construction of the Python objects from the rows is not modelled. *)
Theorem C08_loads_independent_partial : forall s h p m,
  deep_handles s ->
  let s' := fst (mutate s h p m) in
  db s' = db s /\ cache s' = cache s /\ cells s' = cells s /\
  forall j hj, j <> h -> nth_error (handles s) j = Some hj ->
    nth_error (handles s') j = Some hj /\ resolve (cells s') hj = resolve (cells s) hj.
Proof. exact deep_rows_independent. Qed.

(* the code before the fix (one-level copies): appending to params["items"] of one read of a step row -- what
   Combinator.add_item does to a loaded combinator -- changes the other read of the same row *)
Theorem C08_independent_refuted :
  let s := fst (run Shallow init shared_witness) in
  let s0 := fst (run Shallow init (firstn 3 shared_witness)) in
  map (resolve (cells s)) (skipn 1 (handles s)) <> map (resolve (cells s0)) (skipn 1 (handles s0)).
Proof. exact shared_witness_differs. Qed.

(* non-vacuity *)
Example C08_roundtrip_example :
  let t := PList "0" [PTok "streamflow.core.workflow.Token" "0.0" (JObj [("a", JArr [JNum 1; JNull])]) true;
                      PObj "0.1" ["k"; "z"] [PTerm 4; PList "0.1" [PIter "0.1.2"]]] in
  wf t /\ height t = 4 /\
  load (height t) (snd (save t [mkrow "x" "9" VNull false])) (fst (save t [mkrow "x" "9" VNull false])) = Some t.
Proof. vm_compute. repeat split; reflexivity. Qed.
Example C08_independent_fixed :
  let s := fst (run Deep init shared_witness) in
  let s0 := fst (run Deep init (firstn 3 shared_witness)) in
  deep_handles s0 /\
  map (resolve (cells s)) (skipn 1 (handles s)) = map (resolve (cells s0)) (skipn 1 (handles s0)).
Proof. split; [reflexivity | exact shared_witness_deep_ok]. Qed.

Print Assumptions C08_token_roundtrip_partial.
Print Assumptions C08_save_keeps_stored_records.
Print Assumptions C08_loads_independent_partial.
Print Assumptions C08_independent_refuted.
