(* Props/C08.v — Saving then loading a workflow reproduces it exactly.
   Only statements here; every proof is [exact <lemma of Persist/Proofs.v>].

   Modelled and proved: whole workflows (Persist/WfModel.v: name, config, input / output ports, ports of the generic
   classes, Scatter / Gather / Combinator steps with status, wiring through the dependency table keyed by
   (step, port), combinator trees of any depth) through the workflow / port / step / dependency tables; the token
   family (Persist/Model.v: Token with any JSON value, ListToken, ObjectToken nested to any depth, TerminationToken,
   IterationTerminationToken) through the token table; the independence of loaded copies as far as it depends on
   the database layer (rows handed out by the cached getters, DbCache/Model.v).
   Step kinds: Scatter, Gather, Combinator / LoopCombinator, parameterless classes, job-port classes, ExecuteStep
   (output connectors), DeployStep (its DeploymentConfig) and ScheduleStep (its binding: targets, filters; job prefix,
   directories) with the deployment / target / filter tables threaded through the save.
   NOT modelled: commands and output processors, hardware requirements, port classes with parameters, CWL
   entities; persistent ids of the builder copy (oracle only). *)
From Coq Require Import List NArith ZArith.
From SF Require Import Base.Str DbCache.Model DbCache.Proofs Persist.Model Persist.Proofs Persist.WfModel Persist.WfProofs Persist.CfgModel Persist.CfgProofs Persist.TreeModel Persist.TreeProofs.
Import ListNotations.
Local Open Scope string_scope. Local Open Scope list_scope.

(* load(save w) = w: the same steps, ports and wiring, the same parameters -- for every workflow in the domain
   [ok_wf] (dict keys unique; every step refers to existing ports and to each of them under one name only -- the
   excluded class is refuted below and is a known finding; Scatter / Gather steps have their size port) and every
   database whose rows refer to existing workflows / steps ([ok_db]; any number of workflows saved before).
   PARTIAL: the step and port classes listed in the header; equality is exact in the model, whose dependency maps
   and tables abstract from dict / row order (see Persist/WfModel.v). *)
Theorem C08_workflow_roundtrip_partial : forall w d,
  ok_db d = true -> ok_wf w = true ->
  exists wid d', save_wf w d = Some (wid, d') /\ load_wf d' wid = Some w /\ wid = S (length (t_wf d)).
Proof. exact workflow_roundtrip. Qed.

(* the WorkflowBuilder deep copy has the same structure, every step back in status WAITING.  PARTIAL: that the
   copy carries no persistent id is not expressible in the model (it has no ids in memory); the oracle checks it. *)
Theorem C08_builder_copy_partial : forall w d,
  ok_db d = true -> ok_wf w = true ->
  exists wid d', save_wf w d = Some (wid, d') /\
    builder_copy d' wid =
      Some (mkwf (w_name w) (w_config w) (w_inp w) (w_outp w) (w_ports w)
                 (map (fun s => mkstep (s_name s) (s_kind s) 0%Z (s_in s) (s_out s)) (w_steps w))).
Proof. exact builder_copy_structure. Qed.

(* outside [ok_wf]: a step that uses one port as input "a" and as output "o" loads back without one of them *)
Theorem C08_port_under_two_names_refuted :
  ok_db (mkwdb [] [] [] [] (mkcdb [] [] [])) = true /\
  exists d', save_wf twice_witness (mkwdb [] [] [] [] (mkcdb [] [] [])) = Some (1, d') /\
             load_wf d' 1 <> Some twice_witness /\ load_wf d' 1 <> None.
Proof. exact twice_witness_loses. Qed.

(* a command with its command token processors, a command output processor, a token processor: every tree of
   {"type", "params"} nodes with one optional child, a list or a dict of children, of any depth, is loaded back as it
   was saved -- for the workflow it was saved for (output and token processors store the workflow id in every node)
   and for no other. *)
Theorem C08_command_roundtrip : forall w t, load_tree w (save_tree w t) = Some t.
Proof. exact tree_roundtrip. Qed.
Theorem C08_processor_other_workflow_rejected : forall a b c ps ks subs,
  a <> b -> load_tree (Some b) (save_tree (Some a) (PNode c ps ks subs)) = None.
Proof. exact tree_other_workflow. Qed.

(* deployment, target (incl. LocalTarget) and filter configurations, and the binding of a ScheduleStep (its targets
   and filters): load(save x) = x on any prior tables, and later saves never change what stored ids load to.
   (external / lazy come back as 0 / 1 from their INTEGER columns; Python compares them equal to False / True and
   the model keeps booleans.) *)
Theorem C08_config_roundtrip : forall b d,
  load_binding (snd (save_binding b d)) (fst (save_binding b d)) = Some b /\
  (forall x, load_deploy (snd (save_deploy x d)) (fst (save_deploy x d)) = Some x) /\
  (forall x, load_target (snd (save_target x d)) (fst (save_target x d)) = Some x) /\
  (forall x, load_filter (snd (save_filter x d)) (fst (save_filter x d)) = Some x).
Proof.
  intros b d. split; [exact (proj1 (binding_roundtrip b d))|].
  split; [intros x; exact (deploy_roundtrip x d)|]. split; [intros x; exact (target_roundtrip x d) | intros x; exact (filter_roundtrip x d)].
Qed.
Theorem C08_config_saves_keep_stored : forall b d ids x,
  load_binding d ids = Some x -> load_binding (snd (save_binding b d)) ids = Some x.
Proof. exact binding_kept. Qed.

(* load (save t) = t: same type, tag, value and recoverable flag, for every nested token and whatever the token
   table already contains.  PARTIAL with respect to the property text: tokens only (see the header). *)
Theorem C08_token_roundtrip_partial : forall t d,
  wf t -> load (height t) (snd (save t d)) (fst (save t d)) = Some t.
Proof. exact token_roundtrip. Qed.

(* saving never changes what an already stored record loads to *)
Theorem C08_save_keeps_stored_records : forall t d f id u,
  load f d id = Some u -> load f (snd (save t d)) id = Some u.
Proof. exact save_keeps_loaded. Qed.

(* two loads are independent as far as the database layer is concerned: with the deep-copying getters, changing
   any object inside one handed-out row changes neither the stored record, nor the cache, nor any other
   handed-out row.  PARTIAL: the construction of the Python objects from the rows is not modelled. *)
Theorem C08_loads_independent_partial : forall s h p m,
  deep_handles s ->
  let s' := fst (mutate s h p m) in
  db s' = db s /\ cache s' = cache s /\ cells s' = cells s /\
  forall j hj, j <> h -> nth_error (handles s) j = Some hj ->
    nth_error (handles s') j = Some hj /\ resolve (cells s') hj = resolve (cells s) hj.
Proof. exact deep_rows_independent. Qed.

(* the code before the fix (one-level copies): appending to params["items"] of one read of a step row -- what
   Combinator.add_item does to a loaded combinator -- changes the other read of the same row *)
Theorem C08_independent_refuted :
  let s := fst (run Shallow init shared_witness) in
  let s0 := fst (run Shallow init (firstn 3 shared_witness)) in
  map (resolve (cells s)) (skipn 1 (handles s)) <> map (resolve (cells s0)) (skipn 1 (handles s0)).
Proof. exact shared_witness_differs. Qed.

(* non-vacuity *)
Example C08_roundtrip_example :
  let t := PList "0" [PTok "streamflow.core.workflow.Token" "0.0" (JObj [("a", JArr [JNum 1; JNull])]) true;
                      PJob "0" true "/s/0" 1 [JNull; JStr "/o"; JNull] ["in"] [PTok "streamflow.core.workflow.Token" "0" (JNum 3) false];
                      PObj "0.1" ["k"; "z"] [PTerm 4; PList "0.1" [PIter "0.1.2"]]] in
  wf t /\ height t = 4 /\
  load (height t) (snd (save t [mkrow "x" "9" VNull false])) (fst (save t [mkrow "x" "9" VNull false])) = Some t.
Proof. vm_compute. repeat split; reflexivity. Qed.
Example C08_workflow_example :
  let c := PComb CDot "c0" ["a"; "c1"] [("b", "c1")] ["c1"] [PComb (CCart 2) "c1" ["b"] [] [] []] in
  let dc := mkdeploy "dock" "docker" (JObj [("image", JStr "x")]) false true ("p", "data_locality", JObj []) None
                     (Some ("outer", None)) in
  let w := mkwf "wf" (JObj [("k", JArr [JNum 1])]) [("x", "p0")] [("out", "p2")]
                [mkport "p0" "Port"; mkport "p1" "JobPort"; mkport "p2" "Port"]
                [mkstep "/sc" KScatter 4%Z [("in", "p0")] [("__size__", "p1"); ("o", "p2")];
                 mkstep "/g" (KGather 2) 0%Z [("__size__", "p1"); ("a", "p2")] [("r", "p0")];
                 mkstep "/c" (KComb true c) 2%Z [("a", "p0"); ("b", "p1")] [("a", "p2")];
                 mkstep "/t" (KPlain "pkg.MyTransformer") 0%Z [("x", "p2")] [("y", "p1")];
                 mkstep "/x" (KExecute [("y", "conn")] ["y"] [PNode "Map" [("name", JStr "y")] [] [PNode "Default" [("name", JStr "y")] [] []]]
                                        (Some (PNode "Cmd" [("base_command", JArr [JStr "echo"])] [] [PNode "Tok" [("name", JStr "a")] [] []]))) 1%Z [("__job__", "p1"); ("x", "p0")] [("y", "p2")];
                 mkstep "/tr" (KJobIn "pkg.MyTransfer") 0%Z [("__job__", "p1")] [("f", "p0")];
                 mkstep "/d" (KDeploy dc) 0%Z [] [("dock", "p2")];
                 mkstep "/sch" (KSchedule (mkbinding [PTarget dc 2 (Some "svc") "/w"; PLocal "/tmp"] [mkfilter "f" "shuffle" (JObj [])])
                                          "/sch" [JNull; JStr "/o"; JNull]) 0%Z
                        [("__connector__dock", "p2")] [("__job__", "p1")]] in
  let d0 := mkwdb [mkwrow "old" JNull [] []] [mkprow "q" 1 "Port"] [] [] (mkcdb [local_deploy] [] []) in
  ok_wf w = true /\ ok_db d0 = true /\
  option_map (fun r => load_wf (snd r) (fst r)) (save_wf w d0) = Some (Some w).
Proof. vm_compute. repeat split; reflexivity. Qed.
Example C08_independent_fixed :
  let s := fst (run Deep init shared_witness) in
  let s0 := fst (run Deep init (firstn 3 shared_witness)) in
  deep_handles s0 /\
  map (resolve (cells s)) (skipn 1 (handles s)) = map (resolve (cells s0)) (skipn 1 (handles s0)).
Proof. split; [reflexivity | exact shared_witness_deep_ok]. Qed.

Print Assumptions C08_workflow_roundtrip_partial.
Print Assumptions C08_builder_copy_partial.
Print Assumptions C08_port_under_two_names_refuted.
Print Assumptions C08_command_roundtrip.
Print Assumptions C08_processor_other_workflow_rejected.
Print Assumptions C08_config_roundtrip.
Print Assumptions C08_config_saves_keep_stored.
Print Assumptions C08_token_roundtrip_partial.
Print Assumptions C08_save_keeps_stored_records.
Print Assumptions C08_loads_independent_partial.
Print Assumptions C08_independent_refuted.
