(* Props/C30.v — CWL tools receive exactly the arguments the reference runner passes.
   Only statements here; every proof is [exact <lemma of CwlCmd/Proofs.v or Shell/Proofs.v>] or a vm_compute witness.
   Models: CwlCmd/Model.v ([spec_*] = the CommandLineBinding rules as cwltool applies them, [sf_*] = StreamFlow). *)
From Coq Require Import List NArith ZArith Ascii.
From SF Require Import Base.Str Shell.Model Shell.Proofs CwlCmd.Model CwlCmd.Proofs.
Import ListNotations.
Local Open Scope string_scope. Local Open Scope list_scope.
Definition mkI3 n a b := mkI n a b None.   (* an input without a binding on its items *)

(* [job_typed] of a concrete tool and input object *)
Ltac typed_input :=
  split; [intros H l; try discriminate H; vm_compute; discriminate
         |split; [intros H l E; try (exfalso; apply H; reflexivity); inversion E; subst; repeat constructor
                 |intros H b E; try discriminate H; try discriminate E; inversion E; subst; vm_compute;
                  intros; repeat constructor; auto]].
Ltac typed_job := split; [repeat (constructor; [typed_input|]); constructor
                         |repeat (constructor; [vm_compute; intros; repeat constructor; auto|]); constructor].

(* CWLCommandTokenProcessor.bind against Builder.generate_arg, one binding, every value (null, booleans, numbers,
   strings, arrays of any length) and every combination of prefix / separate / itemSeparator / quoting flags:
   no token exactly when no argument, else the same arguments piece for piece, quoted as the flags say. *)
Theorem C30_binding_equiv : forall f b v,
  b_prefix b <> Some "" -> b_isep b <> Some "" -> value_ok b v ->
  match sf_bind f b v with
  | None => spec_generate b v = []
  | Some l => spec_generate b v <> [] /\ map repr l = map (q_str (flags_q f)) (spec_generate b v)
  end.
Proof. exact bind_equiv. Qed.

(* The text StreamFlow gives the shell is the reference text: any number of arguments and inputs, any positions
   (ties, negatives), any values.  [tool_ok]: non-empty prefixes/separators, input names sorting after argument
   indexes, and no ARRAY input bound without valueFrom/itemSeparator says shellQuote:false under
   ShellCommandRequirement (cwltool quotes such items regardless: C30_array_quote_false_refuted).
   [job_typed]: an input not declared as an array does not hold one, and every binding meets a value in [value_ok]:
   no null/boolean items printed one by one, no empty list out of a valueFrom under a prefix (the reference and
   StreamFlow differ there: C30_bool_null_items_refuted, C30_empty_valuefrom_refuted). *)
Theorem C30_line_equiv : forall t j, tool_ok t -> job_typed t j -> sf_line t j = spec_line t j.
Proof. exact line_equiv. Qed.

(* sf_argv = spec_argv: when every binding is quoted, a POSIX shell gives the tool exactly the reference argv. *)
Theorem C30_argv_equiv : forall t j,
  tool_ok t -> job_typed t j -> quotes_all t -> sf_argv t j = Some (spec_argv t j).
Proof. exact argv_equiv. Qed.

(* ... which is always the case without ShellCommandRequirement *)
Theorem C30_argv_equiv_noshell : forall t j,
  tool_ok t -> job_typed t j -> t_shell t = false -> sf_argv t j = Some (spec_argv t j).
Proof. intros t j H T S. apply argv_equiv; [exact H|exact T|apply nonshell_quotes_all; exact S]. Qed.

(* C30_quote: with ShellCommandRequirement, pieces with shellQuote true reach the tool verbatim, whatever they
   contain (blanks, quotes, $, `, ;, newlines, the empty string) *)
Theorem C30_quote : forall ps : list piece,
  forallb snd ps = true -> sh_words (join " " (map render ps)) = Some (map fst ps).
Proof. exact quoted_line_verbatim. Qed.

(* EnvVarRequirement values, the working directory and the redirection targets are single verbatim words of the
   line LocalConnector.run gives to sh -c (create_command after the C25 fix: shlex.quote on each) *)
Theorem C30_env_redirections : forall args e w i o er,
  args <> [] -> forallb (fun kv => key_ok (fst kv)) (opt_env e) = true -> o <> SPipe -> o <> SDevnull ->
  exists line,
    create_command (map quote args) e w i o er = inl line /\
    sh_lex line = Some (app (wd_toks "&&" w) (app (export_toks "&&" (opt_env e))
                        (app (map W args) (app (stdin_toks i) (app (stdout_toks o) (stderr_toks o er)))))).
Proof. intros. apply create_command_tokens; auto. apply cmd_ok_quoted. assumption. Qed.

(* CWLCommand.execute's stream defaults (after the fix of finding 4), through create_command: with `stdout: f` declared
   and `stderr` not, the line carries NO stderr redirection (before the fix: 2>&1 into f). *)
(* ... and for every declared / undeclared combination: the streams execute() chooses, put through create_command,
   lex to the command words followed by exactly the redirections that put fd 1 / fd 2 of the tool on the declared
   files (names verbatim, whatever they contain) and nowhere else *)
Theorem C30_stream_targets : forall args so se,
  args <> [] ->
  exists line,
    create_command (map quote args) None None None (fst (sf_streams so se)) (snd (sf_streams so se)) = inl line /\
    sh_lex line = Some (app (wd_toks "&&" None) (app (export_toks "&&" (opt_env None))
                    (app (map W args) (app (stdin_toks None)
                       (app (stdout_toks (fst (sf_streams so se)))
                            (stderr_toks (fst (sf_streams so se)) (snd (sf_streams so se)))))))) /\
    sf_stdout_target so se = so /\ sf_stderr_target so se = se.
Proof.
  intros args so se Ha.
  assert (Hp : fst (sf_streams so se) <> SPipe) by (unfold sf_streams; destruct so; cbn; intro HH; discriminate HH).
  destruct (create_command_tokens (map quote args) (map W args) None None None
              (fst (sf_streams so se)) (snd (sf_streams so se)) (cmd_ok_quoted args Ha) eq_refl Hp) as (line & H1 & H2).
  exists line. repeat split; [exact H1|exact H2|apply stdout_target_spec|apply stderr_target_spec].
Qed.
Theorem C30_stderr_unset_not_redirected : forall f, let (o, e) := sf_streams (Some f) None in stderr_str o e = "".
Proof. exact stderr_unset_file. Qed.

(* The witness that refuted the property before the fix of finding 1 (an array input whose binding does not write
   shellQuote: c = ["a;echo b"], prefix "$P"; the line used to be  tool $P a;echo b ) now agrees. *)
Definition refute_tool : tool :=
  mkT false ["tool"] [] [mkI3 "c" true (Some (mkB 1 (Some "$P") false None None VfNone))].
Definition refute_job : job := [("c", Arr [VStr "a;echo b"])].
Example C30_array_default_quoted :
  sf_line refute_tool refute_job = "tool '$P' 'a;echo b'" /\
  sf_argv refute_tool refute_job = Some ["tool"; "$P"; "a;echo b"] /\ spec_argv refute_tool refute_job = ["tool"; "$P"; "a;echo b"].
Proof. vm_compute. repeat split; reflexivity. Qed.

(* Outside [tool_ok]: ShellCommandRequirement and shellQuote: false on the binding of an array (no valueFrom, no
   itemSeparator).  The reference still quotes the items, StreamFlow does not: the lines differ (known finding). *)
Definition qf_tool : tool :=
  mkT true ["tool"] [] [mkI3 "z" true (Some (mkB 0 (Some "-z") true None (Some false) VfNone))].
Definition qf_job : job := [("z", Arr [VStr "= say hi"])].
Theorem C30_array_quote_false_refuted :
  exists t j, job_typed t j /\ spec_line t j = "tool -z '= say hi'" /\ sf_line t j = "tool -z = say hi".
Proof.
  exists qf_tool, qf_job. split; [typed_job|vm_compute; split; reflexivity].
Qed.

(* Outside [job_typed] (found by an audit of the first version of the reference model, which was wrong here):
   null and boolean ITEMS of an array bound without valueFrom / itemSeparator -- the reference binds them one by one and
   prints nothing for them, StreamFlow prints True / False / None; and an EMPTY list out of a valueFrom under a prefix
   -- the reference emits the bare prefix, StreamFlow nothing. *)
Definition bn_tool : tool :=
  mkT false ["tool"] []
      [mkI3 "bs" true (Some (mkB 1 (Some "-b") true None None VfNone));
       mkI3 "ns" true (Some (mkB 2 (Some "-n") true None None VfNone))].
Definition bn_job : job := [("bs", Arr [VBool true; VBool false]); ("ns", Arr [VNull; VStr "x"])].
Theorem C30_bool_null_items_refuted :
  exists t j, tool_ok t /\ spec_argv t j = ["tool"; "-b"; "-n"; "x"] /\
              sf_argv t j = Some ["tool"; "-b"; "True"; "False"; "-n"; "None"; "x"].
Proof.
  exists bn_tool, bn_job. split; [|vm_compute; split; reflexivity].
  split; repeat constructor; try discriminate; try (apply name_ok_head; reflexivity); try (intros; reflexivity).
Qed.
Definition ev_tool : tool :=
  mkT false ["tool"] [mkB 9 (Some "-a") true None None (VfIn "emp")]
      [mkI3 "emp" true None; mkI3 "e" false (Some (mkB 3 (Some "-e") true None None (VfIn "emp")))].
Definition ev_job : job := [("emp", Arr []); ("e", Sc (VStr "E"))].
Theorem C30_empty_valuefrom_refuted :
  exists t j, tool_ok t /\ spec_argv t j = ["tool"; "-e"; "-a"] /\ sf_argv t j = Some ["tool"].
Proof.
  exists ev_tool, ev_job. split; [|vm_compute; split; reflexivity].
  split; repeat constructor; try discriminate; try (apply name_ok_head; reflexivity); try (intros; reflexivity).
Qed.
(* ... and the array's own prefix over bound items that all stay silent (all false): the reference still emits it *)
Definition sz_tool : tool :=
  mkT false ["tool"] []
      [mkI "bz" true (Some (mkB 3 (Some "-z") true None None VfNone)) (Some (mkB 0 (Some "-w") true None None VfNone))].
Definition sz_job : job := [("bz", Arr [VBool false; VBool false])].
Theorem C30_silent_items_prefix_refuted :
  exists t j, tool_ok t /\ spec_argv t j = ["tool"; "-z"] /\ sf_argv t j = Some ["tool"].
Proof.
  exists sz_tool, sz_job. split; [|vm_compute; split; reflexivity].
  split; repeat constructor; try discriminate; try (apply name_ok_head; reflexivity); try (intros; reflexivity).
Qed.

(* Floats.  Both sides render a float from the job's spelling through decimal.Decimal ([dec_repr]; the repr of the
   theorems above includes it, so C30_binding_equiv .. C30_argv_equiv cover float values and float arrays).  What the
   rendering does to a spelling: without exponent and not below 1e-6 (in Decimal's sense) it is passed exactly as
   spelled -- 0.00001, 2.50, 100.0 stay what they are (Python's repr(float) would give 1e-05, 2.5). *)
Theorem C30_float_spelling_kept : forall neg ip fp,
  fp <> "" ->
  (ip = "0" \/ exists c r, ip = String c r /\ Ascii.eqb c "0" = false) ->
  (-6 < Z.of_nat (String.length (dec_int ip fp)) - Z.of_nat (String.length fp))%Z ->
  dec_repr neg ip fp None = (if neg then "-" else "") ^^ ip ^^ "." ^^ fp.
Proof. exact dec_repr_plain. Qed.
(* exponent spellings and values below 1e-6: instances (the general rule is dec_repr itself, checked against both
   runners by the correspondence) *)
Example C30_float_examples :
  dec_repr false "0" "00001" None = "0.00001" /\ dec_repr false "2" "50" None = "2.50" /\
  dec_repr false "1" "" (Some 3%Z) = "1000" /\ dec_repr false "1" "5" (Some (-3)%Z) = "0.0015" /\
  dec_repr false "1" "50" (Some 1%Z) = "15.0" /\ dec_repr true "0" "0000001" None = "-0" /\
  dec_repr false "1" "" (Some (-7)%Z) = "0" /\ dec_repr false "0" "" (Some 3%Z) = "0".
Proof. vm_compute. repeat split; reflexivity. Qed.

(* ---------------------------------------------------------------- bindings on array items
   cwltool's sort keys were read off Builder.bind_input by instrumenting generate_arg (design/notes/C30.md):
     array with a binding of its own at position P:  [P, name]  and its items  [P, name, n, itempos, name, name]
     array without one:                               its items  [n, itempos, name, name]   (index FIRST)
   [tool_ok] admits a binding on the items under a binding on the array that leaves shellQuote unwritten and has a
   shell-safe prefix (if any); for those C30_line_equiv / C30_argv_equiv hold as stated: prefix, then the items in
   index order, wherever the item binding's position points -- in both runners. *)
(* with a binding on the array itself the POSITION written on the item binding is irrelevant in both runners: the
   array's prefix, then the items in index order (cwltool's keys [P, name, n, itempos, ...] sort by n before itempos;
   StreamFlow's item tokens only lend their values to the array's token) *)
Theorem C30_item_binding_order : forall t j i ib ob p,
  i_bind i = Some ob ->
  spec_item_input t j i (set_pos ib p) = spec_item_input t j i ib /\
  sf_item_input t j i (set_pos ib p) = sf_item_input t j i ib.
Proof. exact item_position_irrelevant. Qed.
Definition it_tool : tool :=
  mkT false ["tool"] []
      [mkI "x" true (Some (mkB 2 (Some "-x") true None None VfNone)) (Some (mkB 7 (Some "-i y") true None None VfNone));
       mkI3 "y" false (Some (mkB 1 None true None None VfNone)); mkI3 "w" false (Some (mkB 3 None true None None VfNone))].
Definition it_job : job := [("x", Arr [VStr "a b"; VStr "it's"; VStr "$HOME"]); ("y", Sc (VStr "Y")); ("w", Sc (VStr "W"))].
Example C30_item_binding_order_ex :
  tool_ok it_tool /\ job_typed it_tool it_job /\ quotes_all it_tool /\
  spec_argv it_tool it_job = ["tool"; "Y"; "-x"; "-i y"; "a b"; "-i y"; "it's"; "-i y"; "$HOME"; "W"].
Proof.
  split; [|split; [|split]].
  - split; repeat constructor; try discriminate; try (apply name_ok_head; reflexivity); try (intros; reflexivity).
  - typed_job.
  - intros b Hb. unfold quoted. reflexivity.
  - vm_compute. reflexivity.
Qed.

(* without a binding on the array the reference orders the items by INDEX first, StreamFlow by the item position:
   x = [a, b, c] (items at position 2), y at 1, w at 3 *)
Definition io_tool : tool :=
  mkT false ["tool"] []
      [mkI "x" true None (Some (mkB 2 None true None None VfNone));
       mkI3 "y" false (Some (mkB 1 None true None None VfNone)); mkI3 "w" false (Some (mkB 3 None true None None VfNone))].
Definition io_job : job := [("x", Arr [VStr "a"; VStr "b"; VStr "c"]); ("y", Sc (VStr "Y")); ("w", Sc (VStr "W"))].
Theorem C30_item_only_order_refuted :
  exists t j, spec_argv t j = ["tool"; "a"; "b"; "Y"; "c"; "W"] /\ sf_argv t j = Some ["tool"; "Y"; "a"; "b"; "c"; "W"].
Proof. exists io_tool, io_job. vm_compute. split; reflexivity. Qed.

(* a binding on the array that DOES write shellQuote over bound items: StreamFlow quotes the items twice;
   one that does not: its own prefix goes unquoted ("$P" is expanded away by the shell) *)
Definition tw_tool (q : option bool) : tool :=
  mkT true ["tool"] []
      [mkI "k" true (Some (mkB 0 (Some "$P") true None q VfNone)) (Some (mkB 0 None true None None VfNone))].
Definition tw_job : job := [("k", Arr [VStr "a b"])].
Theorem C30_item_twice_refuted :
  exists t j, spec_line t j = "tool '$P' 'a b'" /\ sf_line t j = "tool '$P' ''""'""'a b'""'""''".
Proof. exists (tw_tool (Some true)), tw_job. vm_compute. split; reflexivity. Qed.
Theorem C30_item_array_prefix_refuted :
  exists t j, spec_line t j = "tool '$P' 'a b'" /\ sf_line t j = "tool $P 'a b'".
Proof. exists (tw_tool None), tw_job. vm_compute. split; reflexivity. Qed.

(* An `arguments` entry has no name: it precedes every input at the same position, also one whose name is below
   "None" (the str() of the missing name): Bam, INPUT, M.  Such names are inside [tool_ok] ([name_ok]: first
   character above '9'), so C30_line_equiv covers them; an instance: *)
Definition nm_tool : tool :=
  mkT false ["tool"] [mkB 1 None true None None (VfLit "ARG")]
      [mkI3 "z" false (Some (mkB 1 None true None None VfNone)); mkI3 "Bam" false (Some (mkB 1 None true None None VfNone));
       mkI3 "None" false (Some (mkB 1 None true None None VfNone))].
Definition nm_job : job := [("z", Sc (VStr "zed")); ("Bam", Sc (VStr "b.bam")); ("None", Sc (VStr "none"))].
Example C30_argument_before_names :
  name_ok "Bam" /\ name_ok "INPUT" /\ name_ok "None" /\
  sf_argv nm_tool nm_job = Some ["tool"; "ARG"; "b.bam"; "none"; "zed"] /\
  spec_argv nm_tool nm_job = ["tool"; "ARG"; "b.bam"; "none"; "zed"].
Proof. repeat split; try (apply name_ok_head; reflexivity); vm_compute; reflexivity. Qed.

(* non-vacuity *)
Definition ex_tool : tool :=
  mkT true ["python"; "dump tool.py"]
      [mkB 1 None true None None (VfLit "a;echo b"); mkB 1 (Some "-x y") true None None (VfIn "s")]
      [mkI3 "s" false (Some (mkB 0 (Some "--a b=") false None None VfNone));
       mkI3 "l" true (Some (mkB (-1) (Some "-'q") true (Some "' '") (Some true) VfNone));
       mkI3 "n" false (Some (mkB 1 None true None None VfNone))].
Definition ex_job : job := [("s", Sc (VStr "x'y $HOME")); ("l", Arr [VStr "it's"; VStr ""; VInt (-3)]); ("n", Sc VNull)].
Example C30_ex_ok : tool_ok ex_tool /\ quotes_all ex_tool /\ job_typed ex_tool ex_job.
Proof.
  split; [|split].
  - split; repeat constructor; try discriminate; try (apply name_ok_head; reflexivity); try (intros; reflexivity).
  - intros b Hb. vm_compute in Hb. repeat (destruct Hb as [<-|Hb]; [reflexivity|]). destruct Hb.
  - typed_job.
Qed.
Example C30_ex_argv :
  sf_argv ex_tool ex_job
  = Some ["python"; "dump tool.py"; "-'q"; "it's' '' '-3"; "--a b=x'y $HOME"; "a;echo b"; "-x y"; "x'y $HOME"]
  /\ spec_argv ex_tool ex_job
  = ["python"; "dump tool.py"; "-'q"; "it's' '' '-3"; "--a b=x'y $HOME"; "a;echo b"; "-x y"; "x'y $HOME"].
Proof. vm_compute. split; reflexivity. Qed.
Example C30_ex_quote : forallb snd [("it's", true); ("", true); ("a;b $x", true)] = true.
Proof. reflexivity. Qed.

Print Assumptions C30_binding_equiv.
Print Assumptions C30_line_equiv.
Print Assumptions C30_argv_equiv.
Print Assumptions C30_argv_equiv_noshell.
Print Assumptions C30_quote.
Print Assumptions C30_env_redirections.
Print Assumptions C30_array_quote_false_refuted.
Print Assumptions C30_float_spelling_kept.
Print Assumptions C30_item_binding_order.
Print Assumptions C30_stream_targets.
Print Assumptions C30_bool_null_items_refuted.
Print Assumptions C30_empty_valuefrom_refuted.
Print Assumptions C30_silent_items_prefix_refuted.
Print Assumptions C30_item_only_order_refuted.
Print Assumptions C30_item_twice_refuted.
Print Assumptions C30_item_array_prefix_refuted.
Print Assumptions C30_stderr_unset_not_redirected.
