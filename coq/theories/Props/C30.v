(* Props/C30.v — CWL tools receive exactly the arguments the reference runner passes.
   Only statements here; every proof is [exact <lemma of CwlCmd/Proofs.v or Shell/Proofs.v>] or a vm_compute witness.
   Models: CwlCmd/Model.v ([spec_*] = the CommandLineBinding rules as cwltool applies them, [sf_*] = StreamFlow). *)
From Coq Require Import List NArith ZArith.
From SF Require Import Base.Str Shell.Model Shell.Proofs CwlCmd.Model CwlCmd.Proofs.
Import ListNotations.
Local Open Scope string_scope. Local Open Scope list_scope.

(* CWLCommandTokenProcessor.bind against Builder.generate_arg, one binding, every value (null, booleans, numbers,
   strings, arrays of any length) and every combination of prefix / separate / itemSeparator / quoting flags:
   no token exactly when no argument, else the same arguments piece for piece, quoted as the flags say. *)
Theorem C30_binding_equiv : forall f b v,
  b_prefix b <> Some "" -> b_isep b <> Some "" ->
  match sf_bind f b v with
  | None => spec_generate b v = []
  | Some l => spec_generate b v <> [] /\ map repr l = map (q_str (flags_q f)) (spec_generate b v)
  end.
Proof. exact bind_equiv. Qed.

(* The text StreamFlow gives the shell is the reference text: any number of arguments and inputs, any positions
   (ties, negatives), any values.  [tool_ok]: non-empty prefixes/separators, input names sorting after argument
   indexes, and ARRAY inputs writing shellQuote (without it the statement is false: C30_argv_array_refuted). *)
Theorem C30_line_equiv : forall t j, tool_ok t -> sf_line t j = spec_line t j.
Proof. exact line_equiv. Qed.

(* sf_argv = spec_argv: when every binding is quoted, a POSIX shell gives the tool exactly the reference argv. *)
Theorem C30_argv_equiv : forall t j, tool_ok t -> quotes_all t -> sf_argv t j = Some (spec_argv t j).
Proof. exact argv_equiv. Qed.

(* ... which is always the case without ShellCommandRequirement *)
Theorem C30_argv_equiv_noshell : forall t j,
  tool_ok t -> t_shell t = false -> sf_argv t j = Some (spec_argv t j).
Proof. intros t j H S. apply argv_equiv; [exact H|apply nonshell_quotes_all; exact S]. Qed.

(* C30_quote: with ShellCommandRequirement, pieces with shellQuote true reach the tool verbatim, whatever they
   contain (blanks, quotes, $, `, ;, newlines, the empty string) *)
Theorem C30_quote : forall ps : list piece,
  forallb snd ps = true -> sh_words (join " " (map render ps)) = Some (map fst ps).
Proof. exact quoted_line_verbatim. Qed.

(* EnvVarRequirement values, the working directory and the redirection targets are single verbatim words of the
   line LocalConnector.run gives to sh -c (create_command after the C25 fix: shlex.quote on each) *)
Theorem C30_env_redirections : forall args e w i o er,
  args <> [] -> forallb (fun kv => key_ok (fst kv)) (opt_env e) = true -> o <> SPipe -> o <> SDevnull ->
  exists line,
    create_command (map quote args) e w i o er = inl line /\
    sh_lex line = Some (app (wd_toks "&&" w) (app (export_toks "&&" (opt_env e))
                        (app (map W args) (app (stdin_toks i) (app (stdout_toks o) (stderr_toks o er)))))).
Proof. intros. apply create_command_tokens; auto. apply cmd_ok_quoted. assumption. Qed.

(* The property text is FALSE of the faithful model for an array input whose binding does not write shellQuote
   ("By default, do not escape composite command tokens"): one string[] input c = ["a;echo b"] with prefix "$P".
   The reference argv is ["$P"; "a;echo b"]; StreamFlow's line is  $P a;echo b  (nothing quoted). *)
Definition refute_tool : tool :=
  mkT false ["tool"] [] [mkI "c" true (Some (mkB 1 (Some "$P") false None None VfNone))].
Definition refute_job : job := [("c", Arr [VStr "a;echo b"])].
Theorem C30_argv_array_refuted :
  exists t j, spec_argv t j = ["tool"; "$P"; "a;echo b"] /\ sf_line t j = "tool $P a;echo b" /\
              sf_line t j <> spec_line t j /\ sf_argv t j <> Some (spec_argv t j).
Proof.
  exists refute_tool, refute_job. vm_compute. repeat split; discriminate.
Qed.

(* non-vacuity *)
Definition ex_tool : tool :=
  mkT true ["python"; "dump tool.py"]
      [mkB 1 None true None None (VfLit "a;echo b"); mkB 1 (Some "-x y") true None None (VfIn "s")]
      [mkI "s" false (Some (mkB 0 (Some "--a b=") false None None VfNone));
       mkI "l" true (Some (mkB (-1) (Some "-'q") true (Some "' '") (Some true) VfNone));
       mkI "n" false (Some (mkB 1 None true None None VfNone))].
Definition ex_job : job := [("s", Sc (VStr "x'y $HOME")); ("l", Arr [VStr "it's"; VStr ""; VInt (-3)]); ("n", Sc VNull)].
Example C30_ex_ok : tool_ok ex_tool /\ quotes_all ex_tool.
Proof.
  split.
  - split; repeat constructor; try discriminate; try (apply name_ok_head; reflexivity).
  - intros b Hb. vm_compute in Hb. repeat (destruct Hb as [<-|Hb]; [reflexivity|]). destruct Hb.
Qed.
Example C30_ex_argv :
  sf_argv ex_tool ex_job
  = Some ["python"; "dump tool.py"; "-'q"; "it's' '' '-3"; "--a b=x'y $HOME"; "a;echo b"; "-x y"; "x'y $HOME"]
  /\ spec_argv ex_tool ex_job
  = ["python"; "dump tool.py"; "-'q"; "it's' '' '-3"; "--a b=x'y $HOME"; "a;echo b"; "-x y"; "x'y $HOME"].
Proof. vm_compute. split; reflexivity. Qed.
Example C30_ex_quote : forallb snd [("it's", true); ("", true); ("a;b $x", true)] = true.
Proof. reflexivity. Qed.

Print Assumptions C30_binding_equiv.
Print Assumptions C30_line_equiv.
Print Assumptions C30_argv_equiv.
Print Assumptions C30_argv_equiv_noshell.
Print Assumptions C30_quote.
Print Assumptions C30_env_redirections.
Print Assumptions C30_argv_array_refuted.
