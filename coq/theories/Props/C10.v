(* Props/C10.v — The scheduler never over-allocates a location.
   Only statements; proofs are [exact <lemma of Sched/Proofs.v>] or vm_compute witnesses.

   What is proved (for every state, every chain of stacked levels, every requirement map):
     an evaluation of a request allocates only locations that pass _is_valid at every stacked level in the state
     in which it started (C10_allocation_only_when_valid); passing _is_valid on a level with declared hardware
     means ledger + requirement <= capacity on cores, memory and every mount point of the requirement, and the
     ledger after reserving is again within capacity (C10_valid_level_fits, C10_reserve_within_capacity_partial:
     "partial" because they speak of ONE level; the induction over whole histories is C10_capacity /
     C10_capacity_slots below, on the flat single-location domain); on slot levels validity is exactly count < slots (C10_valid_slots).
   What is false of the code and proved false of the model: with several locations per target sharing an inner
   location the ledger exceeds the capacity (C10_shared_inner_refuted = known finding). *)
From Coq Require Import List Bool ZArith NArith.
From SF Require Import Base.Str Hardware.Model Hardware.Proofs Sched.Model Sched.Proofs Sched.History Sched.Slots Sched.Stacked Sched.StackedHist Sched.StackedSlots Sched.Witness Sched.Examples.
Import ListNotations.
Local Open Scope string_scope. Local Open Scope list_scope. Local Open Scope Z_scope.

Theorem C10_allocation_only_when_valid : forall st job cands reqs n chosen s' vn,
  attempt st job cands reqs n chosen = Ok (s', vn, true) ->
  exists sel, sel <> [] /\ allocate st job reqs sel = Ok s' /\
    forall c, In c sel -> In c cands /\ is_valid st reqs job c = Ok true.
Proof. exact attempt_allocates_valid. Qed.

Theorem C10_valid_level_fits : forall st reqs job l cap rq cur,
  lv_cap l = Some cap -> lookup (req_key l) reqs = Some rq ->
  cur = (match lookup (lv_name l) (hwloc st) with Some h => h | None => default_hw end) ->
  wf cap -> wf cur -> wf rq ->
  (forall m, In m (mounts cur) -> In m (mounts cap)) -> (forall m, size_at cur m <= size_at cap m) ->
  level_valid st reqs job l = Ok true ->
  cores cur + cores rq <= cores cap /\ mem cur + mem rq <= mem cap /\
  forall m, In m (mounts rq) -> In m (mounts cap) /\ size_at cur m + size_at rq m <= size_at cap m.
Proof. exact cap_level_valid_fits. Qed.

Theorem C10_reserve_within_capacity_partial : forall st reqs job l cap rq cur,
  lv_cap l = Some cap -> lookup (req_key l) reqs = Some rq ->
  cur = (match lookup (lv_name l) (hwloc st) with Some h => h | None => default_hw end) ->
  wf cap -> wf cur -> wf rq ->
  (forall m, In m (mounts cur) -> In m (mounts cap)) -> (forall m, size_at cur m <= size_at cap m) ->
  cores cur <= cores cap -> mem cur <= mem cap ->
  level_valid st reqs job l = Ok true ->
  exists h, hw_add cur rq = Ok h /\ wf h /\
    cores h = cores cur + cores rq /\ mem h = mem cur + mem rq /\
    (forall m, size_at h m = size_at cur m + size_at rq m) /\
    cores h <= cores cap /\ mem h <= mem cap /\
    (forall m, size_at h m <= size_at cap m) /\ (forall m, In m (mounts h) -> In m (mounts cap)).
Proof. exact cap_level_reserve_within. Qed.

(* ... and that sum is what _allocate_job stores in hardware_locations *)
Theorem C10_reserve_is_ledger_plus_requirement : forall job reqs s l rq cur h,
  lookup (req_key l) reqs = Some rq -> lookup (lv_name l) (hwloc s) = Some cur -> hw_add cur rq = Ok h ->
  exists s', reserve_level job reqs (Ok s) l = Ok s' /\ lookup (lv_name l) (hwloc s') = Some h /\ jobs s' = jobs s.
Proof. exact reserve_level_ledger. Qed.

Theorem C10_valid_slots : forall st reqs job l,
  lv_cap l = None ->
  level_valid st reqs job l =
  Ok (N.ltb (N.of_nat (length (running_jobs st job l))) (match lv_slots l with Some s => s | None => 1%N end)).
Proof. exact slot_level_valid. Qed.

(* ---------------------------------------------------------------------------------------------------------
   C10_capacity — over whole histories.  Domain (all of it is in the hypotheses): [locs] are flat locations (not
   stacked) identified by their names, with well-formed non-negative capacities that have a "/" mount point;
   [conformant locs init h] (Sched/History.v) says that every event of the history h, in the state in which it occurs:
   evaluates a request for ONE location among single-level candidates of [locs] with well-formed non-negative
   requirements, for a job that is not fireable/running; or notifies a status where RUNNING goes only to a
   fireable/running job and FIREABLE only to a fireable one (every other status at any time, repeated, in any order),
   with du results not above the reservation.  Then after EVERY prefix p of the history, on every location with
   declared hardware: what fireable/running jobs reserve (sum over the job table) = ledger - measured residue, the
   residue is 0 on cores and memory and >= 0 per mount point, and reserved <= ledger <= capacity on cores, memory and
   every mount point (x ranges over MC, MM, MS m).  On every slot location the number of fireable/running jobs is
   <= its slots.  The boundary of the domain is witnessed by C10_shared_inner_refuted (stacked on a shared inner
   location, 2 locations per target). *)
Theorem C10_capacity : forall locs,
  (forall l1 l2, In l1 locs -> In l2 locs -> lv_name l1 = lv_name l2 -> l1 = l2) ->
  (forall l cap, In l locs -> lv_cap l = Some cap -> wfr cap /\ In "/" (mounts cap)) ->
  forall p q st l cap,
  conformant locs init (p ++ q) -> run init p = Ok st -> In l locs -> lv_cap l = Some cap ->
  let G := measured init p g0 in
  let led := mu_o (lookup (lv_name l) (hwloc st)) in
  (forall x, reserved st (lv_name l) x = led x - G (lv_name l) x) /\
  G (lv_name l) MC = 0 /\ G (lv_name l) MM = 0 /\ (forall m, 0 <= G (lv_name l) (MS m)) /\
  (forall x, reserved st (lv_name l) x <= led x) /\ (forall x, led x <= mu cap x) /\
  (forall x, reserved st (lv_name l) x <= mu cap x).
Proof. exact capacity_invariant. Qed.

Theorem C10_capacity_slots : forall locs,
  (forall l1 l2, In l1 locs -> In l2 locs -> lv_name l1 = lv_name l2 -> l1 = l2) ->
  (forall l cap, In l locs -> lv_cap l = Some cap -> wfr cap /\ In "/" (mounts cap)) ->
  forall p q st l,
  conformant locs init (p ++ q) -> run init p = Ok st -> In l locs -> lv_cap l = None ->
  nactive st (lv_name l) <= Z.of_N (slots_of l).
Proof. exact slots_invariant. Qed.

(* the hypotheses are satisfiable: a configuration with a hardware and a slot location and a conformant history
   (schedule, RUNNING twice, a second and a third job on the 1-slot location, COMPLETED twice, FAILED while fireable) *)
Example C10_capacity_hypotheses_met :
  (forall l1 l2, In l1 ex_locs -> In l2 ex_locs -> lv_name l1 = lv_name l2 -> l1 = l2) /\
  (forall l cap, In l ex_locs -> lv_cap l = Some cap -> wfr cap /\ In "/" (mounts cap)) /\
  conformant ex_locs init ex_history /\
  (exists st, run init (firstn 5 ex_history) = Ok st /\
     reserved st "n0" MC = 2 /\ reserved st "n0" (MS "/") = 6 /\ nactive st "s0" = 1).
Proof.
  split; [exact ex_names|]. split; [exact ex_caps|]. split; [exact ex_conformant|].
  eexists. split; [vm_compute; reflexivity|]. vm_compute. repeat split; reflexivity.
Qed.

(* ---------------------------------------------------------------------------------------------------------
   C10_capacity_stacked — the same over histories whose locations are CHAINS of stacked levels (Sched/StackedHist.v).
   Domain, all in the hypotheses: one location per allocation; every candidate is a non-empty chain of levels of [locs]
   with pairwise distinct names and the resolver supplies a requirement for every level; lifecycle as in C10_capacity;
   and every release is COHERENT ([coherent], part of [conformant2]): at every level of the chain the hardware released
   (the allocation's own at the first level; below it the re-bound hardware, an input of the event) has the measures and
   mount points of the hardware that was reserved at that level, and du reports no more than it.  Inner levels may be
   reached through several outer locations.  [reserved2 st R nm x] sums, over fireable/running jobs, what each reserved
   on the level named nm ([R] = ghost record of the per-level reservations, [reservations] folds it along the history).
   Conclusion for every level (outer or inner) with declared hardware, after every prefix: reserved = ledger - measured
   residue, residue = 0 on cores/memory and >= 0 per mount point, reserved <= ledger <= capacity on every measure.
   Boundary: C10_shared_inner_refuted / C11_shared_inner_leak_refuted — two outer locations in ONE candidate list
   sharing an inner level make the reservation of the inner level the doubled requirement while the release uses the
   single one (incoherent), and 2 locations per target are validated separately. *)
Theorem C10_capacity_stacked : forall locs,
  (forall l1 l2, In l1 locs -> In l2 locs -> lv_name l1 = lv_name l2 -> l1 = l2) ->
  (forall l cap, In l locs -> lv_cap l = Some cap -> wfr cap /\ In "/" (mounts cap)) ->
  forall p q st l cap,
  conformant2 locs init (fun _ => []) (p ++ q) -> run init p = Ok st -> In l locs -> lv_cap l = Some cap ->
  let G := measured2 init (fun _ => []) p g0 in
  let R := reservations init (fun _ => []) p in
  let led := mu_o (lookup (lv_name l) (hwloc st)) in
  (forall x, reserved2 st R (lv_name l) x = led x - G (lv_name l) x) /\
  G (lv_name l) MC = 0 /\ G (lv_name l) MM = 0 /\ (forall m, 0 <= G (lv_name l) (MS m)) /\
  (forall x, reserved2 st R (lv_name l) x <= led x) /\ (forall x, led x <= mu cap x) /\
  (forall x, reserved2 st R (lv_name l) x <= mu cap x).
Proof. exact capacity_stacked. Qed.

(* slot part for chains: on every level without declared hardware (outer or inner) the number of fireable/running
   jobs whose chain goes through that level ([nactive2], counted from the ghost record of reservations) is <= its slots *)
Theorem C10_capacity_slots_stacked : forall locs,
  (forall l1 l2, In l1 locs -> In l2 locs -> lv_name l1 = lv_name l2 -> l1 = l2) ->
  (forall l cap, In l locs -> lv_cap l = Some cap -> wfr cap /\ In "/" (mounts cap)) ->
  forall p q st l,
  conformant2 locs init (fun _ => []) (p ++ q) -> run init p = Ok st -> In l locs -> lv_cap l = None ->
  nactive2 st (reservations init (fun _ => []) p) (lv_name l) <= Z.of_N (slots_of l).
Proof. exact slots_stacked. Qed.

(* hypotheses met: container c0 (4 cores, 8 MB, 10 on "/") stacked on host h0 (16/16/20); schedule, RUNNING twice,
   COMPLETED (du 3 on c0, 1 on h0), COMPLETED again; while the job runs both levels hold its reservation *)
Example C10_capacity_stacked_hypotheses_met :
  (forall l1 l2, In l1 st_locs -> In l2 st_locs -> lv_name l1 = lv_name l2 -> l1 = l2) /\
  (forall l cap, In l st_locs -> lv_cap l = Some cap -> wfr cap /\ In "/" (mounts cap)) /\
  conformant2 st_locs init (fun _ => []) st_history /\
  (exists st, run init (firstn 2 st_history) = Ok st /\
     reserved2 st (reservations init (fun _ => []) (firstn 2 st_history)) "c0" MC = 2 /\
     reserved2 st (reservations init (fun _ => []) (firstn 2 st_history)) "h0" (MS "/") = 6).
Proof.
  split; [exact st_names|]. split; [exact st_caps|]. split; [exact st_conformant|].
  eexists. split; [vm_compute; reflexivity|]. vm_compute. split; reflexivity.
Qed.

(* known finding: 2 locations per target, both stacked on host/h0 (memory 16); the job needs memory 8 *)
Theorem C10_shared_inner_refuted :
  exists st' h, attempt init "/s0/2" shared_cands (shared_reqs 3 8) 2 [] = Ok (st', ["d0l0"; "d0l1"], true) /\
    lookup "h0" (hwloc st') = Some h /\ mem h = 32 /\ mem host_cap = 16.
Proof. eexists. eexists. vm_compute. repeat split; reflexivity. Qed.

(* hypotheses are satisfiable: a valid level with a non-empty ledger *)
Example C10_fits_example :
  let st := match run init [EAttempt "/s/0" plain_cands plain_reqs 1 []] with Ok s => s | Err _ => init end in
  level_valid st [("d0/n0", mkhw 2 4 [("x", mkst "/" 4 ["/tmp"] None)])] "/s/1" (mklevel "d0" "n0" (Some plain_cap) None) = Ok true /\
  level_valid st [("d0/n0", mkhw 2 4 [("x", mkst "/" 5 ["/tmp"] None)])] "/s/1" (mklevel "d0" "n0" (Some plain_cap) None) = Ok false /\
  lookup "n0" (hwloc st) = Some (mkhw 2 4 [("/", mkst "/" 6 ["/tmp"] None)]).
Proof. vm_compute. repeat split; reflexivity. Qed.

Print Assumptions C10_allocation_only_when_valid.
Print Assumptions C10_valid_level_fits.
Print Assumptions C10_reserve_within_capacity_partial.
Print Assumptions C10_reserve_is_ledger_plus_requirement.
Print Assumptions C10_valid_slots.
Print Assumptions C10_capacity.
Print Assumptions C10_capacity_slots.
Print Assumptions C10_capacity_stacked.
Print Assumptions C10_capacity_slots_stacked.
Print Assumptions C10_shared_inner_refuted.
