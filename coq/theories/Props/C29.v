(* Props/C29.v — CWL workflows produce the same outputs as the reference runner.

   LEVEL: translation validation.  Whole-language equivalence of StreamFlow's translation with the CWL
   semantics is NOT proved.  What is proved here, for all inputs, is (a) laws of the specification
   interpreter Cwl/Sem.v and (b) that the models (Cwl/Ops.v) of StreamFlow's value-level operators —
   ListMergeCombinator/_flatten_token_list, First/Only/AllNonNull, ListToElement, the operator chain
   of _create_list_merger, CWLEmptyScatterConditionalStep — compute what the specification computes,
   on the stated domains; where the faithful operator model does NOT compute it, a `_refuted` theorem
   gives a witness (each witness is replayed on the real code by the check: corpus/C29).
   The end-to-end claim is only exercised: generated programs run by StreamFlow, by cwltool and by
   Sem.run_wf inside Coq, outputs compared (harness/props/c29.py).
   C29_scatter_network_dot_partial composes the proved step models of C01 (Gather/) and C02 (Comb/): the
   token network built for a dotproduct scatter computes the spec's array under every arrival order.
   C29_scatter_network_flat_partial / _nested_partial do the same for flat_crossproduct (any n) and
   nested_crossproduct (n = 2) on top of C02_cartesian_partial and C01_gather_depth_d_product / C01_many_keys. *)
From Coq Require Import List Bool NArith ZArith.
From Coq Require Import Permutation.
From SF Require Import Base.Str Tags.Model Cwl.Sem Cwl.Ops Cwl.Proofs.
From SF Require Gather.Model Gather.Proofs Comb.Model Comb.Proofs Comb.Flat Comb.Cart Cwl.Network Cwl.NetworkCart.
Import ListNotations.
Local Open Scope string_scope. Local Open Scope list_scope.

(* NOTE (audit C29-4): C29_merge_nested, C29_merge_nested_single_scalar and the three C29_pick_* theorems are
   one-unfolding facts about the operator models (a case split / a filter-map commutation): their content is that the
   MODEL of the operator is literally the specification's function on values; what ties the model to the Python
   operator is only the operator correspondence. The theorems with real proof content are C29_merge_flattened_partial,
   C29_link_partial, C29_flat_is_flatten_nested, C29_empty_scatter* and the three C29_scatter_network_* theorems. *)
(* ---- linkMerge: merge_nested ------------------------------------------------------------------- *)
(* any number of sources other than one: the ListToken built by the combinator is the list of sources *)
Theorem C29_merge_nested : forall inputs,
  length inputs <> 1 ->
  tok_value (sf_list_merge false inputs) = merge_nested (map tok_value inputs).
Proof. exact merge_nested_multi. Qed.

(* one source that is not a list: wrapped, as the spec says *)
Theorem C29_merge_nested_single_scalar : forall g v,
  tok_value (sf_list_merge false [Tok g v]) = merge_nested [v].
Proof. exact merge_nested_single_scalar. Qed.

(* one source that IS a list: the combinator unwraps it, so an explicit merge_nested of a single array
   source yields the array, not [array] *)
Theorem C29_merge_nested_single_list_refuted : exists g l,
  tok_value (sf_list_merge false [LTok g l]) <> merge_nested [tok_value (LTok g l)].
Proof. exists "0", [Tok "0" (VInt 1)]. vm_compute. discriminate. Qed.

(* ---- linkMerge: merge_flattened ---------------------------------------------------------------- *)
(* sources of type T or T[] (T not an array), every token list in tag-key order (what GatherStep and
   build_token produce, except after a multi-input flat_crossproduct: see _order_refuted; the top-level tokens are
   re-tagged with their common tag by the dot product, [merge_outputs], so only the inner lists matter), every tag that
   _flatten_token_list parses NUMERIC in its last component (otherwise the Python function raises ValueError:
   next theorem).  Conclusion on the faithful, partial operator: it does not raise and its value is the spec's. *)
Theorem C29_merge_flattened_partial : forall inputs,
  numeric_forest (merge_outputs inputs) = true ->
  forallb shallow_tok inputs = true -> forallb inner_sorted inputs = true ->
  exists out, sf_list_merge_opt true inputs = Some out /\
              tok_value out = merge_flattened (map tok_value inputs).
Proof. exact merge_flattened_shallow_opt. Qed.

Example C29_merge_flattened_hyps :
  let inputs := [Tok "0" (VInt 7); LTok "0" [Tok "0.0" (VInt 1); Tok "0.1" VNull; Tok "0.10" (VInt 3)];
                 LTok "0" []] in
  numeric_forest (merge_outputs inputs) = true /\
  forallb shallow_tok inputs = true /\ forallb inner_sorted inputs = true /\
  option_map tok_value (sf_list_merge_opt true inputs) = Some (VArr [VInt 7; VInt 1; VNull; VInt 3]).
Proof. vm_compute. auto. Qed.

(* outside that domain the operator raises: the tag '' (it occurs: a token of a non-replicated inner step of a
   scattered subworkflow reaching a chained gather), "x", "0.y" *)
Theorem C29_merge_flattened_nonnumeric_raises :
  sf_list_merge_opt true [LTok "0" [Tok "" (VInt 1); Tok "0.0" (VInt 2)]] = None /\
  sf_list_merge_opt true [LTok "0" [Tok "x" (VInt 1)]] = None /\
  sf_list_merge_opt true [Tok "0.y" (VInt 1); Tok "0.y" (VInt 2)] = None /\
  (* a malformed TOP-LEVEL tag shorter than two characters is replaced by the common tag before sorting *)
  sf_list_merge_opt true [Tok "" (VInt 1); Tok "0" (VInt 2)] <> None /\
  sf_list_merge_opt false [LTok "0" [Tok "x" (VInt 1)]] <> None.
Proof. vm_compute. repeat split; discriminate. Qed.

(* _flatten_token_list splices every level; the spec splices one: arrays of arrays are over-flattened *)
Theorem C29_merge_flattened_deep_refuted : exists inputs,
  keys_sorted inputs = true /\ forallb inner_sorted inputs = true /\
  tok_value (sf_list_merge true inputs) <> merge_flattened (map tok_value inputs).
Proof.
  exists [LTok "0" [LTok "0" [Tok "0" (VInt 1)]]; LTok "0" [LTok "0" [Tok "0" (VInt 2)]]].
  vm_compute. repeat split; discriminate.
Qed.

(* _flatten_token_list sorts by the LAST tag component only; the elements gathered from a two-input
   flat_crossproduct carry tags t.i.j, so they are reordered column-major *)
Theorem C29_merge_flattened_order_refuted : exists inputs,
  forallb shallow_tok inputs = true /\
  tok_value (sf_list_merge true inputs) <> merge_flattened (map tok_value inputs).
Proof.
  exists [LTok "0" [Tok "0.0.0" (VInt 1); Tok "0.0.1" (VInt 2); Tok "0.1.0" (VInt 3); Tok "0.1.1" (VInt 4)]].
  vm_compute. split; [reflexivity | discriminate].
Qed.

(* ---- pickValue --------------------------------------------------------------------------------- *)
Theorem C29_pick_first_non_null : forall g l,
  option_map tok_value (sf_pick FirstNonNull (LTok g l)) = pick_value FirstNonNull (map tok_value l).
Proof. exact pick_first. Qed.
Theorem C29_pick_the_only_non_null : forall g l,
  option_map tok_value (sf_pick OnlyNonNull (LTok g l)) = pick_value OnlyNonNull (map tok_value l).
Proof. exact pick_only. Qed.
Theorem C29_pick_all_non_null : forall g l,
  option_map tok_value (sf_pick AllNonNull (LTok g l)) = pick_value AllNonNull (map tok_value l).
Proof. exact pick_all. Qed.

Example C29_pick_examples :
  pick_value FirstNonNull [VNull; VInt 2; VInt 3] = Some (VInt 2) /\
  pick_value OnlyNonNull [VNull; VInt 2; VInt 3] = None /\
  pick_value OnlyNonNull [VNull; VInt 2] = Some (VInt 2) /\
  pick_value FirstNonNull [VNull; VNull] = None /\
  pick_value AllNonNull [VNull; VInt 2; VNull; VInt 3] = Some (VArr [VInt 2; VInt 3]).
Proof. vm_compute. auto. Qed.

(* ---- the whole link (source list -> linkMerge -> pickValue) as _create_list_merger chains it ---- *)
Theorem C29_link_partial : forall lm pv inputs,
  2 <= length inputs -> lm <> Some MergeFlattened ->
  option_map tok_value (sf_link lm pv inputs) = apply_pick pv (merge_sources lm (map tok_value inputs)).
Proof. exact link_multi. Qed.

Example C29_link_hyps :
  option_map tok_value (sf_link None (Some FirstNonNull) [Tok "0" VNull; Tok "0" (VInt 4)]) = Some (VInt 4).
Proof. vm_compute. reflexivity. Qed.

(* ---- scatter ----------------------------------------------------------------------------------- *)
(* spec law: the jobs (hence, for any job function, the results) of flat_crossproduct are, in order, the
   leaves of nested_crossproduct *)
Theorem C29_flat_is_flatten_nested : forall (A B : Type) (f : list A -> B) (ls : list (list A)),
  map f (cart ls []) = leaves (tree_map f (nest ls [])).
Proof. exact @flat_is_flatten_nested. Qed.

Example C29_flat_is_flatten_nested_ex :
  cart [[1; 2]; [10; 20; 30]] [] = [[1; 10]; [1; 20]; [1; 30]; [2; 10]; [2; 20]; [2; 30]].
Proof. vm_compute. reflexivity. Qed.

(* empty scatter, flat_crossproduct: whenever StreamFlow's shortcut fires, the [] it emits is the spec's *)
Theorem C29_empty_scatter : forall inputs job,
  all_lists inputs = true -> sf_scatter_nonempty inputs = false ->
  spec_scatter_value FlatCross (map tok_elems inputs) job
  = Some (tok_value (sf_empty_scatter FlatCross inputs)).
Proof. exact empty_scatter_flat. Qed.

Example C29_empty_scatter_hyps :
  let inputs := [LTok "0" [Tok "0" (VInt 1)]; LTok "0" []] in
  all_lists inputs = true /\ sf_scatter_nonempty inputs = false.
Proof. vm_compute. auto. Qed.

(* dotproduct: agreement when all scattered arrays are empty ... *)
Theorem C29_empty_scatter_dot_partial : forall inputs job,
  inputs <> [] ->
  (forall t, In t inputs -> exists g, t = LTok g []) ->
  spec_scatter_value Dot (map tok_elems inputs) job
  = Some (tok_value (sf_empty_scatter Dot inputs)).
Proof. exact empty_scatter_dot_all_empty. Qed.

(* ... but with one empty and one non-empty array the spec fails (lengths differ) while the shortcut
   emits [] *)
Theorem C29_empty_scatter_dot_refuted : exists inputs job,
  all_lists inputs = true /\ sf_scatter_nonempty inputs = false /\
  spec_scatter_value Dot (map tok_elems inputs) job = None.
Proof.
  exists [LTok "0" []; LTok "0" [Tok "0" (VInt 1)]], (fun _ => VNull). vm_compute. auto.
Qed.

(* nested_crossproduct: the shortcut emits one [] per scattered input whatever the lengths; the spec's
   value for a single empty array is [] *)
Theorem C29_empty_scatter_nested_refuted : exists inputs job,
  all_lists inputs = true /\ sf_scatter_nonempty inputs = false /\
  spec_scatter_value NestedCross (map tok_elems inputs) job
  <> Some (tok_value (sf_empty_scatter NestedCross inputs)).
Proof.
  exists [LTok "0" []], (fun _ => VNull). vm_compute. repeat split. discriminate.
Qed.

(* ---- the scatter network (compiler-correctness core), dotproduct over n >= 1 inputs ------------------
   [items] are the scattered ports, [cols] the arrays (as payload ids) delivered to the n ScatterSteps with tag
   [t]; Network.scols lists what the ScatterSteps emit (element i of every array tagged t.i: C01_scatter);
   [arr] is ANY order in which these tokens reach the DotProductCombinator (Comb.Model.run, C02's model);
   every emitted combination is turned by the job into a token tagged get_tag(inputs) carrying
   jobp(ids in port order) (Network.exec); these tokens and the size token reach the GatherStep (Gather.Model,
   C01's model) in ANY legal order.  Then: the combinator raises nothing, and the gather emits exactly one
   list, tagged t, whose i-th element is jobp of the i-th row of the SPECIFICATION's dotproduct (Sem.dot cols),
   tagged t.i.  PARTIAL: equal lengths only (Sem.dot = Some; for unequal lengths see
   C29_empty_scatter_dot_refuted and DotProductSizeTransformer, not modelled), the job is a pure function of
   the combination, `when`/valueFrom/defaults inside the scattered step and the non-scattered inputs
   (broadcast through the residual combinator: C02_dot_broadcast_partial) are outside this statement;
   flat_crossproduct / nested_crossproduct networks are not stated. *)
Theorem C29_scatter_network_dot_partial :
  forall (items : list string) (t : tag) (jobp : list N -> string),
  NoDup items -> items <> [] -> t <> [] ->
  forall (cols rows : list (list N)) (arr : list Comb.Flat.arv) (l1 l2 : list Gather.Model.garr) p1 p2,
  length cols = length items ->
  dot cols = Some rows ->
  Permutation arr (Network.scols t 0 items cols) ->
  let res := Comb.Model.run (Comb.Proofs.c1 items) Comb.Model.init_state arr in
  Permutation (l1 ++ l2)
    (Gather.Model.OnSize (render t) (N.of_nat (length rows))
     :: map Gather.Model.OnElem (map (Network.exec items jobp) (concat (fst res)))) ->
  p1 <> p2 -> (forall a, In a l2 -> Gather.Model.port_of a <> p1) ->
  let s := Gather.Model.gather_run 1
             (l1 ++ Gather.Model.OnTerm p1 Gather.Model.Completed
                 :: l2 ++ [Gather.Model.OnTerm p2 Gather.Model.Completed]) in
  snd res = None /\
  Gather.Model.gout (Gather.Model.gd s) = [Gather.Model.ListTok (render t) (Network.eres t jobp 0 rows)] /\
  Gather.Model.gfinal s = Some Gather.Model.Completed /\
  map (fun x => match x with Gather.Model.Tok _ v => v | Gather.Model.ListTok _ _ => "" end)
      (Network.eres t jobp 0 rows) = map jobp rows.
Proof. exact Network.scatter_network_dot_spec. Qed.

(* two ports, 12 elements (indices 10, 11 after 9), every token arriving in reverse order at both steps *)
Example C29_scatter_network_example :
  let items := ["a"; "b"] in
  let cols := [[1; 2; 3; 4; 5; 6; 7; 8; 9; 10; 11; 12]; [101; 102; 103; 104; 105; 106; 107; 108; 109; 110; 111; 112]]%N in
  let jobp := fun r : list N => match r with [x; y] => Base.Dec.dec (x + y) | _ => "?" end in
  let arr := rev (Network.scols [0%N] 0 items cols) in
  let res := Comb.Model.run (Comb.Proofs.c1 items) Comb.Model.init_state arr in
  let outs := map (Network.exec items jobp) (concat (fst res)) in
  let s := Gather.Model.gather_run 1
             (map Gather.Model.OnElem (rev outs) ++
              [Gather.Model.OnTerm Gather.Model.ElemP Gather.Model.Completed; Gather.Model.OnSize "0" 12;
               Gather.Model.OnTerm Gather.Model.SizeP Gather.Model.Completed]) in
  dot cols <> None /\ snd res = None /\
  map (fun x => match x with Gather.Model.Tok g v => (g, v) | _ => ("", "") end)
      (match Gather.Model.gout (Gather.Model.gd s) with [Gather.Model.ListTok _ l] => l | _ => [] end)
  = [("0.0", "102"); ("0.1", "104"); ("0.2", "106"); ("0.3", "108"); ("0.4", "110"); ("0.5", "112");
     ("0.6", "114"); ("0.7", "116"); ("0.8", "118"); ("0.9", "120"); ("0.10", "122"); ("0.11", "124")].
Proof. vm_compute. repeat split; try reflexivity; discriminate. Qed.

(* ---- flat_crossproduct network, n >= 1 ports, any lengths: CartesianProductCombinator (depth 1) in ANY arrival
   order, then ONE GatherStep of depth n fed the product size token and the job outputs in ANY legal order: the
   combinator raises nothing and the gather emits one list tagged t, in row-major order, whose payloads are jobp of
   the rows of the SPECIFICATION's flat_crossproduct (Sem.cart cols []), tagged t.i1...in.
   PARTIAL: pure job, scattered ports only, CartesianProductSizeTransformer / empty-scatter step not composed. *)
Theorem C29_scatter_network_flat_partial :
  forall (items : list string) (t : tag) (jobp : list N -> string),
  NoDup items -> items <> [] -> t <> [] ->
  forall (cols : list (list N)) (arr : list Comb.Flat.arv) (l1 l2 : list Gather.Model.garr) p1 p2,
  length cols = length items ->
  Permutation arr (Network.scols t 0 items cols) ->
  let res := Comb.Model.run (Comb.Cart.cc items 1) Comb.Model.init_state arr in
  Permutation (l1 ++ l2)
    (Gather.Model.OnSize (render t) (N.of_nat (fold_right Nat.mul 1 (map (@length N) cols)))
     :: map Gather.Model.OnElem (map (Network.exec items jobp) (concat (fst res)))) ->
  p1 <> p2 -> (forall a, In a l2 -> Gather.Model.port_of a <> p1) ->
  let s := Gather.Model.gather_run (length items)
             (l1 ++ Gather.Model.OnTerm p1 Gather.Model.Completed
                 :: l2 ++ [Gather.Model.OnTerm p2 Gather.Model.Completed]) in
  snd res = None /\
  Gather.Model.gout (Gather.Model.gd s) = [Gather.Model.ListTok (render t) (NetworkCart.eflat items t jobp cols)] /\
  Gather.Model.gfinal s = Some Gather.Model.Completed /\
  map (fun x => match x with Gather.Model.Tok _ v => v | Gather.Model.ListTok _ _ => "" end)
      (NetworkCart.eflat items t jobp cols) = map jobp (cart cols []).
Proof. exact NetworkCart.scatter_network_flat. Qed.

(* ---- nested_crossproduct network, two scattered ports, any lengths: the same combinator, then a GatherStep of
   depth 1 keyed t.i (fed one size token |c2| per element of the first array) and a second GatherStep of depth 1
   keyed t (size |c1|) fed whatever the first emitted, every arrival order legal at both: the outer gather emits
   one list tagged t of |c1| lists tagged t.i, and the payloads are exactly the spec's nested array
   [[jobp [x; y] | y <- c2] | x <- c1].  PARTIAL: n = 2; the size tokens of the inner gather are taken as given
   (translator._create_nested_size_tag / CloneTransformer are not modelled); pure job. *)
Theorem C29_scatter_network_nested_partial :
  forall (p q : string) (t : tag) (jobp : list N -> string),
  p <> q -> t <> [] ->
  forall (c1 c2 : list N) (arr : list Comb.Flat.arv) (l1 l2 : list Gather.Model.garr) p1 p2
         (m1 m2 : list Gather.Model.garr) q1 q2,
  Permutation arr (Network.scols t 0 [p; q] [c1; c2]) ->
  let res := Comb.Model.run (Comb.Cart.cc [p; q] 1) Comb.Model.init_state arr in
  Permutation (l1 ++ l2)
    (NetworkCart.nsizes t c2 0 (length c1) ++
     map Gather.Model.OnElem (map (Network.exec [p; q] jobp) (concat (fst res)))) ->
  p1 <> p2 -> (forall a, In a l2 -> Gather.Model.port_of a <> p1) ->
  let s_in := Gather.Model.gather_run 1
                (l1 ++ Gather.Model.OnTerm p1 Gather.Model.Completed
                    :: l2 ++ [Gather.Model.OnTerm p2 Gather.Model.Completed]) in
  Permutation (m1 ++ m2)
    (Gather.Model.OnSize (render t) (N.of_nat (length c1))
     :: map Gather.Model.OnElem (Gather.Model.gout (Gather.Model.gd s_in))) ->
  q1 <> q2 -> (forall a, In a m2 -> Gather.Model.port_of a <> q1) ->
  let s_out := Gather.Model.gather_run 1
                 (m1 ++ Gather.Model.OnTerm q1 Gather.Model.Completed
                     :: m2 ++ [Gather.Model.OnTerm q2 Gather.Model.Completed]) in
  snd res = None /\
  Gather.Model.gout (Gather.Model.gd s_out)
  = [Gather.Model.ListTok (render t)
       (Gather.Proofs.expected_out (Gather.Proofs.inner_insts t 0 (NetworkCart.ness p q t jobp c1 c2)))] /\
  Gather.Model.gfinal s_out = Some Gather.Model.Completed /\
  map (map (fun x => match x with Gather.Model.Tok _ v => v | Gather.Model.ListTok _ _ => "" end))
      (NetworkCart.ness p q t jobp c1 c2)
  = map (fun x => map (fun y => jobp [x; y]) c2) c1.
Proof. exact NetworkCart.scatter_network_nested2. Qed.

(* 2 x 11 elements, tokens reaching the combinator and the gather(s) in reverse order *)
Example C29_scatter_network_cart_example :
  let items := ["a"; "b"] in
  let cols := [[1; 2]; [10; 20; 30; 40; 50; 60; 70; 80; 90; 100; 110]]%N in
  let jobp := fun r : list N => match r with [x; y] => Base.Dec.dec (x + y) | _ => "?" end in
  let arr := rev (Network.scols [0%N] 0 items cols) in
  let res := Comb.Model.run (Comb.Cart.cc items 1) Comb.Model.init_state arr in
  let outs := map (Network.exec items jobp) (concat (fst res)) in
  let s := Gather.Model.gather_run 2
             (map Gather.Model.OnElem (rev outs) ++
              [Gather.Model.OnTerm Gather.Model.ElemP Gather.Model.Completed; Gather.Model.OnSize "0" 22;
               Gather.Model.OnTerm Gather.Model.SizeP Gather.Model.Completed]) in
  snd res = None /\ length outs = 22 /\
  map (fun x => match x with Gather.Model.Tok g v => (g, v) | _ => ("", "") end)
      (match Gather.Model.gout (Gather.Model.gd s) with [Gather.Model.ListTok _ l] => firstn 2 l ++ skipn 9 (firstn 13 l) | _ => [] end)
  = [("0.0.0", "11"); ("0.0.1", "21"); ("0.0.9", "101"); ("0.0.10", "111"); ("0.1.0", "12"); ("0.1.1", "22")] /\
  map jobp (cart cols []) = map (fun x => match x with Gather.Model.Tok _ v => v | _ => "" end)
                                (match Gather.Model.gout (Gather.Model.gd s) with [Gather.Model.ListTok _ l] => l | _ => [] end).
Proof. vm_compute. repeat split; reflexivity. Qed.

Print Assumptions C29_merge_nested.
Print Assumptions C29_merge_nested_single_scalar.
Print Assumptions C29_merge_nested_single_list_refuted.
Print Assumptions C29_merge_flattened_partial.
Print Assumptions C29_merge_flattened_nonnumeric_raises.
Print Assumptions C29_merge_flattened_deep_refuted.
Print Assumptions C29_merge_flattened_order_refuted.
Print Assumptions C29_pick_first_non_null.
Print Assumptions C29_pick_the_only_non_null.
Print Assumptions C29_pick_all_non_null.
Print Assumptions C29_link_partial.
Print Assumptions C29_flat_is_flatten_nested.
Print Assumptions C29_empty_scatter.
Print Assumptions C29_empty_scatter_dot_partial.
Print Assumptions C29_empty_scatter_dot_refuted.
Print Assumptions C29_empty_scatter_nested_refuted.
Print Assumptions C29_scatter_network_dot_partial.
Print Assumptions C29_scatter_network_flat_partial.
Print Assumptions C29_scatter_network_nested_partial.
