(* Props/C05.v — Workflow results do not depend on the interleaving.
   Only statements here; proofs are [exact <lemma of Net/Proofs2.v>]. *)
From Coq Require Import List NArith ZArith Permutation.
From SF Require Import Base.Str Net.Model Net.Util Net.Proofs Net.Proofs2.
From SF Require Tags.Model Gather.Model Gather.Proofs Loop.Model Loop.Proofs Net.Contracts Net.ContractsComb Net.MixedModel Net.MixedProofs Net.MixedProofs2 Net.MixedInst Net.SGNet Net.Contracts2.
Import ListNotations.
Local Open Scope string_scope. Local Open Scope list_scope.

(* Round machines (Transformer, ConditionalStep, scatter-like steps: everything built on _get_inputs): from
   any state, any two maximal executions — any two interleavings — end in the SAME network state and take the
   same number of rounds.  No hypothesis on the round function or on the graph. *)
Theorem C05_maximal_executions_agree :
  forall (L spec : Type) (s_ins : spec -> list src)
         (fire : spec -> L -> list (list tok) -> list tok -> L * list (list tok) * option status)
         (win : list (list tok)) (specs : list spec) st0 ch1 ch2 st1 st2,
    exec L spec s_ins fire win specs st0 ch1 = Some st1 ->
    exec L spec s_ins fire win specs st0 ch2 = Some st2 ->
    (forall i, nstep L spec s_ins fire win specs st1 i = None) ->
    (forall i, nstep L spec s_ins fire win specs st2 i = None) ->
    st1 = st2 /\ length ch1 = length ch2.
Proof. exact maximal_executions_agree. Qed.

(* hence the history of every port — a fortiori the (tag |-> value) map of every workflow output port — is
   the same, token for token and in the same order *)
Theorem C05_outputs :
  forall (L spec : Type) (s_ins : spec -> list src)
         (fire : spec -> L -> list (list tok) -> list tok -> L * list (list tok) * option status)
         (win : list (list tok)) (specs : list spec) st0 ch1 ch2 st1 st2 p,
    exec L spec s_ins fire win specs st0 ch1 = Some st1 ->
    exec L spec s_ins fire win specs st0 ch2 = Some st2 ->
    (forall i, nstep L spec s_ins fire win specs st1 i = None) ->
    (forall i, nstep L spec s_ins fire win specs st2 i = None) ->
    out_map (content L win st1 p) = out_map (content L win st2 p).
Proof.
  intros. f_equal. eapply port_histories_agree; eauto.
Qed.

(* Merge-style processes (CombinatorStep, GatherStep, LoopCombinatorStep, ExecuteStep with concurrent jobs) emit
   in arrival order, so only BAGS can be invariant.  Composition theorem: in an acyclic network whose processes
   are order-insensitive (output bags determined by input bags; this is what C01/C02/C06 establish for gather,
   combinators and loop outputs, and it is an ASSUMPTION here), any two complete behaviours carry the same bag
   of tokens on every port.
   _partial: order-insensitivity of the merge-style steps is assumed, not proved in this development; for the
   tag-grouping steps it holds only under the shape hypothesis "all input ports of a step carry the same tags,
   each once" (see C05_shape_needed_refuted) and is not proved here either. *)
Theorem C05_bags_determinate_partial :
  forall (nsteps : nat) (ins : nat -> list src)
         (Beh : nat -> list (list tok) -> list (list tok) -> Prop),
    (forall s p, s < nsteps -> In p (ins s) -> match p with SOut s' _ => s' < s | WIn _ => True end) ->
    (forall s i1 i2 o1 o2, s < nsteps -> Forall2 (@Permutation tok) i1 i2 ->
        Beh s i1 o1 -> Beh s i2 o2 -> Forall2 (@Permutation tok) o1 o2) ->
    forall (W1 W2 : nat -> list tok) (O1 O2 : nat -> list (list tok)),
    (forall k, Permutation (W1 k) (W2 k)) ->
    (forall s, s < nsteps -> Beh s (map (hist W1 O1) (ins s)) (O1 s)) ->
    (forall s, s < nsteps -> Beh s (map (hist W2 O2) (ins s)) (O2 s)) ->
    forall p, match p with SOut s _ => s < nsteps | WIn _ => True end ->
    Permutation (hist W1 O1 p) (hist W2 O2 p).
Proof. exact port_bags_agree. Qed.

(* ---- operational version for networks of log machines (sequential steps and merge-style steps; Net/MixedModel.v):
   for a well-formed network whose machines honour the log contract, terminate only after having consumed the
   termination token of every input, and are order-insensitive AS MACHINES (two terminated logs whose projections
   on every input are permutations of each other give permutation-equal output histories), ANY two executions —
   any two interleavings of arrivals — that end with every step terminated carry permutation-equal histories on
   every port.  Here the link between the operational network and the per-step statement is proved (a terminated
   step has consumed exactly the complete history of each input, whatever the interleaving).
   _partial: the two machine-level hypotheses are not discharged here for GatherStep / combinators / loop output
   (C05_contract_* give them on shaped arrival lists in each model's vocabulary; turning "shaped" into an invariant
   of the network is not done), and steps that terminate early (a failing step; a multi-input Transformer ending at
   the first termination token) are excluded by the second hypothesis. *)
Theorem C05_mixed_bags_partial :
  forall (T spec : Type) (s_ins : spec -> list src) (s_nout : spec -> nat)
         (outs : spec -> Net.MixedModel.log T -> list (list (Net.MixedModel.mtok T)))
         (done : spec -> Net.MixedModel.log T -> bool) (accept : spec -> Net.MixedModel.log T -> nat -> bool)
         (win : list (list (Net.MixedModel.mtok T))) (specs : list spec),
    Net.MixedModel.log_contract T spec s_ins s_nout outs done accept ->
    Net.MixedModel.mwf T spec s_ins s_nout win specs ->
    (forall k, k < length win -> exists d s, nth k win [] = d ++ [Net.MixedModel.E s] /\ Net.MixedModel.term_free_m T d) ->
    (forall sp l, done sp l = true -> forall j, j < length (s_ins sp) -> Net.MixedModel.port_closed T j l = true) ->
    (forall sp l1 l2, done sp l1 = true -> done sp l2 = true ->
       (forall j, j < length (s_ins sp) -> Permutation (Net.MixedModel.proj T j l1) (Net.MixedModel.proj T j l2)) ->
       forall j, Permutation (nth j (outs sp l1) []) (nth j (outs sp l2) [])) ->
    forall ch1 ch2 st1 st2,
      Net.MixedModel.mexec T spec s_ins outs done accept win specs (Net.MixedModel.minit T spec specs) ch1 = Some st1 ->
      Net.MixedModel.mexec T spec s_ins outs done accept win specs (Net.MixedModel.minit T spec specs) ch2 = Some st2 ->
      Net.MixedModel.all_done T spec done specs st1 -> Net.MixedModel.all_done T spec done specs st2 ->
      forall p, match p with SOut s _ => s < length specs | WIn k => k < length win end ->
        Permutation (Net.MixedModel.mcontent T spec outs win specs st1 p)
                    (Net.MixedModel.mcontent T spec outs win specs st2 p).
Proof. exact Net.MixedProofs2.mixed_bags. Qed.

(* ---- scatter -> transform -> gather, operationally, with NO hypothesis on the steps: ScatterStep, a one-input
   tag-preserving Transformer f and GatherStep as log machines (GatherStep read off the C01 model).  Input: the list
   token (render t, vs), vs non-empty.  For EVERY execution (any interleaving of the arrivals at the three steps,
   in particular the size token reaching the gather before, between or after the elements, and either termination
   token last) that ends with every step terminated, the gather's output port carries exactly
       ListToken(tag, [f(e_0), ..., f(e_{n-1})])  — the transformed elements in the original order —
   followed by TerminationToken(COMPLETED).  Hence any two fully terminated executions deliver EQUAL lists.
   (Proof: log invariants of the network + the shape of a two-port log + C01's roundtrip theorem.)
   _partial: one transformer, one scattered list, vs <> [] (with an empty list the termination tokens are SKIPPED and
   C01's statement, which fixes them to COMPLETED, does not apply); the dot-product stage of the coordinator's
   scatter -> (dot product) -> transform -> gather is NOT in this network: Comb.Model and Gather.Model use different
   token types (C04_contract_combinator covers combinator networks on their own). *)
Theorem C05_scatter_gather_outputs :
  forall (t : Tags.Model.tag) (vs : list Gather.Model.tok) (f : Gather.Model.tok -> Gather.Model.tok),
    t <> [] -> vs <> [] -> (forall x, Gather.Model.tag_of (f x) = Gather.Model.tag_of x) ->
    forall ch st,
      Net.MixedModel.mexec Gather.Model.tok Net.MixedInst.mspec Net.MixedInst.ms_ins Net.MixedInst.ms_outs
        Net.MixedInst.ms_done Net.MixedInst.ms_accept (Net.SGNet.sg_win t vs) (Net.SGNet.sg_specs f)
        (Net.MixedModel.minit Gather.Model.tok Net.MixedInst.mspec (Net.SGNet.sg_specs f)) ch = Some st ->
      Net.MixedModel.all_done Gather.Model.tok Net.MixedInst.mspec Net.MixedInst.ms_done (Net.SGNet.sg_specs f) st ->
      Net.MixedModel.mcontent Gather.Model.tok Net.MixedInst.mspec Net.MixedInst.ms_outs
        (Net.SGNet.sg_win t vs) (Net.SGNet.sg_specs f) st (SOut 2 0) =
      [Net.MixedModel.D (Gather.Model.ListTok (Tags.Model.render t)
                           (map f (Gather.Model.scatter_elems (Tags.Model.render t) vs)));
       Net.MixedModel.E COMPLETED].
Proof. exact Net.SGNet.sg_outputs. Qed.

(* GatherStep never terminates early: if it has terminated, the termination tokens of both ports are among its
   arrivals (converse of C04_contract_gather); this is hypothesis (b) of C05_mixed_bags_partial for GatherStep *)
Theorem C05_gather_terminates_only_after_both : forall depth arr,
  Gather.Model.gfinal (Gather.Model.gather_run depth arr) <> None ->
  (exists s1, In (Gather.Model.OnTerm Gather.Model.SizeP s1) arr) /\
  (exists s2, In (Gather.Model.OnTerm Gather.Model.ElemP s2) arr).
Proof. exact Net.Contracts2.gather_terminates_only_after_both. Qed.

(* ---- order-insensitivity of the merge-style steps, from their own proved models (each in its model's token
   type).  These are the instances of the hypothesis [insensitive] of C05_bags_determinate_partial that are
   theorems; what is still ASSUMED there: the embedding of these models' arrival lists into Net.Model histories,
   ExecuteStep with concurrent jobs, LoopCombinatorStep, dot products outside the flat / broadcast fragments of
   C02, cartesian products with mixed depths or inner combinators (refuted in C02). *)
Theorem C05_contract_gather :
  forall (insts : list Gather.Proofs.inst) l1 l2 p1 p2 m1 m2 q1 q2,
  Forall Gather.Proofs.inst_ok insts -> NoDup (map Gather.Proofs.ikey insts) ->
  Permutation (l1 ++ l2) (Gather.Proofs.all_arrivals insts) -> p1 <> p2 ->
  (forall a, In a l2 -> Gather.Model.port_of a <> p1) ->
  Permutation (m1 ++ m2) (Gather.Proofs.all_arrivals insts) -> q1 <> q2 ->
  (forall a, In a m2 -> Gather.Model.port_of a <> q1) ->
  let s := Gather.Model.gather_run 1 (l1 ++ Gather.Model.OnTerm p1 Gather.Model.Completed :: l2 ++ [Gather.Model.OnTerm p2 Gather.Model.Completed]) in
  let s' := Gather.Model.gather_run 1 (m1 ++ Gather.Model.OnTerm q1 Gather.Model.Completed :: m2 ++ [Gather.Model.OnTerm q2 Gather.Model.Completed]) in
  Permutation (Gather.Model.gout (Gather.Model.gd s)) (Gather.Model.gout (Gather.Model.gd s')) /\
  Gather.Model.gfinal s = Gather.Model.gfinal s'.
Proof. exact Net.Contracts.gather_order_insensitive. Qed.

Theorem C05_contract_loop_output :
  forall (pol : Loop.Model.policy) (insts : list Gather.Proofs.inst) (arr1 arr2 : list Loop.Model.larr),
  Forall Gather.Proofs.inst_ok insts -> NoDup (map Gather.Proofs.ikey insts) ->
  Permutation arr1 (Loop.Proofs.all_larr insts) -> Permutation arr2 (Loop.Proofs.all_larr insts) ->
  Permutation (Loop.Model.lout (Loop.Model.loop_run pol (arr1 ++ [Loop.Model.LTerm Gather.Model.Completed])))
              (Loop.Model.lout (Loop.Model.loop_run pol (arr2 ++ [Loop.Model.LTerm Gather.Model.Completed]))) /\
  Loop.Model.lfinal (Loop.Model.loop_run pol (arr1 ++ [Loop.Model.LTerm Gather.Model.Completed])) =
  Loop.Model.lfinal (Loop.Model.loop_run pol (arr2 ++ [Loop.Model.LTerm Gather.Model.Completed])) /\
  Loop.Model.lfinal (Loop.Model.loop_run pol (arr1 ++ [Loop.Model.LTerm Gather.Model.Completed])) <> None.
Proof. exact Net.Contracts.loop_output_order_insensitive. Qed.

(* combinators: the statements are Net.ContractsComb.dot_flat_contract_stmt / cartesian_contract_stmt (C02's
   order-independence theorems for the flat dot product and the depth-d cartesian product, verbatim) *)
Theorem C05_contract_dot_flat : Net.ContractsComb.dot_flat_contract_stmt.
Proof. exact Net.ContractsComb.dot_flat_contract. Qed.
Theorem C05_contract_cartesian : Net.ContractsComb.cartesian_contract_stmt.
Proof. exact Net.ContractsComb.cartesian_contract. Qed.

(* without the shape hypothesis a round-based step is sensitive to the ORDER of tokens inside a port: same bags
   in, different outputs (nothing versus 0.1 |-> 12) *)
Theorem C05_shape_needed_refuted :
  Forall2 (@Permutation tok) shape_win_a shape_win_b /\
  map (fun x => out_map (nth 0 (souts x) [])) (tg_run shape_win_a shape_specs 10) = [[]] /\
  map (fun x => out_map (nth 0 (souts x) [])) (tg_run shape_win_b shape_specs 10) = [[("0.1", 12%Z)]].
Proof. exact shape_needed. Qed.

(* non-vacuity: two different interleavings of the C04 example network, both maximal *)
Example C05_two_schedules :
  let e := exec imap tgspec t_ins tg_fire_spec
             [[Tok "0.0" 1; Tok "0.1" 2; Term COMPLETED]; [Tok "0.0" 5; Tok "0.1" 6; Term COMPLETED]]%Z
             [mkT (KXf 1%Z []) [WIn 0] 1; mkT (KXf 2%Z []) [WIn 1] 1; mkT (KXf 0%Z []) [SOut 0 0; SOut 1 0] 1] in
  let i := tg_init [mkT (KXf 1%Z []) [WIn 0] 1; mkT (KXf 2%Z []) [WIn 1] 1; mkT (KXf 0%Z []) [SOut 0 0; SOut 1 0] 1] in
  e i [0;0;0;1;1;1;2;2;2] = e i [1;0;2;0;1;2;1;0;2] /\ e i [0;0;0;1;1;1;2;2;2] <> None /\
  e i [2] = None.
Proof. vm_compute. repeat split; discriminate. Qed.

Print Assumptions C05_maximal_executions_agree.
Print Assumptions C05_outputs.
Print Assumptions C05_bags_determinate_partial.
Print Assumptions C05_shape_needed_refuted.
Print Assumptions C05_contract_gather.
Print Assumptions C05_contract_loop_output.
Print Assumptions C05_contract_dot_flat.
Print Assumptions C05_contract_cartesian.
Print Assumptions C05_mixed_bags_partial.
Print Assumptions C05_scatter_gather_outputs.
Print Assumptions C05_gather_terminates_only_after_both.
