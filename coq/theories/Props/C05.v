(* Props/C05.v — Workflow results do not depend on the interleaving.
   Only statements here; proofs are [exact <lemma of Net/Proofs2.v>]. *)
From Coq Require Import List NArith ZArith Permutation.
From SF Require Import Base.Str Net.Model Net.Util Net.Proofs Net.Proofs2.
From SF Require Tags.Model Gather.Model Gather.Proofs Loop.Model Loop.Proofs Net.Contracts Net.ContractsComb Net.MixedModel Net.MixedProofs Net.MixedProofs2 Net.MixedInst Net.SGNet Net.Contracts2 Net.MixedBagsInst Net.MixedProofs5 Net.MixedComb Net.CombNet Net.CombNetCwl Net.CombNet2 Net.CombNetGen Net.CombNetCart.
From SF Require Comb.Cart.
From SF Require Comb.Model Comb.Flat Cwl.Network.
Import ListNotations.
Local Open Scope string_scope. Local Open Scope list_scope.

(* Round machines (Transformer, ConditionalStep, scatter-like steps: everything built on _get_inputs): from
   any state, any two maximal executions — any two interleavings — end in the SAME network state and take the
   same number of rounds.  No hypothesis on the round function or on the graph. *)
Theorem C05_maximal_executions_agree :
  forall (L spec : Type) (s_ins : spec -> list src)
         (fire : spec -> L -> list (list tok) -> list tok -> L * list (list tok) * option status)
         (win : list (list tok)) (specs : list spec) st0 ch1 ch2 st1 st2,
    exec L spec s_ins fire win specs st0 ch1 = Some st1 ->
    exec L spec s_ins fire win specs st0 ch2 = Some st2 ->
    (forall i, nstep L spec s_ins fire win specs st1 i = None) ->
    (forall i, nstep L spec s_ins fire win specs st2 i = None) ->
    st1 = st2 /\ length ch1 = length ch2.
Proof. exact maximal_executions_agree. Qed.

(* hence the history of every port — a fortiori the (tag |-> value) map of every workflow output port — is
   the same, token for token and in the same order *)
Theorem C05_outputs :
  forall (L spec : Type) (s_ins : spec -> list src)
         (fire : spec -> L -> list (list tok) -> list tok -> L * list (list tok) * option status)
         (win : list (list tok)) (specs : list spec) st0 ch1 ch2 st1 st2 p,
    exec L spec s_ins fire win specs st0 ch1 = Some st1 ->
    exec L spec s_ins fire win specs st0 ch2 = Some st2 ->
    (forall i, nstep L spec s_ins fire win specs st1 i = None) ->
    (forall i, nstep L spec s_ins fire win specs st2 i = None) ->
    out_map (content L win st1 p) = out_map (content L win st2 p).
Proof.
  intros. f_equal. eapply port_histories_agree; eauto.
Qed.

(* Merge-style processes (CombinatorStep, GatherStep, LoopCombinatorStep, ExecuteStep with concurrent jobs) emit
   in arrival order, so only BAGS can be invariant.  Composition theorem: in an acyclic network whose processes
   are order-insensitive (output bags determined by input bags; this is what C01/C02/C06 establish for gather,
   combinators and loop outputs, and it is an ASSUMPTION here), any two complete behaviours carry the same bag
   of tokens on every port.
   _partial: order-insensitivity of the merge-style steps is assumed, not proved in this development; for the
   tag-grouping steps it holds only under the shape hypothesis "all input ports of a step carry the same tags,
   each once" (see C05_shape_needed_refuted) and is not proved here either. *)
Theorem C05_bags_determinate_partial :
  forall (nsteps : nat) (ins : nat -> list src)
         (Beh : nat -> list (list tok) -> list (list tok) -> Prop),
    (forall s p, s < nsteps -> In p (ins s) -> match p with SOut s' _ => s' < s | WIn _ => True end) ->
    (forall s i1 i2 o1 o2, s < nsteps -> Forall2 (@Permutation tok) i1 i2 ->
        Beh s i1 o1 -> Beh s i2 o2 -> Forall2 (@Permutation tok) o1 o2) ->
    forall (W1 W2 : nat -> list tok) (O1 O2 : nat -> list (list tok)),
    (forall k, Permutation (W1 k) (W2 k)) ->
    (forall s, s < nsteps -> Beh s (map (hist W1 O1) (ins s)) (O1 s)) ->
    (forall s, s < nsteps -> Beh s (map (hist W2 O2) (ins s)) (O2 s)) ->
    forall p, match p with SOut s _ => s < nsteps | WIn _ => True end ->
    Permutation (hist W1 O1 p) (hist W2 O2 p).
Proof. exact port_bags_agree. Qed.

(* ---- operational version for networks of log machines (sequential steps and merge-style steps; Net/MixedModel.v):
   for a well-formed network whose machines honour the log contract, terminate only after having consumed the
   termination token of every input, and are order-insensitive AS MACHINES (two terminated logs whose projections
   on every input are permutations of each other give permutation-equal output histories), ANY two executions —
   any two interleavings of arrivals — that end with every step terminated carry permutation-equal histories on
   every port.  Here the link between the operational network and the per-step statement is proved (a terminated
   step has consumed exactly the complete history of each input, whatever the interleaving).
   The two machine-level hypotheses (b), (c) are asked only of logs satisfying an invariant [Good] of the network's
   reachable states; C05_transformer_network_bags instantiates the theorem completely for networks of one-input
   Transformers.
   _partial: (b), (c) are not discharged here for GatherStep / combinators / loop output
   (C05_contract_* give them on shaped arrival lists in each model's vocabulary; turning "shaped" into an invariant
   of the network is not done), and steps that terminate early (a failing step; a multi-input Transformer ending at
   the first termination token) are excluded by the second hypothesis. *)
Theorem C05_mixed_bags_partial :
  forall (T spec : Type) (s_ins : spec -> list src) (s_nout : spec -> nat)
         (outs : spec -> Net.MixedModel.log T -> list (list (Net.MixedModel.mtok T)))
         (done : spec -> Net.MixedModel.log T -> bool) (accept : spec -> Net.MixedModel.log T -> nat -> bool)
         (win : list (list (Net.MixedModel.mtok T))) (specs : list spec),
    Net.MixedModel.log_contract T spec s_ins s_nout outs done accept ->
    Net.MixedModel.mwf T spec s_ins s_nout win specs ->
    (forall k, k < length win -> exists d s, nth k win [] = d ++ [Net.MixedModel.E s] /\ Net.MixedModel.term_free_m T d) ->
    (* [Good]: a property of the logs that occur in reachable states of THIS network; (b) and (c) are asked of such logs
       only (asked of all logs they are false for real machines: a ScatterStep that met a non-list token, a combinator
       that raised, terminate before their ports did) *)
    forall Good : spec -> Net.MixedModel.log T -> Prop,
    (forall ch st i sp l,
       Net.MixedModel.mexec T spec s_ins outs done accept win specs (Net.MixedModel.minit T spec specs) ch = Some st ->
       nth_error specs i = Some sp -> nth_error st i = Some l -> Good sp l) ->
    (* (b) *)
    (forall sp l, Good sp l -> done sp l = true ->
       forall j, j < length (s_ins sp) -> Net.MixedModel.port_closed T j l = true) ->
    (* (c) *)
    (forall sp l1 l2, Good sp l1 -> Good sp l2 -> done sp l1 = true -> done sp l2 = true ->
       (forall j, j < length (s_ins sp) -> Permutation (Net.MixedModel.proj T j l1) (Net.MixedModel.proj T j l2)) ->
       forall j, Permutation (nth j (outs sp l1) []) (nth j (outs sp l2) [])) ->
    forall ch1 ch2 st1 st2,
      Net.MixedModel.mexec T spec s_ins outs done accept win specs (Net.MixedModel.minit T spec specs) ch1 = Some st1 ->
      Net.MixedModel.mexec T spec s_ins outs done accept win specs (Net.MixedModel.minit T spec specs) ch2 = Some st2 ->
      Net.MixedModel.all_done T spec done specs st1 -> Net.MixedModel.all_done T spec done specs st2 ->
      forall p, match p with SOut s _ => s < length specs | WIn k => k < length win end ->
        Permutation (Net.MixedModel.mcontent T spec outs win specs st1 p)
                    (Net.MixedModel.mcontent T spec outs win specs st2 p).
Proof. exact Net.MixedProofs2.mixed_bags. Qed.

(* C05_mixed_bags_partial INSTANTIATED, no machine hypothesis left: any network made of one-input Transformers (chains,
   fan-out trees) over Gather.Model's tokens.  [Good] = "the step never read past a termination token", which holds
   in every reachable state (network invariant); (b) holds because a Transformer is done exactly when it has consumed
   its port's termination token; (c) because its outputs are the element-wise image of what it read. *)
Theorem C05_transformer_network_bags :
  forall (win : list (list Net.MixedInst.gmtok)) (specs : list Net.MixedInst.mspec),
    Net.MixedModel.mwf Gather.Model.tok Net.MixedInst.mspec Net.MixedInst.ms_ins Net.MixedInst.ms_nout win specs ->
    (forall k, k < length win ->
       exists d s, nth k win [] = d ++ [Net.MixedModel.E s] /\ Net.MixedModel.term_free_m Gather.Model.tok d) ->
    (forall sp, In sp specs -> Net.MixedBagsInst.is_xf sp) ->
    forall ch1 ch2 st1 st2,
      Net.MixedModel.mexec Gather.Model.tok Net.MixedInst.mspec Net.MixedInst.ms_ins Net.MixedInst.ms_outs
        Net.MixedInst.ms_done Net.MixedInst.ms_accept win specs
        (Net.MixedModel.minit Gather.Model.tok Net.MixedInst.mspec specs) ch1 = Some st1 ->
      Net.MixedModel.mexec Gather.Model.tok Net.MixedInst.mspec Net.MixedInst.ms_ins Net.MixedInst.ms_outs
        Net.MixedInst.ms_done Net.MixedInst.ms_accept win specs
        (Net.MixedModel.minit Gather.Model.tok Net.MixedInst.mspec specs) ch2 = Some st2 ->
      Net.MixedModel.all_done Gather.Model.tok Net.MixedInst.mspec Net.MixedInst.ms_done specs st1 ->
      Net.MixedModel.all_done Gather.Model.tok Net.MixedInst.mspec Net.MixedInst.ms_done specs st2 ->
      forall p, match p with SOut s _ => s < length specs | WIn k => k < length win end ->
        Permutation (Net.MixedModel.mcontent Gather.Model.tok Net.MixedInst.mspec Net.MixedInst.ms_outs win specs st1 p)
                    (Net.MixedModel.mcontent Gather.Model.tok Net.MixedInst.mspec Net.MixedInst.ms_outs win specs st2 p).
Proof. exact Net.MixedBagsInst.xf_network_bags. Qed.

(* its hypotheses are met by a fan-out of three transformers on one input port *)
Example C05_transformer_network_example :
  let win : list (list Net.MixedInst.gmtok) :=
    [[Net.MixedModel.D (Gather.Model.Tok "0.0" "a"); Net.MixedModel.D (Gather.Model.Tok "0.1" "b"); Net.MixedModel.E COMPLETED]] in
  let specs := [Net.MixedInst.MXf (fun x => x) (WIn 0); Net.MixedInst.MXf (fun x => x) (SOut 0 0);
                Net.MixedInst.MXf (fun x => x) (SOut 0 0)] in
  Net.MixedModel.mwf Gather.Model.tok Net.MixedInst.mspec Net.MixedInst.ms_ins Net.MixedInst.ms_nout win specs /\
  (forall k, k < length win ->
     exists d s, nth k win [] = d ++ [Net.MixedModel.E s] /\ Net.MixedModel.term_free_m Gather.Model.tok d) /\
  (forall sp, In sp specs -> Net.MixedBagsInst.is_xf sp).
Proof.
  simpl. split; [split|split].
  - intros k Hk. destruct k; [reflexivity|]. exfalso. apply (PeanoNat.Nat.nlt_0_r k). apply PeanoNat.Nat.succ_lt_mono. exact Hk.
  - intros i sp Hsp p Hp. destruct i as [|[|[|i]]]; simpl in Hsp; try (destruct i; discriminate); inversion Hsp; subst;
      simpl in Hp; destruct Hp as [<-|[]]; simpl.
    + repeat constructor.
    + split; [repeat constructor|]. eexists. split; [reflexivity|]. simpl. repeat constructor.
    + split; [repeat constructor|]. eexists. split; [reflexivity|]. simpl. repeat constructor.
  - intros k Hk. destruct k; [|exfalso; apply (PeanoNat.Nat.nlt_0_r k); apply PeanoNat.Nat.succ_lt_mono; exact Hk].
    exists [Net.MixedModel.D (Gather.Model.Tok "0.0" "a"); Net.MixedModel.D (Gather.Model.Tok "0.1" "b")], COMPLETED.
    split; reflexivity.
  - intros sp [<-|[<-|[<-|[]]]]; exact I.
Qed.

(* ---- scatter -> transform -> gather, operationally, with NO hypothesis on the steps: ScatterStep, a one-input
   tag-preserving Transformer f and GatherStep as log machines (GatherStep read off the C01 model).  Input: the list
   token (render t, vs), vs non-empty.  For EVERY execution (any interleaving of the arrivals at the three steps,
   in particular the size token reaching the gather before, between or after the elements, and either termination
   token last) that ends with every step terminated, the gather's output port carries exactly
       ListToken(tag, [f(e_0), ..., f(e_{n-1})])  — the transformed elements in the original order —
   followed by TerminationToken(COMPLETED).  Hence any two fully terminated executions deliver EQUAL lists.
   (Proof: log invariants of the network + the shape of a two-port log + C01's roundtrip theorem.)
   _partial: one transformer, one scattered list, vs <> [] (with an empty list the termination tokens are SKIPPED and
   C01's statement, which fixes them to COMPLETED, does not apply); the dot-product stage of the coordinator's
   scatter -> (dot product) -> transform -> gather is NOT in this network: Comb.Model and Gather.Model use different
   token types (C04_contract_combinator covers combinator networks on their own). *)
Theorem C05_scatter_gather_outputs :
  forall (t : Tags.Model.tag) (vs : list Gather.Model.tok) (f : Gather.Model.tok -> Gather.Model.tok),
    t <> [] -> vs <> [] -> (forall x, Gather.Model.tag_of (f x) = Gather.Model.tag_of x) ->
    forall ch st,
      Net.MixedModel.mexec Gather.Model.tok Net.MixedInst.mspec Net.MixedInst.ms_ins Net.MixedInst.ms_outs
        Net.MixedInst.ms_done Net.MixedInst.ms_accept (Net.SGNet.sg_win t vs) (Net.SGNet.sg_specs f)
        (Net.MixedModel.minit Gather.Model.tok Net.MixedInst.mspec (Net.SGNet.sg_specs f)) ch = Some st ->
      Net.MixedModel.all_done Gather.Model.tok Net.MixedInst.mspec Net.MixedInst.ms_done (Net.SGNet.sg_specs f) st ->
      Net.MixedModel.mcontent Gather.Model.tok Net.MixedInst.mspec Net.MixedInst.ms_outs
        (Net.SGNet.sg_win t vs) (Net.SGNet.sg_specs f) st (SOut 2 0) =
      [Net.MixedModel.D (Gather.Model.ListTok (Tags.Model.render t)
                           (map f (Gather.Model.scatter_elems (Tags.Model.render t) vs)));
       Net.MixedModel.E COMPLETED].
Proof. exact Net.SGNet.sg_outputs. Qed.

(* GatherStep never terminates early: if it has terminated, the termination tokens of both ports are among its
   arrivals (converse of C04_contract_gather); this is hypothesis (b) of C05_mixed_bags_partial for GatherStep *)
Theorem C05_gather_terminates_only_after_both : forall depth arr,
  Gather.Model.gfinal (Gather.Model.gather_run depth arr) <> None ->
  (exists s1, In (Gather.Model.OnTerm Gather.Model.SizeP s1) arr) /\
  (exists s2, In (Gather.Model.OnTerm Gather.Model.ElemP s2) arr).
Proof. exact Net.Contracts2.gather_terminates_only_after_both. Qed.

(* ---- the bridge from "any interleaving" to the [Permutation arr ...] hypotheses of the step models: a log whose
   entries name ports < n is a permutation of its projections taken port after port *)
Theorem C05_log_is_permutation_of_projections :
  forall (T : Type) (n : nat) (l : Net.MixedModel.log T),
    (forall a, In a l -> fst a < n) ->
    Permutation l (flat_map (fun j => map (fun x => (j, x)) (Net.MixedModel.proj T j l)) (seq 0 n)).
Proof. exact Net.MixedProofs5.log_perm. Qed.

(* ---- hypothesis (c) of C05_mixed_bags_partial for the flat dot product, operationally.  Network: one
   CombinatorStep with the flat dot product over the ports [items], as a log machine, fed by n closed histories
   (column j = what port j delivers); shape hypothesis = C02's [wf] on the full arrival list (every port carries
   each tag at most once, no two tags in the ancestor relation).  Then in EVERY reachable state (any interleaving
   of arrivals) the combinator has raised nothing, and any two fully terminated executions have emitted equal
   bags of combinations ([bag_eq]: up to the order of the list and of the entries inside a combination).
   (the per-port form, which is hypothesis (c) literally, is C05_dot_product_ports_determinate below; the cartesian
   product is C05_cartesian_ports_determinate) *)
Theorem C05_dot_product_never_raises :
  forall (items : list string) (cols : list (list Comb.Model.tok)),
    length cols = length items -> Comb.Flat.wf items (Net.CombNet.cn_full items cols) ->
    forall ch l,
      Net.MixedModel.mexec Comb.Model.tok Net.MixedComb.cspec Net.MixedComb.cs_ins Net.MixedComb.cs_outs
        Net.MixedComb.cs_done Net.MixedComb.cs_accept (Net.CombNet.cn_win cols) (Net.CombNet.cn_specs items)
        (Net.MixedModel.minit Comb.Model.tok Net.MixedComb.cspec (Net.CombNet.cn_specs items)) ch = Some [l] ->
      Comb.Flat.wf items (Net.MixedComb.arrivals items l) /\
      snd (Net.MixedComb.crun (Net.CombNet.cn_spec items) l) = None.
Proof. exact Net.CombNet.cn_never_raises. Qed.

Theorem C05_dot_product_bag_determinate_partial :
  forall (items : list string) (cols : list (list Comb.Model.tok)),
    length cols = length items -> Comb.Flat.wf items (Net.CombNet.cn_full items cols) ->
    forall ch1 ch2 l1 l2,
      Net.MixedModel.mexec Comb.Model.tok Net.MixedComb.cspec Net.MixedComb.cs_ins Net.MixedComb.cs_outs
        Net.MixedComb.cs_done Net.MixedComb.cs_accept (Net.CombNet.cn_win cols) (Net.CombNet.cn_specs items)
        (Net.MixedModel.minit Comb.Model.tok Net.MixedComb.cspec (Net.CombNet.cn_specs items)) ch1 = Some [l1] ->
      Net.MixedModel.mexec Comb.Model.tok Net.MixedComb.cspec Net.MixedComb.cs_ins Net.MixedComb.cs_outs
        Net.MixedComb.cs_done Net.MixedComb.cs_accept (Net.CombNet.cn_win cols) (Net.CombNet.cn_specs items)
        (Net.MixedModel.minit Comb.Model.tok Net.MixedComb.cspec (Net.CombNet.cn_specs items)) ch2 = Some [l2] ->
      Net.MixedModel.all_done Comb.Model.tok Net.MixedComb.cspec Net.MixedComb.cs_done (Net.CombNet.cn_specs items) [l1] ->
      Net.MixedModel.all_done Comb.Model.tok Net.MixedComb.cspec Net.MixedComb.cs_done (Net.CombNet.cn_specs items) [l2] ->
      Comb.Flat.bag_eq (concat (fst (Net.MixedComb.crun (Net.CombNet.cn_spec items) l1)))
                       (concat (fst (Net.MixedComb.crun (Net.CombNet.cn_spec items) l2))).
Proof. exact Net.CombNet.cn_bag_determinate. Qed.

(* hypothesis (c) of C05_mixed_bags_partial, LITERALLY, for the two combinators: in the network "one CombinatorStep fed
   by n closed histories" any two fully terminated executions (any two interleavings of the arrivals) carry
   permutation-equal histories on every output port of the combinator — same data tokens up to order, same final
   termination token — and nothing was raised.  Flat dot product: shape hypothesis C02's [wf] (from the bag of
   combinations to the ports: emitted combinations bind each port once, [schema_keys_nodup]).  Cartesian product of
   depth d >= 1, ANY lengths: shape hypothesis C02's [wfc]. *)
Theorem C05_dot_product_ports_determinate :
  forall (items : list string) (cols : list (list Comb.Model.tok)),
    length cols = length items -> items <> [] -> Comb.Flat.wf items (Net.CombNet.cn_full items cols) ->
    forall ch1 ch2 l1 l2,
      Net.MixedModel.mexec Comb.Model.tok Net.MixedComb.cspec Net.MixedComb.cs_ins Net.MixedComb.cs_outs
        Net.MixedComb.cs_done Net.MixedComb.cs_accept (Net.CombNet.cn_win cols) (Net.CombNet.cn_specs items)
        (Net.MixedModel.minit Comb.Model.tok Net.MixedComb.cspec (Net.CombNet.cn_specs items)) ch1 = Some [l1] ->
      Net.MixedModel.mexec Comb.Model.tok Net.MixedComb.cspec Net.MixedComb.cs_ins Net.MixedComb.cs_outs
        Net.MixedComb.cs_done Net.MixedComb.cs_accept (Net.CombNet.cn_win cols) (Net.CombNet.cn_specs items)
        (Net.MixedModel.minit Comb.Model.tok Net.MixedComb.cspec (Net.CombNet.cn_specs items)) ch2 = Some [l2] ->
      Net.MixedModel.all_done Comb.Model.tok Net.MixedComb.cspec Net.MixedComb.cs_done (Net.CombNet.cn_specs items) [l1] ->
      Net.MixedModel.all_done Comb.Model.tok Net.MixedComb.cspec Net.MixedComb.cs_done (Net.CombNet.cn_specs items) [l2] ->
      forall k, Permutation (nth k (Net.MixedComb.cs_outs (Net.CombNet.cn_spec items) l1) [])
                            (nth k (Net.MixedComb.cs_outs (Net.CombNet.cn_spec items) l2) []).
Proof. exact Net.CombNet2.cn_ports_determinate. Qed.

Theorem C05_cartesian_ports_determinate :
  forall (items : list string) (d : nat) (cols : list (list Comb.Model.tok)),
    d <> 0 -> items <> [] -> length cols = length items ->
    Comb.Cart.wfc items d (Net.CombNetGen.cn_full items cols) ->
    forall ch1 ch2 l1 l2,
      Net.MixedModel.mexec Comb.Model.tok Net.MixedComb.cspec Net.MixedComb.cs_ins Net.MixedComb.cs_outs
        Net.MixedComb.cs_done Net.MixedComb.cs_accept (Net.CombNetGen.cn_win cols)
        (Net.CombNetGen.cn_specs items (Comb.Cart.cc items d))
        (Net.MixedModel.minit Comb.Model.tok Net.MixedComb.cspec (Net.CombNetGen.cn_specs items (Comb.Cart.cc items d))) ch1
        = Some [l1] ->
      Net.MixedModel.mexec Comb.Model.tok Net.MixedComb.cspec Net.MixedComb.cs_ins Net.MixedComb.cs_outs
        Net.MixedComb.cs_done Net.MixedComb.cs_accept (Net.CombNetGen.cn_win cols)
        (Net.CombNetGen.cn_specs items (Comb.Cart.cc items d))
        (Net.MixedModel.minit Comb.Model.tok Net.MixedComb.cspec (Net.CombNetGen.cn_specs items (Comb.Cart.cc items d))) ch2
        = Some [l2] ->
      Net.MixedModel.all_done Comb.Model.tok Net.MixedComb.cspec Net.MixedComb.cs_done
        (Net.CombNetGen.cn_specs items (Comb.Cart.cc items d)) [l1] ->
      Net.MixedModel.all_done Comb.Model.tok Net.MixedComb.cspec Net.MixedComb.cs_done
        (Net.CombNetGen.cn_specs items (Comb.Cart.cc items d)) [l2] ->
      snd (Net.MixedComb.crun (Net.CombNetGen.cn_spec items (Comb.Cart.cc items d)) l1) = None /\
      snd (Net.MixedComb.crun (Net.CombNetGen.cn_spec items (Comb.Cart.cc items d)) l2) = None /\
      forall k, Permutation (nth k (Net.MixedComb.cs_outs (Net.CombNetGen.cn_spec items (Comb.Cart.cc items d)) l1) [])
                            (nth k (Net.MixedComb.cs_outs (Net.CombNetGen.cn_spec items (Comb.Cart.cc items d)) l2) []).
Proof. exact Net.CombNetCart.cart_ports_determinate. Qed.

(* ---- n scattered arrays -> DotProductCombinator -> one job per combination -> GatherStep (C29's network,
   Cwl/Network.v, imported).  The combinator stage is OPERATIONAL: a log machine in a network, any interleaving of the
   arrivals of the n ports; for every fully terminated execution it raised nothing and the jobs run on its
   combinations are, as a bag, exactly the specification's rows; and feeding the size token and those job outputs to
   the gather in ANY legal arrival order gives the specification's list, then COMPLETED.
   _partial: the job and gather stages are the denotational statement of C29 (any order of job completions, any
   legal interleaving with the termination tokens), not machines of the same network: Comb.Model's (id, tag) tokens
   and Gather.Model's tokens are still different types, the job [exec] is the map between them.  Dot product with
   equal lengths only (rows_ok); the cartesian variant is not done. *)
Theorem C05_scatter_comb_gather_outputs_partial :
  forall (items : list string) (t : Tags.Model.tag) (jobp : list N -> string) (rows : list (list N))
         (cols : list (list Comb.Model.tok)),
    NoDup items -> items <> [] -> t <> [] -> length cols = length items ->
    Cwl.Network.rows_ok items rows ->
    Permutation (Net.CombNet.cn_full items cols) (Cwl.Network.srows items t 0 rows) ->
    forall ch l l1 l2 p1 p2,
      Net.MixedModel.mexec Comb.Model.tok Net.MixedComb.cspec Net.MixedComb.cs_ins Net.MixedComb.cs_outs
        Net.MixedComb.cs_done Net.MixedComb.cs_accept (Net.CombNet.cn_win cols) (Net.CombNet.cn_specs items)
        (Net.MixedModel.minit Comb.Model.tok Net.MixedComb.cspec (Net.CombNet.cn_specs items)) ch = Some [l] ->
      Net.MixedModel.all_done Comb.Model.tok Net.MixedComb.cspec Net.MixedComb.cs_done (Net.CombNet.cn_specs items) [l] ->
      let schemas := concat (fst (Net.MixedComb.crun (Net.CombNet.cn_spec items) l)) in
      snd (Net.MixedComb.crun (Net.CombNet.cn_spec items) l) = None /\
      Permutation (map (Cwl.Network.exec items jobp) schemas) (Cwl.Network.eres t jobp 0 rows) /\
      (Permutation (l1 ++ l2)
         (Gather.Model.OnSize (Tags.Model.render t) (N.of_nat (length rows)) ::
          map Gather.Model.OnElem (map (Cwl.Network.exec items jobp) schemas)) ->
       p1 <> p2 -> (forall a, In a l2 -> Gather.Model.port_of a <> p1) ->
       let s := Gather.Model.gather_run 1
                  (l1 ++ Gather.Model.OnTerm p1 Gather.Model.Completed :: l2 ++ [Gather.Model.OnTerm p2 Gather.Model.Completed]) in
       Gather.Model.gout (Gather.Model.gd s) =
         [Gather.Model.ListTok (Tags.Model.render t) (Cwl.Network.eres t jobp 0 rows)] /\
       Gather.Model.gfinal s = Some Gather.Model.Completed).
Proof. exact Net.CombNetCwl.stage_outputs. Qed.

(* the hypotheses are met: two arrays of two elements, ports a and b *)
Example C05_stage_hypotheses_satisfiable :
  let items := ["a"; "b"] in
  let cols : list (list Comb.Model.tok) := [[(1%N, "0.0"); (2%N, "0.1")]; [(3%N, "0.0"); (4%N, "0.1")]] in
  let rows := [[1%N; 3%N]; [2%N; 4%N]] in
  NoDup items /\ length cols = length items /\ Cwl.Network.rows_ok items rows /\
  Permutation (Net.CombNet.cn_full items cols) (Cwl.Network.srows items [0%N] 0 rows).
Proof.
  simpl. split; [repeat constructor; simpl; intuition discriminate|]. split; [reflexivity|]. split.
  - intros r [<-|[<-|[]]]; reflexivity.
  - vm_compute. apply perm_skip. apply perm_swap.
Qed.

(* ---- order-insensitivity of the merge-style steps, from their own proved models (each in its model's token
   type).  These are the instances of the hypothesis [insensitive] of C05_bags_determinate_partial that are
   theorems; what is still ASSUMED there: the embedding of these models' arrival lists into Net.Model histories,
   ExecuteStep with concurrent jobs, LoopCombinatorStep, dot products outside the flat / broadcast fragments of
   C02, cartesian products with mixed depths or inner combinators (refuted in C02). *)
Theorem C05_contract_gather :
  forall (insts : list Gather.Proofs.inst) l1 l2 p1 p2 m1 m2 q1 q2,
  Forall Gather.Proofs.inst_ok insts -> NoDup (map Gather.Proofs.ikey insts) ->
  Permutation (l1 ++ l2) (Gather.Proofs.all_arrivals insts) -> p1 <> p2 ->
  (forall a, In a l2 -> Gather.Model.port_of a <> p1) ->
  Permutation (m1 ++ m2) (Gather.Proofs.all_arrivals insts) -> q1 <> q2 ->
  (forall a, In a m2 -> Gather.Model.port_of a <> q1) ->
  let s := Gather.Model.gather_run 1 (l1 ++ Gather.Model.OnTerm p1 Gather.Model.Completed :: l2 ++ [Gather.Model.OnTerm p2 Gather.Model.Completed]) in
  let s' := Gather.Model.gather_run 1 (m1 ++ Gather.Model.OnTerm q1 Gather.Model.Completed :: m2 ++ [Gather.Model.OnTerm q2 Gather.Model.Completed]) in
  Permutation (Gather.Model.gout (Gather.Model.gd s)) (Gather.Model.gout (Gather.Model.gd s')) /\
  Gather.Model.gfinal s = Gather.Model.gfinal s'.
Proof. exact Net.Contracts.gather_order_insensitive. Qed.

Theorem C05_contract_loop_output :
  forall (pol : Loop.Model.policy) (insts : list Gather.Proofs.inst) (arr1 arr2 : list Loop.Model.larr),
  Forall Gather.Proofs.inst_ok insts -> NoDup (map Gather.Proofs.ikey insts) ->
  Permutation arr1 (Loop.Proofs.all_larr insts) -> Permutation arr2 (Loop.Proofs.all_larr insts) ->
  Permutation (Loop.Model.lout (Loop.Model.loop_run pol (arr1 ++ [Loop.Model.LTerm Gather.Model.Completed])))
              (Loop.Model.lout (Loop.Model.loop_run pol (arr2 ++ [Loop.Model.LTerm Gather.Model.Completed]))) /\
  Loop.Model.lfinal (Loop.Model.loop_run pol (arr1 ++ [Loop.Model.LTerm Gather.Model.Completed])) =
  Loop.Model.lfinal (Loop.Model.loop_run pol (arr2 ++ [Loop.Model.LTerm Gather.Model.Completed])) /\
  Loop.Model.lfinal (Loop.Model.loop_run pol (arr1 ++ [Loop.Model.LTerm Gather.Model.Completed])) <> None.
Proof. exact Net.Contracts.loop_output_order_insensitive. Qed.

(* combinators: the statements are Net.ContractsComb.dot_flat_contract_stmt / cartesian_contract_stmt (C02's
   order-independence theorems for the flat dot product and the depth-d cartesian product, verbatim) *)
Theorem C05_contract_dot_flat : Net.ContractsComb.dot_flat_contract_stmt.
Proof. exact Net.ContractsComb.dot_flat_contract. Qed.
Theorem C05_contract_cartesian : Net.ContractsComb.cartesian_contract_stmt.
Proof. exact Net.ContractsComb.cartesian_contract. Qed.

(* without the shape hypothesis a round-based step is sensitive to the ORDER of tokens inside a port: same bags
   in, different outputs (nothing versus 0.1 |-> 12) *)
Theorem C05_shape_needed_refuted :
  Forall2 (@Permutation tok) shape_win_a shape_win_b /\
  map (fun x => out_map (nth 0 (souts x) [])) (tg_run shape_win_a shape_specs 10) = [[]] /\
  map (fun x => out_map (nth 0 (souts x) [])) (tg_run shape_win_b shape_specs 10) = [[("0.1", 12%Z)]].
Proof. exact shape_needed. Qed.

(* non-vacuity: two different interleavings of the C04 example network, both maximal *)
Example C05_two_schedules :
  let e := exec imap tgspec t_ins tg_fire_spec
             [[Tok "0.0" 1; Tok "0.1" 2; Term COMPLETED]; [Tok "0.0" 5; Tok "0.1" 6; Term COMPLETED]]%Z
             [mkT (KXf 1%Z []) [WIn 0] 1; mkT (KXf 2%Z []) [WIn 1] 1; mkT (KXf 0%Z []) [SOut 0 0; SOut 1 0] 1] in
  let i := tg_init [mkT (KXf 1%Z []) [WIn 0] 1; mkT (KXf 2%Z []) [WIn 1] 1; mkT (KXf 0%Z []) [SOut 0 0; SOut 1 0] 1] in
  e i [0;0;0;1;1;1;2;2;2] = e i [1;0;2;0;1;2;1;0;2] /\ e i [0;0;0;1;1;1;2;2;2] <> None /\
  e i [2] = None.
Proof. vm_compute. repeat split; discriminate. Qed.

Print Assumptions C05_maximal_executions_agree.
Print Assumptions C05_outputs.
Print Assumptions C05_bags_determinate_partial.
Print Assumptions C05_shape_needed_refuted.
Print Assumptions C05_contract_gather.
Print Assumptions C05_contract_loop_output.
Print Assumptions C05_contract_dot_flat.
Print Assumptions C05_contract_cartesian.
Print Assumptions C05_mixed_bags_partial.
Print Assumptions C05_transformer_network_bags.
Print Assumptions C05_scatter_gather_outputs.
Print Assumptions C05_gather_terminates_only_after_both.
Print Assumptions C05_log_is_permutation_of_projections.
Print Assumptions C05_dot_product_never_raises.
Print Assumptions C05_dot_product_bag_determinate_partial.
Print Assumptions C05_scatter_comb_gather_outputs_partial.
Print Assumptions C05_dot_product_ports_determinate.
Print Assumptions C05_cartesian_ports_determinate.
