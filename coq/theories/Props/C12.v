(* Props/C12.v — A job that fits is eventually scheduled (no lost wake-ups).
   The wake-up itself (notify_all on the asyncio.Condition, every waiter re-running the loop body) is not
   modelled: it is exercised on the real scheduler under a permuting event loop and judged at every quiescent
   point by the oracle.  Proved about one re-evaluation of a waiting request (any state, any stacked chains):
   it is granted exactly from locations that are valid now (C12_grant_only_valid); with exactly n >= 1 valid
   locations it IS granted whatever the policy answers (C12_granted_when_exactly_enough_partial); with fewer than n
   it waits and the state is untouched (C12_waits_when_short, C12_failed_evaluation_changes_nothing), so waiting never
   consumes capacity; validity on slot levels is count < slots (C12_slot_validity).
   "partial": C12_eventually (liveness over whole histories) is not proved.
   Refuted: C12_rollback_blocks_refuted (known finding: a rolled-back job keeps the inner slot of its step). *)
From Coq Require Import List Bool ZArith NArith Lia.
From SF Require Import Base.Str Hardware.Model Sched.Model Sched.Proofs Sched.Witness.
Import ListNotations.
Local Open Scope string_scope. Local Open Scope list_scope.

Theorem C12_grant_only_valid : forall st job cands reqs n chosen s' vn,
  attempt st job cands reqs n chosen = Ok (s', vn, true) ->
  exists sel, sel <> [] /\ allocate st job reqs sel = Ok s' /\
    forall c, In c sel -> In c cands /\ is_valid st reqs job c = Ok true.
Proof. exact attempt_allocates_valid. Qed.

Theorem C12_granted_when_exactly_enough_partial : forall st job cands reqs n chosen v,
  valid_locations st reqs job cands = Ok v -> length v = n -> n <> 0%nat ->
  (exists s', attempt st job cands reqs n chosen = Ok (s', map chain_name v, true) /\ allocate st job reqs v = Ok s')
  \/ (exists e, attempt st job cands reqs n chosen = Err e /\ allocate st job reqs v = Err e).
Proof. exact attempt_grants_when_exact. Qed.

Theorem C12_waits_when_short : forall st job cands reqs n chosen v,
  valid_locations st reqs job cands = Ok v -> (length v < n)%nat ->
  attempt st job cands reqs n chosen = Ok (st, map chain_name v, false).
Proof. exact attempt_waits_when_short. Qed.

Theorem C12_failed_evaluation_changes_nothing : forall st job cands reqs n chosen s' vn,
  attempt st job cands reqs n chosen = Ok (s', vn, false) -> s' = st.
Proof. exact attempt_fail_unchanged. Qed.

Theorem C12_valid_locations_exact : forall st reqs job cs v,
  valid_locations st reqs job cs = Ok v ->
  forall c, In c v <-> In c cs /\ is_valid st reqs job c = Ok true.
Proof.
  intros st reqs job cs v H c. split.
  - apply (valid_locations_spec _ _ _ _ _ H).
  - intros [H1 H2]. exact (valid_locations_complete _ _ _ _ _ H c H1 H2).
Qed.

Theorem C12_slot_validity : forall st reqs job l,
  lv_cap l = None ->
  level_valid st reqs job l =
  Ok (N.ltb (N.of_nat (length (running_jobs st job l))) (match lv_slots l with Some s => s | None => 1%N end)).
Proof. exact slot_level_valid. Qed.

(* known finding: after ROLLBACK of /s0/1 nothing is fireable or running, yet /s0/0.9 finds no valid location *)
Theorem C12_rollback_blocks_refuted :
  exists st, run init rollback_history = Ok st /\ no_active (Ok st) = true /\
    attempt st "/s0/0.9" slot_cands (slot_reqs 2 4) 1 [] = Ok (st, [], false) /\
    attempt st "/s1/0" slot_cands (slot_reqs 2 4) 1 [] <> Ok (st, [], false).
Proof. eexists. vm_compute. repeat split; try reflexivity. discriminate. Qed.

Print Assumptions C12_grant_only_valid.
Print Assumptions C12_granted_when_exactly_enough_partial.
Print Assumptions C12_waits_when_short.
Print Assumptions C12_failed_evaluation_changes_nothing.
Print Assumptions C12_valid_locations_exact.
Print Assumptions C12_slot_validity.
Print Assumptions C12_rollback_blocks_refuted.
