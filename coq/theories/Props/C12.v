(* Props/C12.v — A job that fits is eventually scheduled (no lost wake-ups).
   The wake-up protocol (lock, Condition.wait, notify_all) is modelled by the transition system of Sched/Wake.v
   (C12_wake_refines_round_partial, C12_no_lost_wakeup_partial, at the end of this file); asyncio's own Lock/Condition
   implementation is exercised on the real scheduler under a permuting event loop and judged at every quiescent
   point by the oracle.  Proved about one re-evaluation of a waiting request (any state, any stacked chains):
   it is granted exactly from locations that are valid now (C12_grant_only_valid); with exactly n >= 1 valid
   locations it IS granted whatever the policy answers (C12_granted_when_exactly_enough_partial); with fewer than n
   it waits and the state is untouched (C12_waits_when_short, C12_failed_evaluation_changes_nothing), so waiting never
   consumes capacity; validity on slot levels is count < slots (C12_slot_validity).
   C12_valid_iff_fits: valid <-> fits the free capacity.  C12_quiescent_partial: a wake-up round without grant leaves
   every waiter ungrantable in the final state.  C12_quiescent / C12_quiescent_stacked: rounds with grants.
   C12_granted_on_release_partial: progress of a round.  C12_eventually_partial + C12_phases_measure: NOT a liveness theorem
   about the implementation — an idle-point SAFETY statement (at an idle point reached by phases "terminal notification +
   full round" no fitting request is still pending) plus the measure that bounds the number of phases; that every
   fireable/running job is eventually notified and that every notification is followed by a full round are ASSUMED (the
   shape of [phases_seq]), the second being what asyncio's notify_all provides and what the oracle watches on real runs.
   C12_rollback_frees_inner_slot: the former finding (a rolled-back job kept the inner slot of its step) after its fix. *)
From Coq Require Import List Bool ZArith NArith Lia.
From SF Require Import Base.Str Hardware.Model Hardware.Proofs Sched.Model Sched.Proofs Sched.History Sched.Quiesce Sched.Eventually Sched.Stacked Sched.StackedHist Sched.StackedQuiesce Sched.Wake Sched.WakeStacked Sched.Witness Sched.Examples.
Import ListNotations.
Local Open Scope string_scope. Local Open Scope list_scope.

Theorem C12_grant_only_valid : forall st job cands reqs n chosen s' vn,
  attempt st job cands reqs n chosen = Ok (s', vn, true) ->
  exists sel, sel <> [] /\ allocate st job reqs sel = Ok s' /\
    forall c, In c sel -> In c cands /\ is_valid st reqs job c = Ok true.
Proof. exact attempt_allocates_valid. Qed.

Theorem C12_granted_when_exactly_enough_partial : forall st job cands reqs n chosen v,
  valid_locations st reqs job cands = Ok v -> length v = n -> n <> 0%nat ->
  (exists s', attempt st job cands reqs n chosen = Ok (s', map chain_name v, true) /\ allocate st job reqs v = Ok s')
  \/ (exists e, attempt st job cands reqs n chosen = Err e /\ allocate st job reqs v = Err e).
Proof. exact attempt_grants_when_exact. Qed.

Theorem C12_waits_when_short : forall st job cands reqs n chosen v,
  valid_locations st reqs job cands = Ok v -> (length v < n)%nat ->
  attempt st job cands reqs n chosen = Ok (st, map chain_name v, false).
Proof. exact attempt_waits_when_short. Qed.

Theorem C12_failed_evaluation_changes_nothing : forall st job cands reqs n chosen s' vn,
  attempt st job cands reqs n chosen = Ok (s', vn, false) -> s' = st.
Proof. exact attempt_fail_unchanged. Qed.

Theorem C12_valid_locations_exact : forall st reqs job cs v,
  valid_locations st reqs job cs = Ok v ->
  forall c, In c v <-> In c cs /\ is_valid st reqs job c = Ok true.
Proof.
  intros st reqs job cs v H c. split.
  - apply (valid_locations_spec _ _ _ _ _ H).
  - intros [H1 H2]. exact (valid_locations_complete _ _ _ _ _ H c H1 H2).
Qed.

Theorem C12_slot_validity : forall st reqs job l,
  lv_cap l = None ->
  level_valid st reqs job l =
  Ok (N.ltb (N.of_nat (length (running_jobs st job l))) (match lv_slots l with Some s => s | None => 1%N end)).
Proof. exact slot_level_valid. Qed.

(* validity on a level with declared hardware is EXACTLY "the requirement fits into capacity - ledger" (cores, memory,
   every mount point of the requirement), whenever the ledger is within the capacity (which C10_capacity proves
   for every conformant history on the flat domain): so a request is found valid iff a location has enough free capacity *)
Theorem C12_valid_iff_fits : forall st reqs job l cap rq cur,
  lv_cap l = Some cap -> lookup (req_key l) reqs = Some rq ->
  cur = (match lookup (lv_name l) (hwloc st) with Some h => h | None => default_hw end) ->
  wf cap -> wf cur -> wf rq ->
  (forall m, In m (mounts cur) -> In m (mounts cap)) -> (forall m, (size_at cur m <= size_at cap m)%Z) ->
  (level_valid st reqs job l = Ok true <->
   (cores cur + cores rq <= cores cap)%Z /\ (mem cur + mem rq <= mem cap)%Z /\
   forall m, In m (mounts rq) -> In m (mounts cap) /\ (size_at cur m + size_at rq m <= size_at cap m)%Z).
Proof. exact cap_level_valid_iff. Qed.

(* C12_quiescent_partial: a wake-up round ([wake_round]: after notify_all every waiter re-evaluates once, in any order
   [ws]) in which nothing was granted leaves the state unchanged, and EVERY waiter has been evaluated in that final
   state and found fewer valid locations than it needs: at the quiescent point no waiter could be allocated.
   "partial": rounds in which some waiter IS granted need monotonicity of validity under reservations of others
   (not proved); asyncio's delivery of the wake-up is exercised on the real scheduler, not modelled. *)
Theorem C12_quiescent_partial : forall ws st st',
  wake_round st ws = Ok (st', []) ->
  st' = st /\ forall w, In w ws -> exists vn, try_waiter st w = Ok (st, vn, false).
Proof. exact wake_round_quiescent. Qed.

(* C12_quiescent — rounds in which waiters ARE granted, on flat locations with declared hardware or slots (single-location
   requests; domain and [conformant], [Inv] as in Props/C10.v): start in any state satisfying the scheduler invariant
   [Inv] (e.g. any state reached by a conformant history: inv_run), let the waiters re-evaluate in any order
   (a history of evaluations only, [only_attempts]).  A request that found fewer valid locations than it needs at
   its turn is still short of valid locations in the state at the END of the round, whatever was granted to others
   in between: evaluating it there again returns "not granted".  (Proof: reservations and the jobs counted by _get_running_jobs only grow
   along the round; by C12_valid_iff_fits / C12_slot_validity validity is antitone in them.)  Together with
   C12_valid_iff_fits: at the quiescent point no waiting request has enough free capacity on enough locations.
   Stacked locations are covered by C12_quiescent_stacked. *)
Theorem C12_quiescent : forall locs,
  (forall l1 l2, In l1 locs -> In l2 locs -> lv_name l1 = lv_name l2 -> l1 = l2) ->
  (forall l cap, In l locs -> lv_cap l = Some cap -> wfr cap /\ In "/" (mounts cap)) ->
  forall st G pre job cands reqs n chosen post st' s_i vn,
  Inv locs st G ->
  conformant locs st (pre ++ EAttempt job cands reqs n chosen :: post) ->
  only_attempts (pre ++ EAttempt job cands reqs n chosen :: post) ->
  run st (pre ++ EAttempt job cands reqs n chosen :: post) = Ok st' ->
  run st pre = Ok s_i -> attempt s_i job cands reqs n chosen = Ok (s_i, vn, false) -> (length vn < n)%nat ->
  forall v', valid_locations st' reqs job cands = Ok v' ->
  (length v' < n)%nat /\ attempt st' job cands reqs n chosen = Ok (st', map chain_name v', false).
Proof. exact round_quiescent. Qed.

(* C12_quiescent_stacked — the same for locations that are chains of stacked levels (hardware or slot levels, outer or
   inner; domain, [conformant2] and [Inv2] as for C10_capacity_stacked in Props/C10.v, [R] the ghost record of per-level
   reservations): along a wake-up round the ledger of every level and the job lists that _get_running_jobs counts only
   grow, validity of every level is antitone in them, so a request short of valid locations at its turn is still short
   at the end of the round.  This is about re-evaluation being stable; it does not say that "short of valid locations"
   coincides with "not enough free capacity" on stacked slot levels — there it did not before the fix of the ROLLBACK clean-up (C12_rollback_frees_inner_slot); the ROLLBACK/same-step/lower-tag rule of
   _get_running_jobs is still part of validity. *)
Theorem C12_quiescent_stacked : forall locs,
  (forall l1 l2, In l1 locs -> In l2 locs -> lv_name l1 = lv_name l2 -> l1 = l2) ->
  (forall l cap, In l locs -> lv_cap l = Some cap -> wfr cap /\ In "/" (mounts cap)) ->
  forall st G R pre job cands reqs n chosen post st' s_i vn,
  Inv2 locs st G R ->
  conformant2 locs st R (pre ++ EAttempt job cands reqs n chosen :: post) ->
  only_attempts (pre ++ EAttempt job cands reqs n chosen :: post) ->
  run st (pre ++ EAttempt job cands reqs n chosen :: post) = Ok st' ->
  run st pre = Ok s_i -> attempt s_i job cands reqs n chosen = Ok (s_i, vn, false) -> (length vn < n)%nat ->
  forall v', valid_locations st' reqs job cands = Ok v' ->
  (length v' < n)%nat /\ attempt st' job cands reqs n chosen = Ok (st', map chain_name v', false).
Proof. exact round_quiescent2. Qed.
Theorem C12_reachable_states_satisfy_Inv2 : forall locs,
  (forall l1 l2, In l1 locs -> In l2 locs -> lv_name l1 = lv_name l2 -> l1 = l2) ->
  (forall l cap, In l locs -> lv_cap l = Some cap -> wfr cap /\ In "/" (mounts cap)) ->
  forall es st G R st', Inv2 locs st G R -> conformant2 locs st R es -> run st es = Ok st' ->
  Inv2 locs st' (measured2 st R es G) (reservations st R es).
Proof. exact inv2_run. Qed.

(* every state reached by a conformant history satisfies the invariant the round starts from *)
Theorem C12_reachable_states_satisfy_Inv : forall locs,
  (forall l1 l2, In l1 locs -> In l2 locs -> lv_name l1 = lv_name l2 -> l1 = l2) ->
  (forall l cap, In l locs -> lv_cap l = Some cap -> wfr cap /\ In "/" (mounts cap)) ->
  forall es st G st', Inv locs st G -> conformant locs st es -> run st es = Ok st' -> Inv locs st' (measured st es G).
Proof. exact inv_run. Qed.

Example C12_quiescent_hypotheses_met :
  Inv hw_locs init g0 /\ conformant hw_locs init ex_round /\ only_attempts ex_round /\
  (exists st', run init ex_round = Ok st' /\
     attempt init "/s/9" [[ex_level]] big_reqs 1 [] = Ok (init, [], false) /\
     attempt st' "/s/9" [[ex_level]] big_reqs 1 [] = Ok (st', [], false) /\
     job_active st' "/s/0" = true).
Proof.
  split; [apply inv_init|]. split; [exact ex_round_conformant|]. split; [exact ex_round_attempts|].
  eexists. split; [vm_compute; reflexivity|]. vm_compute. repeat split; reflexivity.
Qed.

(* C12_granted_on_release_partial — progress, complementing C12_quiescent: let [st] be the state right after a
   notification (or any state).  If some waiting request would be granted when evaluated in [st]
   (C12_granted_on_release_partial: [try_waiter st w] grants; C12_granted_on_release_exact_partial: exactly the n >= 1
   locations it asks for are valid in [st] — by C12_valid_iff_fits: fit the free capacity — and _allocate_job does not
   raise), then the wake-up round, in whatever order the waiters re-evaluate, grants at least one waiter (possibly an
   earlier one), and every granted job is one of the waiters.  Any locations, stacked included.
   "partial": it is the round that is modelled; that notify_all really makes every waiter run the round is exercised on
   the real scheduler (seeded mutant C12a: notify(k) instead of notify_all is caught by the quiescence oracle). *)
Theorem C12_granted_on_release_partial : forall ws st st' g w s1 vn,
  wake_round st ws = Ok (st', g) -> In w ws -> try_waiter st w = Ok (s1, vn, true) -> g <> [].
Proof. exact wake_round_progress. Qed.
Theorem C12_granted_on_release_exact_partial : forall ws st st' g w v s1,
  wake_round st ws = Ok (st', g) -> In w ws ->
  valid_locations st (w_reqs w) (w_job w) (w_cands w) = Ok v -> length v = w_n w -> w_n w <> 0%nat ->
  allocate st (w_job w) (w_reqs w) v = Ok s1 -> g <> [].
Proof. exact wake_round_progress_exact. Qed.
Theorem C12_granted_are_waiters : forall ws st st' g,
  wake_round st ws = Ok (st', g) -> forall j, In j g -> exists w, In w ws /\ w_job w = j.
Proof. exact wake_round_granted_in. Qed.

(* ---------------------------------------------------------------------------------------------------------
   C12_eventually_partial (flat domain of Props/C10.v; Sched/Eventually.v).
   A PHASE from (st, W) — W = the pending requests, as evaluation events — is: a fireable/running job is notified a status
   outside {FIREABLE, RUNNING}; then a full wake-up round: every request of W is evaluated once, in some order
   ([Permutation order W]); it yields the new state and the requests still pending ([round_out]).  A continuation is a
   sequence of phases ([phases_seq], with the history H it generates and its length k).
   C12_phases_measure (the well-founded measure): #fireable/running + #pending decreases by exactly one per phase, so
   after at most nact st + |W| terminal notifications nobody is fireable/running — under the fairness assumption that
   every fireable/running job is eventually notified, the continuation reaches such an idle point — and pending requests
   only leave W.
   C12_eventually_partial (the name follows the design; what it states is idle-point safety under the assumed fairness
   built into [phases_seq], not liveness of the implementation): at an idle point reached by at least one phase of a
   conformant continuation, NO request for a location l with declared hardware whose requirement fits l's total capacity
   is still pending: it has been granted.
   Residue assumption, explicit: "fits" is cores rq <= cores cap, memory likewise, and for every mount point of rq:
   measured residue (what du reported for released reservations so far, at any prefix of the history) + size <= capacity;
   by C11_release the idle ledger is exactly 0 / 0 / that residue.
   "partial": single candidate location with declared hardware (with several candidates the outcome depends on the Policy;
   slot locations need the extra fact that no rolled-back job of the step is still listed); the fairness of asyncio's
   delivery (that the round really happens) is exercised on the real scheduler (seeded mutants C12a, C12b). *)
Theorem C12_phases_measure : forall locs st W H st' W' k,
  phases_seq st W H st' W' k -> conformant locs st H ->
  (nact st' + Z.of_nat (length W') + Z.of_nat k = nact st + Z.of_nat (length W))%Z /\ (forall e, In e W' -> In e W).
Proof. exact phases_measure. Qed.

Theorem C12_eventually_partial : forall locs,
  (forall l1 l2, In l1 locs -> In l2 locs -> lv_name l1 = lv_name l2 -> l1 = l2) ->
  (forall l cap, In l locs -> lv_cap l = Some cap -> wfr cap /\ In "/" (mounts cap)) ->
  forall st W H st' W' k, phases_seq st W H st' W' k -> forall pre jw l cap reqs rq chosen,
  (k >= 1)%nat -> conformant locs init (pre ++ H) -> run init pre = Ok st -> nact st' = 0%Z ->
  In l locs -> lv_cap l = Some cap -> lookup (req_key l) reqs = Some rq ->
  (cores rq <= cores cap)%Z -> (mem rq <= mem cap)%Z ->
  (forall p q m, pre ++ H = p ++ q -> In m (mounts rq) ->
     In m (mounts cap) /\ (measured init p g0 (lv_name l) (MS m) + size_at rq m <= size_at cap m)%Z) ->
  ~ In (EAttempt jw [[l]] reqs 1 chosen) W'.
Proof. exact eventually_granted. Qed.

(* the step used by it: in a state where nobody is fireable/running, a request that fits capacity - residue IS valid *)
Theorem C12_idle_fits_valid : forall locs,
  (forall l cap, In l locs -> lv_cap l = Some cap -> wfr cap /\ In "/" (mounts cap)) ->
  forall st G job reqs l cap rq,
  Inv locs st G -> nact st = 0%Z -> In l locs -> lv_cap l = Some cap -> lookup (req_key l) reqs = Some rq -> wfr rq ->
  (cores rq <= cores cap)%Z -> (mem rq <= mem cap)%Z ->
  (forall m, In m (mounts rq) -> In m (mounts cap) /\ (G (lv_name l) (MS m) + size_at rq m <= size_at cap m)%Z) ->
  level_valid st reqs job l = Ok true.
Proof. exact idle_fits_valid. Qed.

(* hypotheses met: /s/0 holds 2 of 4 cores while fireable, /s/1 (3 cores) waits; phase 1: /s/0 FIREABLE -> FAILED
   (du 3), round grants /s/1; phase 2: /s/1 COMPLETED, empty round; idle, nothing pending; measure 1 + 1 = 0 + 0 + 2 *)
Example C12_eventually_hypotheses_met :
  conformant hw_locs init (ev_pre ++ ev_H) /\
  exists st st', run init ev_pre = Ok st /\ phases_seq st [ev_w] ev_H st' [] 2 /\ nact st' = 0%Z /\ nact st = 1%Z.
Proof. split; [exact ev_conformant|exact ev_phases]. Qed.

(* ---------------------------------------------------------------------------------------------------------
   The waiting/waking protocol itself (Sched/Wake.v): a coroutine-level transition system of `async with wait_queue` /
   `wait()` / `notify_all()` in _process_target and notify_status.  State = scheduler state + lock holder + lock FIFO +
   the Condition's waiter FIFO + a program counter per task (PStart, PLockWait, PHolding, PWaiting, PDone); actions =
   AArrive t (Lock.acquire: take the free lock or queue) and AStep t (the holder's critical section up to the release:
   a request evaluates and returns or parks; a notifier updates, moves EVERY parked waiter to the lock FIFO, returns);
   releasing hands the lock to the head of the lock FIFO.
   C12_wake_refines_round_partial: an execution segment without notification is one of the wake rounds of
   C12_quiescent_partial / C12_granted_on_release_partial ([wake_round]) over the requests it evaluates, in the order
   in which they took the lock; each is evaluated exactly once in the segment, none of them was parked or finished at
   its start, all are parked or finished at its end, and tasks parked or finished at the start do not move.  Since a
   notification parks nobody and wakes everybody, the evaluations between two notifications are: every waiter woken by
   the first one that obtained the lock before the second notifier did (FIFO; a notifier that queues for the lock while
   woken waiters are still queued interleaves: the projection is then a PREFIX of the round, and the waiters not yet
   re-evaluated are evaluated after the second notification, which wakes the others again), plus newly arrived requests.
   C12_parked_not_grantable / C12_no_lost_wakeup_partial: in every reachable state, a request parked in the waiter FIFO
   was evaluated after the last notification and, if it was short of valid locations then, it still is in the current
   scheduler state (composition with C12_quiescent on the flat domain: the projected history [gpre c ++ ground c] must be
   conformant); in a quiescent state (no task inside the protocol) every issued, ungranted request is parked, nobody
   holds or queues for the lock (C12_quiescent_lock_free): no waiter could be allocated.
   "partial", code paths OUTSIDE the system: an exception escaping a critical section (in notify_status it skips
   notify_all — the known multi-location release finding; [cstep] has no successor when [notify]/[try_waiter] raises);
   `retry_delay` timers (a timeout wakes a waiter without notification: only adds evaluations); cancellation of a parked
   task; several targets per request (one task per target sharing JobContext.scheduled); asyncio's own implementation of
   Lock/Condition (FIFO hand-over is assumed as documented; the permuting-loop runs exercise other wake orders, for
   which nothing in the proofs depends on the order).  Composition with C12_quiescent on the flat domain, with C12_quiescent_stacked
   on chains of stacked levels (C12_no_lost_wakeup_stacked_partial). *)
Theorem C12_wake_refines_round_partial : forall prog l c c',
  QInv c -> execs prog c l = Some c' -> no_notify prog l ->
  (exists g, wake_round (sched c) (map (req_of prog) (evals l)) = Ok (sched c', g)) /\
  NoDup (evals l) /\
  (forall t, In t (evals l) -> settled (pcs c t) = false /\ settled (pcs c' t) = true) /\
  (forall k, settled (pcs c k) = true -> pcs c' k = pcs c k) /\
  ground c' = ground c ++ map (fun t => ev_of (req_of prog t)) (evals l).
Proof. exact segment_is_round. Qed.

(* the queue discipline and the protocol invariant hold in every reachable state *)
Theorem C12_wake_invariants : forall prog l c,
  execs prog c0 l = Some c -> QInv c /\ WInv prog c.
Proof.
  intros prog l c H. split; [exact (qinv_execs prog l c0 c qinv0 H)|exact (winv_execs prog l c0 c (winv0 prog) H)].
Qed.

Theorem C12_parked_not_grantable : forall prog locs,
  (forall l1 l2, In l1 locs -> In l2 locs -> lv_name l1 = lv_name l2 -> l1 = l2) ->
  (forall l cap, In l locs -> lv_cap l = Some cap -> wfr cap /\ In "/" (mounts cap)) ->
  forall l c t w,
  execs prog c0 l = Some c -> conformant locs init (gpre c ++ ground c) ->
  pcs c t = PWaiting -> prog t = KReq w ->
  exists vn, (exists pre post s_i, ground c = pre ++ ev_of w :: post /\ run (gbase c) pre = Ok s_i /\
                                  try_waiter s_i w = Ok (s_i, vn, false)) /\
    ((length vn < w_n w)%nat -> forall v', valid_locations (sched c) (w_reqs w) (w_job w) (w_cands w) = Ok v' ->
       (length v' < w_n w)%nat /\ try_waiter (sched c) w = Ok (sched c, map chain_name v', false)).
Proof. exact parked_not_grantable. Qed.

Theorem C12_no_lost_wakeup_partial : forall prog locs,
  (forall l1 l2, In l1 locs -> In l2 locs -> lv_name l1 = lv_name l2 -> l1 = l2) ->
  (forall l cap, In l locs -> lv_cap l = Some cap -> wfr cap /\ In "/" (mounts cap)) ->
  forall l c,
  execs prog c0 l = Some c -> conformant locs init (gpre c ++ ground c) -> quiescent c ->
  forall t w, prog t = KReq w -> pcs c t <> PStart -> pcs c t <> PDone ->
  pcs c t = PWaiting /\ In t (waitq c) /\
  exists vn, (exists pre post s_i, ground c = pre ++ ev_of w :: post /\ run (gbase c) pre = Ok s_i /\
                                  try_waiter s_i w = Ok (s_i, vn, false)) /\
    ((length vn < w_n w)%nat -> forall v', valid_locations (sched c) (w_reqs w) (w_job w) (w_cands w) = Ok v' ->
       (length v' < w_n w)%nat /\ try_waiter (sched c) w = Ok (sched c, map chain_name v', false)).
Proof. exact no_lost_wakeup. Qed.

Theorem C12_quiescent_lock_free : forall prog l c,
  execs prog c0 l = Some c -> quiescent c -> holder c = None /\ lockq c = [].
Proof. exact quiescent_lock_free. Qed.

(* The same over chains of stacked levels (hardware or slot levels, outer or inner; arbitrarily many tasks, jobs and
   locations; domain = [conformant2] of Props/C10.v: one location per allocation, coherent releases): composition of the
   protocol invariant with C12_quiescent_stacked. *)
Theorem C12_parked_not_grantable_stacked : forall prog locs,
  (forall l1 l2, In l1 locs -> In l2 locs -> lv_name l1 = lv_name l2 -> l1 = l2) ->
  (forall l cap, In l locs -> lv_cap l = Some cap -> wfr cap /\ In "/" (mounts cap)) ->
  forall l c t w,
  execs prog c0 l = Some c -> conformant2 locs init (fun _ => []) (gpre c ++ ground c) ->
  pcs c t = PWaiting -> prog t = KReq w ->
  exists vn, (exists pre post s_i, ground c = pre ++ ev_of w :: post /\ run (gbase c) pre = Ok s_i /\
                                  try_waiter s_i w = Ok (s_i, vn, false)) /\
    ((length vn < w_n w)%nat -> forall v', valid_locations (sched c) (w_reqs w) (w_job w) (w_cands w) = Ok v' ->
       (length v' < w_n w)%nat /\ try_waiter (sched c) w = Ok (sched c, map chain_name v', false)).
Proof. exact parked_not_grantable_stacked. Qed.

Theorem C12_no_lost_wakeup_stacked_partial : forall prog locs,
  (forall l1 l2, In l1 locs -> In l2 locs -> lv_name l1 = lv_name l2 -> l1 = l2) ->
  (forall l cap, In l locs -> lv_cap l = Some cap -> wfr cap /\ In "/" (mounts cap)) ->
  forall l c,
  execs prog c0 l = Some c -> conformant2 locs init (fun _ => []) (gpre c ++ ground c) -> quiescent c ->
  forall t w, prog t = KReq w -> pcs c t <> PStart -> pcs c t <> PDone ->
  pcs c t = PWaiting /\ In t (waitq c) /\
  exists vn, (exists pre post s_i, ground c = pre ++ ev_of w :: post /\ run (gbase c) pre = Ok s_i /\
                                  try_waiter s_i w = Ok (s_i, vn, false)) /\
    ((length vn < w_n w)%nat -> forall v', valid_locations (sched c) (w_reqs w) (w_job w) (w_cands w) = Ok v' ->
       (length v' < w_n w)%nat /\ try_waiter (sched c) w = Ok (sched c, map chain_name v', false)).
Proof. exact no_lost_wakeup_stacked. Qed.

Example C12_no_lost_wakeup_stacked_hypotheses_met :
  conformant2 st_locs init (fun _ => []) sk_hist /\
  exists c, execs sk_prog c0 sk_run = Some c /\ quiescent c /\ pcs c 1%nat = PWaiting /\ waitq c = [1%nat] /\
            gpre c ++ ground c = sk_hist.
Proof. split; [exact sk_conformant|exact sk_execution]. Qed.

(* hypotheses met: /s/0 granted; /s/9 (9 cores on a 4-core location) parks; /s/0 COMPLETED wakes it; it re-evaluates and
   parks again; the state is quiescent and the projected history is conformant *)
Example C12_no_lost_wakeup_hypotheses_met :
  conformant hw_locs init wk_hist /\
  exists c, execs wk_prog c0 wk_run = Some c /\ quiescent c /\ pcs c 1%nat = PWaiting /\ waitq c = [1%nat] /\
            gpre c ++ ground c = wk_hist.
Proof. split; [exact wk_conformant|exact wk_execution]. Qed.

(* FIXED finding (known/C12.txt: fixed): before the fix notify_status(ROLLBACK) removed the job from the job list of the
   OUTER level only; the rolled-back /s0/1 stayed listed on the wrapped 1-slot host and blocked /s0/0.9 of the same step
   although nothing was fireable or running.  With the clean-up walking every stacked level (as _allocate_job does) the
   same history leaves the host's list empty and /s0/0.9 is granted. *)
Theorem C12_rollback_frees_inner_slot :
  exists st st', run init rollback_history = Ok st /\ no_active (Ok st) = true /\
    lookup "host/h0" (locjobs st) = Some [] /\
    attempt st "/s0/0.9" slot_cands (slot_reqs 2 4) 1 [] = Ok (st', ["d0l0"], true).
Proof. eexists. eexists. vm_compute. repeat split; reflexivity. Qed.

Print Assumptions C12_grant_only_valid.
Print Assumptions C12_granted_when_exactly_enough_partial.
Print Assumptions C12_waits_when_short.
Print Assumptions C12_failed_evaluation_changes_nothing.
Print Assumptions C12_valid_locations_exact.
Print Assumptions C12_slot_validity.
Print Assumptions C12_valid_iff_fits.
Print Assumptions C12_quiescent_partial.
Print Assumptions C12_quiescent.
Print Assumptions C12_reachable_states_satisfy_Inv.
Print Assumptions C12_quiescent_stacked.
Print Assumptions C12_reachable_states_satisfy_Inv2.
Print Assumptions C12_granted_on_release_partial.
Print Assumptions C12_granted_on_release_exact_partial.
Print Assumptions C12_granted_are_waiters.
Print Assumptions C12_phases_measure.
Print Assumptions C12_eventually_partial.
Print Assumptions C12_idle_fits_valid.
Print Assumptions C12_wake_refines_round_partial.
Print Assumptions C12_wake_invariants.
Print Assumptions C12_parked_not_grantable.
Print Assumptions C12_no_lost_wakeup_partial.
Print Assumptions C12_quiescent_lock_free.
Print Assumptions C12_parked_not_grantable_stacked.
Print Assumptions C12_no_lost_wakeup_stacked_partial.
Print Assumptions C12_rollback_frees_inner_slot.
