(* Props/C32.v — Remapping CWL file values between directories is lossless.
   Only statements here; every proof is [exact <lemma of Remap/Proofs.v>].
   Model: Remap/Model.v (byte level; remap_path as repaired by the two fixes; the code before them as
   remap_path_before_fix / remap_path_before_colon_fix).  Directories and names are arbitrary lists of components: any bytes (blanks, '%',
   UTF-8, ...) except '/', and not "", ".", ".." ([good]); [abs l] = "/" ++ join "/" l;
   [file_loc l] = "file://" ++ quote (abs l), the location StreamFlow builds for that path. *)
From Coq Require Import List Bool Ascii NArith.
From SF Require Import Base.Str Tags.Model Remap.Model Remap.Proofs.
Import ListNotations.
Local Open Scope string_scope. Local Open Scope list_scope.

(* percent-encoding is lossless for every byte string *)
Theorem C32_unquote_quote : forall s, unquote (quote s) = s.
Proof. exact unquote_quote. Qed.

(* a plain path below old_dir is mapped to the same relative position below new_dir ... *)
Theorem C32_remap_plain : forall old new comps,
  forallb good old = true -> forallb good new = true -> forallb good comps = true -> comps <> [] ->
  remap_path (abs old) (abs new) (abs (old ++ comps)) = Some (abs (new ++ comps)).
Proof. exact remap_path_plain. Qed.
(* ... and a file:// location likewise, whatever bytes its name contains *)
Theorem C32_remap_file : forall old new comps,
  forallb good old = true -> forallb good new = true -> forallb good comps = true -> comps <> [] ->
  remap_path (abs old) (abs new) (file_loc (old ++ comps)) = Some (file_loc (new ++ comps)).
Proof. exact remap_path_file. Qed.

(* there and back restores the original string.
   NOTE (the name is pinned in theorems.json, so it carries no _partial suffix): this is the statement for
   CANONICAL locations only, i.e. the spelling [file_loc] = "file://" ++ quote path (what StreamFlow's get_file_token
   builds); another spelling of the same location (raw blank, lower-case hex, %7E for ~) comes back as the
   canonical one, see C32_noncanonical_location_refuted *)
Theorem C32_roundtrip_file : forall old new comps,
  forallb good old = true -> forallb good new = true -> forallb good comps = true -> comps <> [] ->
  exists p', remap_path (abs old) (abs new) (file_loc (old ++ comps)) = Some p' /\
             remap_path (abs new) (abs old) p' = Some (file_loc (old ++ comps)).
Proof. exact roundtrip_file. Qed.
Theorem C32_noncanonical_location_refuted :
  remap_path "/old" "/new" "file:///old/a b" = Some "file:///new/a%20b" /\
  remap_path "/new" "/old" "file:///new/a%20b" = Some "file:///old/a%20b" /\
  remap_path "/old" "/new" "file:///old/%7et%c3%a9" = Some "file:///new/~t%C3%A9" /\
  remap_path "/new" "/old" "file:///new/~t%C3%A9" = Some "file:///old/~t%C3%A9".
Proof. vm_compute. repeat split; reflexivity. Qed.
(* a plain path is restored whatever bytes its components contain (':' at the end of a component included:
   since the ":/" fix a string is a URL only if urlsplit finds a scheme in front of the ":/") *)
Theorem C32_roundtrip_plain : forall old new comps,
  forallb good old = true -> forallb good new = true -> forallb good comps = true -> comps <> [] ->
  exists p', remap_path (abs old) (abs new) (abs (old ++ comps)) = Some p' /\
             remap_path (abs new) (abs old) p' = Some (abs (old ++ comps)).
Proof. exact roundtrip_plain. Qed.
(* the code before that fix took "/c:/f" for a URL without scheme and returned it unchanged *)
Theorem C32_colon_slash_before_fix_refuted :
  exists old new comps,
    forallb good old = true /\ forallb good new = true /\ forallb good comps = true /\
    remap_path_before_colon_fix (abs old) (abs new) (abs (old ++ comps)) = Some (abs (new ++ comps)) /\
    remap_path_before_colon_fix (abs new) (abs old) (abs (new ++ comps)) <> Some (abs (old ++ comps)) /\
    remap_path (abs new) (abs old) (abs (new ++ comps)) = Some (abs (old ++ comps)).
Proof.
  exists ["old"], ["c:"], ["f"]. repeat split; try (vm_compute; reflexivity). vm_compute. discriminate.
Qed.

(* other URL schemes are returned unchanged *)
Theorem C32_other_schemes_unchanged : forall old new p,
  has_colon_slash p = true -> scheme_of p <> "" -> scheme_of p <> "file" -> remap_path old new p = Some p.
Proof. exact other_scheme_unchanged. Qed.

(* the recursion through arrays, records, secondaryFiles and listing: a whole CWL value is restored as soon
   as every location/path string of the File/Directory objects it contains ([fs_v]) is restored; together
   with the path theorems above this is the round trip of values.  Any nesting depth and width. *)
Theorem C32_value_roundtrip : forall old new v v',
  remap_token_value old new v = Some v' ->
  (forall s, In s (fs_v v) -> forall s', remap_path old new s = Some s' -> remap_path new old s' = Some s) ->
  remap_token_value new old v' = Some v.
Proof. exact token_value_roundtrip. Qed.
(* composed with the path theorems: a value all of whose file strings are plain paths below old_dir,
   canonical file:// locations below old_dir, or URLs of another scheme, is restored exactly.
   _partial: the domain [in_domain] excludes non-canonical location spellings; the
   forward remap is assumed to succeed (it fails only on non-string location/path or non-list secondaryFiles/listing) *)
Theorem C32_value_roundtrip_in_domain_partial : forall old new v v',
  forallb good old = true -> forallb good new = true ->
  remap_token_value (abs old) (abs new) v = Some v' ->
  (forall s, In s (fs_v v) -> in_domain old new s) ->
  remap_token_value (abs new) (abs old) v' = Some v.
Proof. exact value_roundtrip_in_domain. Qed.
(* atoms and strings that are not a location/path of a File/Directory are never touched *)
Theorem C32_non_file_unchanged : forall rp v,
  match v with JAtom _ | JStr _ => remap_v rp v = Some v | _ => True end.
Proof. exact non_file_unchanged. Qed.

(* the code before the fix loses names containing percent signs *)
Theorem C32_percent_before_fix_refuted :
  remap_path_before_fix "/old" "/new" "/old/a%20b" = Some "/new/a b" /\
  remap_path_before_fix "/old" "/new" "file:///old/100%25" = Some "file:///new/100%" /\
  remap_path_before_fix "/new" "/old" "file:///new/100%" = Some "file:///old/100%".
Proof. vm_compute. repeat split; reflexivity. Qed.

(* non-vacuity *)
Example C32_roundtrip_example :
  remap_path "/old dir" "/new/é" "file:///old%20dir/a%20b/100%25" = Some "file:///new/%C3%A9/a%20b/100%25" /\
  remap_path "/new/é" "/old dir" "file:///new/%C3%A9/a%20b/100%25" = Some "file:///old%20dir/a%20b/100%25" /\
  remap_path "/old dir" "/new/é" "/old dir/a%20b/100%" = Some "/new/é/a%20b/100%" /\
  file_loc ["old dir"; "a b"] = "file:///old%20dir/a%20b" /\ forallb good ["old dir"; "a%20b"; "100%"] = true.
Proof. vm_compute. repeat split; reflexivity. Qed.

Example C32_value_example :
  let v := JObj (FCons "class" (JStr "Directory") (FCons "path" (JStr "/o/d %") (FCons "size" (JAtom "3")
             (FCons "listing" (JList (VCons (JObj (FCons "class" (JStr "File")
                (FCons "location" (JStr "file:///o/d%20%25/a%2520b") FNil))) VNil)) FNil)))) in
  fs_v v = ["/o/d %"; "file:///o/d%20%25/a%2520b"] /\
  exists v', remap_token_value "/o" "/n n" v = Some v' /\ remap_token_value "/n n" "/o" v' = Some v /\
             fs_v v' = ["/n n/d %"; "file:///n%20n/d%20%25/a%2520b"].
Proof. split; [vm_compute; reflexivity|]. eexists. repeat split; vm_compute; reflexivity. Qed.

Print Assumptions C32_unquote_quote.
Print Assumptions C32_remap_plain.
Print Assumptions C32_remap_file.
Print Assumptions C32_roundtrip_file.
Print Assumptions C32_noncanonical_location_refuted.
Print Assumptions C32_value_roundtrip_in_domain_partial.
Print Assumptions C32_roundtrip_plain.
Print Assumptions C32_colon_slash_before_fix_refuted.
Print Assumptions C32_other_schemes_unchanged.
Print Assumptions C32_percent_before_fix_refuted.
Print Assumptions C32_value_roundtrip.
Print Assumptions C32_non_file_unchanged.
