(* C26 — Deployments follow a safe lifecycle under concurrent requests.

   Model: Deploy/Model.v (coroutine-level transition system of DefaultDeploymentManager + FutureConnector; an
   execution is a list of scheduling choices).  [valid s sched] = every choice is a task that is ready at that
   point, i.e. sched is a possible run of the asyncio event loop under ANY ready-queue order.

   Full statements of the five clauses, for every configuration, request set and schedule, are NOT proved:
   three of them are false of the faithful model (witnesses below, replayed on /repo: known/C26.txt), and
   for return_after and wrap_order the general inductive proof did not fit.  What is proved for all
   interleavings is proved per finite scenario (the scenario is in the statement; the schedule is universally
   quantified, its length unbounded in the statement and bounded by the scenario): hence `_partial`. *)
From Coq Require Import List Bool Arith Lia.
From SF Require Import Deploy.Model Deploy.Proofs Deploy.Inductive Deploy.Inductive2 Deploy.Inductive3 Deploy.Inductive4
  Deploy.Micro.
Import ListNotations.

(* --- return_after: a deploy request returns only after its connector's deploy() returned successfully ---
   `_partial`: proved for every interleaving of scenarios A (deploy;undeploy || deploy || deploy), B (deploy ||
   deploy || undeploy || deploy) of one eager deployment whose deploy/undeploy suspend once, and D (below);
   missing: arbitrary configurations / request sets. *)
Theorem C26_return_after_partial : forall sched,
  (valid false scA_deps (init scA_reqs) sched = true ->
   ra_ok scA_reqs (log (run false scA_deps (init scA_reqs) sched)) = true) /\
  (valid false scB_deps (init scB_reqs) sched = true ->
   ra_ok scB_reqs (log (run false scB_deps (init scB_reqs) sched)) = true).
Proof. intro sched. split; [apply return_after_all_schedules_A | apply return_after_all_schedules_B]. Qed.

(* the hypotheses are satisfiable by long, non-trivial schedules *)
Example C26_return_after_partial_ex :
  valid false scA_deps (init scA_reqs) [0; 0; 1; 2; 0; 1; 2] = true /\
  valid false scB_deps (init scB_reqs) [0; 1; 0; 2; 3; 1; 2; 3; 1] = true.
Proof. vm_compute. split; reflexivity. Qed.

(* the code before the fix (prefix = true) violates the clause on the same scenarios: the defect that was
   repaired in /repo (commit ac03fe4) *)
Theorem C26_return_after_refuted_prefix :
  (exists sched, valid true scA_deps (init scA_reqs) sched = true /\
                 ra_ok scA_reqs (log (run true scA_deps (init scA_reqs) sched)) = false) /\
  (exists sched, valid true scB_deps (init scB_reqs) sched = true /\
                 ra_ok scB_reqs (log (run true scB_deps (init scB_reqs) sched)) = false).
Proof.
  split; [exists witA; exact return_after_prefix_witness | exists witB; exact return_after_prefix_witness_B].
Qed.

(* --- wrap_order and once on a wraps chain of depth 3 ---
   `_partial`: scenario C = deploy(d2) then undeploy_all() (three concurrent undeploy tasks), all eager;
   every interleaving: no connector is undeployed while a connector of a deployment wrapping it is live, and
   no deployment has two live connectors. *)
Theorem C26_wrap_order_partial : forall sched,
  valid false scC_deps (init scC_reqs) sched = true ->
  wo_ok scC_deps (log (run false scC_deps (init scC_reqs) sched)) = true /\
  once_ok (log (run false scC_deps (init scC_reqs) sched)) = true.
Proof. exact wrap_order_all_schedules_C. Qed.

Example C26_wrap_order_partial_ex :
  valid false scC_deps (init scC_reqs) [0; 2; 1; 3; 3; 3; 3; 0] = true.
Proof. vm_compute. reflexivity. Qed.

(* scenario D: two requests racing to deploy the top and the middle of the chain (deploys suspend): all
   three clauses on every interleaving *)
Theorem C26_chain_deploy_partial : forall sched,
  valid false scD_deps (init scD_reqs) sched = true ->
  ra_ok scD_reqs (log (run false scD_deps (init scD_reqs) sched)) = true /\
  wo_ok scD_deps (log (run false scD_deps (init scD_reqs) sched)) = true /\
  once_ok (log (run false scD_deps (init scD_reqs) sched)) = true.
Proof. exact chain_deploy_all_schedules_D. Qed.

(* --- bounded-exhaustive over REQUEST SETS (second round) ---
   Every multiset of at most 4 requests, each one of  deploy | undeploy | undeploy;deploy | deploy;undeploy,
   over one eager deployment whose connector deploy/undeploy suspend once (70 request sets), every
   interleaving: return_after and once.  `_partial`: the size of the request set is bounded (<= 4 requests,
   <= 2 ops each) and the number of suspensions is fixed; the schedule is universally quantified.
   (Trying to prove the unbounded statement exposed a counterexample with 4 requests in the code as it was:
   fixed in /repo by da00385; on the model before that fix this very family fails.) *)
Theorem C26_return_after_once_bounded_partial : forall reqs sched,
  In reqs one_fam -> valid false one_deps (init reqs) sched = true ->
  ra_ok reqs (log (run false one_deps (init reqs) sched)) = true /\
  once_ok (log (run false one_deps (init reqs) sched)) = true.
Proof. exact one_fam_all_schedules. Qed.

Example C26_one_fam_ex :
  In [[ODeploy 0]; [OUndeploy 0]; [OUndeploy 0; ODeploy 0]; [OUndeploy 0; ODeploy 0]] one_fam /\
  length one_fam = 70.
Proof. vm_compute. split; [tauto | reflexivity]. Qed.

(* Sequential teardown (no concurrent deploy: the request set is ONE request, deploys first, teardown after) of
   an eager wraps chain of depth 4: any <= 2 deploys followed by any <= 2 teardown operations (undeploy of any
   deployment / undeploy_all with its concurrent children), 651 request sets, every interleaving: wrap_order,
   once and return_after.  `_partial`: bounded request length, fixed chain depth 4. *)
Theorem C26_sequential_teardown_bounded_partial : forall reqs sched,
  In reqs ch_fam -> valid false ch_deps (init reqs) sched = true ->
  wo_ok ch_deps (log (run false ch_deps (init reqs) sched)) = true /\
  once_ok (log (run false ch_deps (init reqs) sched)) = true /\
  ra_ok reqs (log (run false ch_deps (init reqs) sched)) = true.
Proof. exact ch_fam_all_schedules. Qed.

Example C26_ch_fam_ex :
  In [[ODeploy 3; ODeploy 1; OUndeploy 2; OAll]] ch_fam /\ length ch_fam = 651.
Proof. vm_compute. split; [tauto | reflexivity]. Qed.

Print Assumptions C26_return_after_once_bounded_partial.
Print Assumptions C26_sequential_teardown_bounded_partial.

(* --- UNBOUNDED (third round): the deploy-only fragment on one eager deployment ---
   For every configuration d of a non-wrapper, eager, never-failing deployment (any number of suspensions
   inside connector.deploy), every request set in which every request is any number of deploy(d0) operations
   (any number of requests), and EVERY list of scheduling choices (no validity hypothesis needed): every
   deploy that returns OK finds a registered connector whose deploy() had returned successfully, and deploy()
   is never called while another connector of d0 is live.  Proved by an inductive invariant over executions
   (Deploy/Inductive.v), not by exploration.  `_partial` only in the program shape: no undeploy, no lazy
   deployment, no failure, no wraps chain. *)
Theorem C26_return_after_deploy_only_partial : forall d reqs sched,
  wrapper d = false -> lazy d = false -> fails d = [] -> deploy_only reqs ->
  ra_ok reqs (log (run false [d] (init reqs) sched)) = true.
Proof. intros d reqs sched H1 H2 H3 H. exact (proj1 (deploy_only_all_executions d H1 H2 H3 reqs sched H)). Qed.

Theorem C26_once_deploy_only_partial : forall d reqs sched,
  wrapper d = false -> lazy d = false -> fails d = [] -> deploy_only reqs ->
  once_ok (log (run false [d] (init reqs) sched)) = true.
Proof. intros d reqs sched H1 H2 H3 H. exact (proj2 (deploy_only_all_executions d H1 H2 H3 reqs sched H)). Qed.

Example C26_deploy_only_ex :
  deploy_only [[ODeploy 0; ODeploy 0]; [ODeploy 0]; [ODeploy 0; ODeploy 0; ODeploy 0]; [ODeploy 0]; [ODeploy 0]] /\
  valid false [plain 2 0] (init [[ODeploy 0; ODeploy 0]; [ODeploy 0]; [ODeploy 0]]) [0; 1; 2; 0; 0; 1; 2] = true.
Proof. split. repeat constructor. vm_compute. reflexivity. Qed.

Print Assumptions C26_return_after_deploy_only_partial.
Print Assumptions C26_once_deploy_only_partial.

(* --- UNBOUNDED: deploy AND undeploy on one eager deployment, clause `once` ---
   Every request set in which every request is any sequence of deploy(d0) / undeploy(d0) operations (any
   number of requests), any number of suspensions inside connector deploy/undeploy, EVERY list of scheduling
   choices: deploy() is never called on a connector of d0 while another connector of d0 is live.  Inductive
   invariant over executions (Deploy/Inductive2.v).  `_partial` in the program shape only (no lazy deployment,
   no failure, no wraps chain); return_after for deploy+undeploy is not proved unboundedly (bounded family
   above). *)
Theorem C26_once_deploy_undeploy_partial : forall d reqs sched,
  wrapper d = false -> lazy d = false -> fails d = [] -> deploy_undeploy reqs ->
  once_ok (log (run false [d] (init reqs) sched)) = true.
Proof. intros d reqs sched H1 H2 H3 H. exact (once_all_executions d H1 H2 H3 reqs sched H). Qed.

Example C26_deploy_undeploy_ex :
  deploy_undeploy [[ODeploy 0; OUndeploy 0; ODeploy 0]; [OUndeploy 0]; [OUndeploy 0; ODeploy 0]; [ODeploy 0]; [ODeploy 0]].
Proof.
  unfold deploy_undeploy. repeat (apply Forall_cons || apply Forall_nil); unfold okop;
  first [left; reflexivity | right; reflexivity].
Qed.

Print Assumptions C26_once_deploy_undeploy_partial.

(* --- UNBOUNDED (fourth round): return_after for deploy AND undeploy on one eager deployment ---
   Every request set in which every request is any sequence of deploy(d0) / undeploy(d0) operations (any
   number of requests), any number of suspensions inside connector deploy/undeploy, EVERY list of scheduling
   choices: a deploy that returns OK finds a registered connector whose deploy() had returned successfully.
   Inductive invariant over executions (Deploy/Inductive3.v): registered /\ event set => deployed; at most one
   task inside connector.deploy (pairwise over the task table); the event captured by a task inside
   connector.undeploy is stale; (request, op index) <-> current op.  It is the clause that was false before
   the fixes ac03fe4 and da00385 (the proof step "the undeploy body cannot run while a deployer is live" is
   exactly what da00385 established).  `_partial` in the program shape only: no lazy deployment, no failure,
   no wraps chain, no undeploy_all. *)
Theorem C26_return_after_deploy_undeploy_partial : forall d reqs sched,
  wrapper d = false -> lazy d = false -> fails d = [] -> deploy_undeploy reqs ->
  ra_ok reqs (log (run false [d] (init reqs) sched)) = true.
Proof. intros d reqs sched H1 H2 H3 H. exact (return_after_all_executions d H1 H2 H3 reqs H sched). Qed.

Print Assumptions C26_return_after_deploy_undeploy_partial.

(* --- UNBOUNDED (fifth round): the lazy (FutureConnector) fragment ---
   One lazy, non-wrapper deployment d whose inner connector.deploy() suspends any number of times and may FAIL
   (any failure list `fails d`), any number of requests, each any sequence of deploy(d0) / use(d0) operations
   (use = get_connector(d0).get_available_locations(): the prologue shared by every FutureConnector method),
   EVERY list of scheduling choices.  [lz_ok] (Deploy/Inductive4.v) says of every use that returns OK: the
   FutureConnector it used has an inner connector whose deploy() had returned successfully, and no inner
   deploy() had failed before.
   C26_lazy_once_return_after: the inner deploy() is called at most once, and lz_ok.
   C26_lazy_fail_wakes: once the inner deploy() has failed, (a) every use that completes afterwards raises
   (part of lz_ok: an OK completion after a failure is rejected) and (b) no task is blocked on the
   FutureConnector's deploy_event.
   What this does and does not cover: it is FutureConnector's OWN protocol (`deploying` flag + `deploy_event`,
   future.py) -- the clause seeded/C26b breaks.  It is NOT the manager-level clause: C26_fail_wakes_refuted
   (an exception out of _inner_deploy leaves waiters of a WRAPPER blocked on events_map) stays true of the code,
   and undeploy of a lazy deployment during its first use still breaks `once` (C26_once_refuted). *)
Theorem C26_lazy_once_return_after : forall d reqs sched,
  wrapper d = false -> lazy d = true -> Forall (Forall okopx) reqs ->
  length (conns_of 0 (log (run false [d] (init reqs) sched))) <= 1 /\
  lz_ok reqs (log (run false [d] (init reqs) sched)) = true.
Proof. intros d reqs sched H1 H2 H. exact (lazy_all_executions d H1 H2 reqs H sched). Qed.

Theorem C26_lazy_fail_wakes : forall d reqs sched j t e x,
  wrapper d = false -> lazy d = true -> Forall (Forall okopx) reqs ->
  let s := run false [d] (init reqs) sched in
  has is_DEf (log s) = true -> nth_error (tasks s) j = Some t -> tw t = WEvent e -> futs s = [x] ->
  e <> f_event x.
Proof. intros d reqs sched j t e x H1 H2 H. exact (lazy_fail_wakes d H1 H2 reqs H sched j t e x). Qed.

(* the hypotheses are met by a failing inner deploy with three concurrent users: the second and third uses
   raise, nobody is left blocked *)
Example C26_lazy_ex :
  let dl := mkD false None true [true] 2 0 in
  let rq := [[ODeploy 0; OUse 0]; [OUse 0]; [ODeploy 0; OUse 0]] in
  let s := run false [dl] (init rq) [0; 1; 2; 0; 0; 1; 2] in
  Forall (Forall okopx) rq /\ has is_DEf (log s) = true /\ blocked s = [] /\ lz_ok rq (log s) = true.
Proof.
  cbv zeta. split.
  - repeat (apply Forall_cons || apply Forall_nil); unfold okopx; first [left; reflexivity | right; reflexivity].
  - vm_compute. repeat split; reflexivity.
Qed.

Print Assumptions C26_lazy_once_return_after.
Print Assumptions C26_lazy_fail_wakes.

(* --- deeper chains (sixth round), still BOUNDED in the depth ---
   chain n = an eager wraps chain of depth n.  (a) deploy(top); undeploy(top) for every depth 1..40 -- ONE task,
   hence a single run per depth (the schedule is universally quantified but has no freedom); (b)
   deploy(top); undeploy_all() (n concurrent child tasks) for every depth 1..6, every interleaving: wrap_order,
   once and return_after in every reachable state.  The arbitrary-depth statement is NOT proved: the recursion
   through the chain makes the frame stacks unbounded (outside the finite-shape invariants of
   Deploy/Inductive*.v), and the executable model itself stops being faithful from depth 46 on (fuel0 = 2000
   micro-steps per atomic stretch; the final unwinding of undeploy's nested loops is quadratic in the depth). *)
Theorem C26_chain_depth40_sequential_partial : forall n sched, 1 <= n <= 40 ->
  valid false (chain n) (init (seqreq n)) sched = true ->
  chP n (seqreq n) (run false (chain n) (init (seqreq n)) sched) = true.
Proof. exact chain_seq_all_schedules. Qed.

Theorem C26_chain_depth6_undeploy_all_partial : forall n sched, 1 <= n <= 6 ->
  valid false (chain n) (init (allreq n)) sched = true ->
  chP n (allreq n) (run false (chain n) (init (allreq n)) sched) = true.
Proof. exact chain_all_all_schedules. Qed.

Print Assumptions C26_chain_depth40_sequential_partial.
Print Assumptions C26_chain_depth6_undeploy_all_partial.

(* --- scope of the UNBOUNDED theorems with respect to model fidelity ---
   [step] runs at most fuel0 = 2000 micro-steps per atomic stretch; when a stretch is longer the model marks the
   state [bad] and freezes the task (the real code has no such limit).  The unbounded theorems above are
   statements about the LOG of every execution of the model, including such cut executions (where they are true
   of a prefix of what the code would log); they do NOT conclude [bad = false], and no bound relating fuel0 to
   the request sizes is proved (it needs a termination measure on [micro]; not done).  They speak about the
   code exactly on the executions with [bad = false] -- which the correspondence run checks on every real case,
   and which every bounded family above includes in its conclusion ([explore] demands it).  The witness below
   (one request of 700 deploy operations of an already deployed deployment: the whole request is ONE atomic
   stretch of > 2000 micro-steps) shows that the caveat is real. *)
Theorem C26_fuel_cut_refuted :
  exists d reqs sched,
    wrapper d = false /\ lazy d = false /\ fails d = [] /\ deploy_only reqs /\
    valid false [d] (init reqs) sched = true /\ bad (run false [d] (init reqs) sched) = true.
Proof.
  exists (mkD false None false [] 0 0), [repeat (ODeploy 0) 700], [0].
  split; [reflexivity|split; [reflexivity|split; [reflexivity|split]]].
  - constructor; [|constructor]. apply Forall_forall. intros o Ho. apply repeat_spec in Ho. exact Ho.
  - vm_compute. split; reflexivity.
Qed.

Print Assumptions C26_fuel_cut_refuted.

(* --- MICRO-LEVEL executions (last round): no fuel, no [bad] ---
   Deploy/Micro.v defines the micro-step relation [mstep] on (state, running task): resume a ready task / ONE
   [micro] transition of the running task / yield; [mstar] is its reflexive-transitive closure.  An atomic
   stretch may be arbitrarily long.  The fuelled executable [step] refines it whenever it is not cut
   (C26_step_refines_micro), and so does [run] when no prefix is cut.  The unbounded results are restated on
   micro-level executions, where no `bad = false` side condition is needed (this settles audit item C26-2: the
   theorems about [run] above hold of every model execution, the ones below hold of every micro execution, and
   the two coincide exactly on the executions that are not cut). *)
Theorem C26_step_refines_micro : forall deps s tid,
  bad (step false deps s tid) = false -> mstar deps (s, None) (step false deps s tid, None).
Proof. exact step_refines. Qed.

Theorem C26_run_refines_micro : forall deps sched s,
  allgood deps s sched -> mstar deps (s, None) (run false deps s sched, None).
Proof. exact run_refines. Qed.

Theorem C26_deploy_only_micro : forall d reqs s c,
  wrapper d = false -> lazy d = false -> fails d = [] -> deploy_only reqs ->
  mstar [d] (init reqs, None) (s, c) -> ra_ok reqs (log s) = true /\ once_ok (log s) = true.
Proof. exact micro_deploy_only. Qed.

Theorem C26_deploy_undeploy_micro : forall d reqs s c,
  wrapper d = false -> lazy d = false -> fails d = [] -> deploy_undeploy reqs ->
  mstar [d] (init reqs, None) (s, c) -> ra_ok reqs (log s) = true /\ once_ok (log s) = true.
Proof.
  intros d reqs s c H1 H2 H3 H Hm. split.
  - exact (micro_return_after_deploy_undeploy d reqs s c H1 H2 H3 H Hm).
  - exact (micro_once_deploy_undeploy d reqs s c H1 H2 H3 H Hm).
Qed.

Theorem C26_lazy_micro : forall d reqs s c,
  wrapper d = false -> lazy d = true -> Forall (Forall okopx) reqs ->
  mstar [d] (init reqs, None) (s, c) ->
  length (conns_of 0 (log s)) <= 1 /\ lz_ok reqs (log s) = true.
Proof. exact micro_lazy. Qed.

Theorem C26_lazy_fail_wakes_micro : forall d reqs s c j t e x,
  wrapper d = false -> lazy d = true -> Forall (Forall okopx) reqs ->
  mstar [d] (init reqs, None) (s, c) ->
  has is_DEf (log s) = true -> nth_error (tasks s) j = Some t -> tw t = WEvent e -> futs s = [x] ->
  e <> f_event x.
Proof. exact micro_lazy_fail_wakes. Qed.

(* the 700-deploy request that the fuelled model cuts is covered here: every micro-reachable state of it
   satisfies the clauses (instance of C26_deploy_only_micro) *)
Example C26_micro_covers_cut_request : forall s c,
  mstar [mkD false None false [] 0 0] (init [repeat (ODeploy 0) 700], None) (s, c) ->
  ra_ok [repeat (ODeploy 0) 700] (log s) = true /\ once_ok (log s) = true.
Proof.
  intros s c H. apply (C26_deploy_only_micro (mkD false None false [] 0 0) _ s c); auto.
  constructor; [|constructor]. apply Forall_forall. intros o Ho. apply repeat_spec in Ho. exact Ho.
Qed.

Print Assumptions C26_step_refines_micro.
Print Assumptions C26_run_refines_micro.
Print Assumptions C26_deploy_only_micro.
Print Assumptions C26_deploy_undeploy_micro.
Print Assumptions C26_lazy_micro.
Print Assumptions C26_lazy_fail_wakes_micro.

(* --- wrappers without `wraps` (final round): the implicit "__LOCAL__" deployment is now inside the model ---
   (_inner_deploy: `if deployment_config.wraps is None: ... await self._deploy(LocalTarget().deployment)`).  Two such
   wrappers deployed concurrently and torn down by undeploy_all(): every interleaving satisfies once (in
   particular __LOCAL__ is deployed once), return_after and wrap_order (the local connector is not undeployed
   while a wrapper connector is live).  `_partial`: one scenario (bounded), by the verified explorer. *)
Theorem C26_local_wrappers_partial : forall sched,
  valid false loc_deps (init loc_reqs) sched = true ->
  loc_P (run false loc_deps (init loc_reqs) sched) = true.
Proof. exact loc_all_schedules. Qed.

Print Assumptions C26_local_wrappers_partial.

(* --- fail_wakes is false of the current code: d1 wraps d0, d0's deploy fails; the second deploy(d1) is
   blocked for ever (no task is ready, task 1 is not done) *)
Theorem C26_fail_wakes_refuted :
  exists deps reqs sched,
    let s := run false deps (init reqs) sched in
    valid false deps (init reqs) sched = true /\ bad s = false /\ ready_tids s = [] /\ blocked s = [1] /\
    has (is_DE 0 false) (log s) = true.
Proof. exists hang_deps, hang_reqs, [0; 1; 0]. exact hang_witness. Qed.

(* --- all_once is false of the current code: after deploy(d1) failed, undeploy_all leaves d0's connector
   deployed and registered *)
Theorem C26_all_once_refuted :
  exists deps reqs sched,
    let s := run false deps (init reqs) sched in
    valid false deps (init reqs) sched = true /\ bad s = false /\ ready_tids s = [] /\ blocked s = [] /\
    none_left (log s) = false /\ info s 0 = IReal 0.
Proof. exists leak_deps, leak_reqs, [0; 0; 1; 2; 1]. exact leak_witness. Qed.

(* --- once is false of the current code for lazy deployments: undeploy during the first use *)
Theorem C26_once_refuted :
  exists deps reqs sched,
    let s := run false deps (init reqs) sched in
    valid false deps (init reqs) sched = true /\ bad s = false /\ once_ok (log s) = false.
Proof. exists lazy_deps, lazy_reqs, [0; 1]. exact once_witness. Qed.

(* --- the explorer is sound for every scenario: a successful exploration speaks about all schedules *)
Theorem C26_explore_sound : forall prefix deps P sched fuel s,
  explore prefix deps P fuel s = true -> valid prefix deps s sched = true ->
  P (run prefix deps s sched) = true /\ bad (run prefix deps s sched) = false.
Proof. exact explore_sound. Qed.

Print Assumptions C26_return_after_partial.
Print Assumptions C26_return_after_refuted_prefix.
Print Assumptions C26_wrap_order_partial.
Print Assumptions C26_chain_deploy_partial.
Print Assumptions C26_fail_wakes_refuted.
Print Assumptions C26_all_once_refuted.
Print Assumptions C26_once_refuted.
Print Assumptions C26_explore_sound.
