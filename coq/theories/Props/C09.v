(* Props/C09.v — Database reads always reflect the latest writes.
   Only statements here; every proof is [exact <lemma of DbCache/Proofs.v>].

   [run md init ops] is the cached database of DbCache/Model.v (md = the post-processing of the @cached getters:
   [Deep] = postprocess_deepcopy, the tree in /repo; [Shallow] = cachebox's default one-level copy, the tree
   before the fix recorded in known/C09.txt), [spec_run [] ops] the same operations on a database without any
   cache, [reads] the answers of the read operations (None = the read raised).  Operation sequences are
   arbitrary lists: any number of tables, rows, updates, reads and caller mutations, in any order. *)
From Coq Require Import List NArith ZArith.
From SF Require Import Base.Str DbCache.Model DbCache.Proofs.
Import ListNotations.
Local Open Scope string_scope. Local Open Scope list_scope.

(* Every read returns exactly what an uncached database returns at that point -- updates visible immediately,
   whatever the caller did to the rows it was given -- for every sequence whose reads pass the id
   positionally.  PARTIAL: the property text has no such restriction; reads that pass the id by keyword are
   outside this theorem and are refuted below (C09_keyword_read_refuted, a known finding). *)
Theorem C09_coherent_partial : forall ops,
  forallb positional ops = true ->
  reads ops (snd (run Deep init ops)) = reads ops (spec_run [] ops).
Proof. exact run_coherent. Qed.

(* A caller modifying returned rows cannot change what later reads return: every answer is the one the same
   sequence without the caller's mutations gets.  No restriction on the sequence (keyword reads included). *)
Theorem C09_isolated : forall ops,
  reads ops (snd (run Deep init ops)) =
  reads (drop_mutations ops) (snd (run Deep init (drop_mutations ops))).
Proof. exact run_isolated. Qed.

(* The code before the fix (one-level copy): a nested mutation of a returned row changes a later read. *)
Theorem C09_alias_refuted : exists ops,
  forallb positional ops = true /\
  reads ops (snd (run Shallow init ops)) <> reads ops (spec_run [] ops).
Proof. exists alias_witness. exact alias_witness_differs. Qed.

(* The code as it is: the id passed by keyword makes another cache key, which update_* does not pop; a keyword
   read after an update returns the row as it was before the update.  No caller mutation involved. *)
Theorem C09_keyword_read_refuted : exists ops,
  forallb (fun o => negb (is_mutate o)) ops = true /\
  reads ops (snd (run Deep init ops)) <> reads ops (spec_run [] ops).
Proof. exists keyword_witness. exact keyword_witness_differs. Qed.

(* Outside the sequences quantified over, kept as the record of a repaired defect: before commit f4717ad a cached
   getter's two halves (SELECT answered / row inserted into the cache) could enclose an update_* of the same row;
   the read after that interleaving returns the row as it was before the update.  Since f4717ad getters and updates
   run under one lock, i.e. atomically as [step] models them, and C09_coherent_partial applies to the resulting
   sequence. *)
Theorem C09_unserialized_race_refuted :
  read_out (snd race_witness) <> klookup dkey_eqb (TPort, 1%N) (db (fst race_witness)) /\
  klookup dkey_eqb (TPort, 1%N) (db (fst race_witness)) <> None.
Proof. exact race_witness_stale. Qed.

(* non-vacuity: a positional sequence with an update and nested caller mutations between reads; the model's
   answers are the updated / unmutated rows, and the pre-fix witness is answered correctly after the fix *)
Example C09_coherent_example :
  let ops := [Add TPort port_row; Get TPort false 1%N;
              Mutate 0 [PKey "params"; PKey "k"] (MSet (JNum 1));
              Update TPort 1%N [("name", JStr "q")]; Get TPort false 1%N; GetFresh TPort 1%N] in
  forallb positional ops = true /\
  reads ops (snd (run Deep init ops)) =
    [Some (("id", JNum 1) :: port_row);
     Some [("id", JNum 1); ("name", JStr "q"); ("workflow", JNum 1); ("type", JStr "streamflow.core.workflow.Port");
           ("params", JObj [])];
     Some [("id", JNum 1); ("name", JStr "q"); ("workflow", JNum 1); ("type", JStr "streamflow.core.workflow.Port");
           ("params", JObj [])]].
Proof. vm_compute. split; reflexivity. Qed.
Example C09_alias_witness_fixed :
  reads alias_witness (snd (run Deep init alias_witness)) = reads alias_witness (spec_run [] alias_witness).
Proof. exact alias_witness_deep_ok. Qed.

Print Assumptions C09_coherent_partial.
Print Assumptions C09_isolated.
Print Assumptions C09_alias_refuted.
Print Assumptions C09_keyword_read_refuted.
Print Assumptions C09_unserialized_race_refuted.
