(* Props/C25.v — Commands run exactly once with verbatim arguments, environment and output.
   Only statements here; every proof is [exact <lemma of Shell/Proofs.v or Frame/Proofs.v>].

   Reading guide.  [sh_lex] is the model of what /bin/sh makes of a command line (Shell/Model.v): it yields
   the words after quote removal and the operators, or None as soon as anything would be expanded,
   globbed or otherwise interpreted.  "v reaches the command verbatim" is therefore: the line lexes to
   [Some] tokens in which v is one word [W v].  [cmd_ok c ts] says the caller's own command text c
   (" ".join(command), shell text by design) lexes to ts; [cmd_ok_quoted] shows it holds when the caller
   quoted its arguments with shlex.quote. *)
From Coq Require Import List NArith Bool Ascii.
From SF Require Import Base.Str Base.Dec Shell.Model Shell.Proofs Frame.Model Frame.Proofs.
Import ListNotations.
Local Open Scope list_scope. Local Open Scope string_scope.

(* ---- verbatim arguments: shlex.quote against the shell's token recogniser, every string *)
Theorem C25_quote_verbatim : forall s, sh_lex (quote s) = Some [W s].
Proof. exact quote_verbatim. Qed.
Theorem C25_args_verbatim : forall args, sh_words (join " " (map quote args)) = Some args.
Proof. exact join_words. Qed.

(* ---- environment, working directory and redirection targets through create_command
        (LocalConnector.run, the fall-back of the other connectors, queue-manager jobs); after the fix *)
Theorem C25_create_command_verbatim : forall cmd ts e w i o er,
  cmd_ok (join " " cmd) ts ->
  forallb (fun kv => key_ok (fst kv)) (opt_env e) = true ->
  o <> SPipe ->
  exists line,
    create_command cmd e w i o er = inl line /\
    sh_lex line = Some (wd_toks "&&" w ++ export_toks "&&" (opt_env e) ++ ts
                        ++ stdin_toks i ++ stdout_toks o ++ stderr_toks o er)%list.
Proof. exact create_command_tokens. Qed.
Theorem C25_quoted_command_ok : forall args, args <> [] -> cmd_ok (join " " (map quote args)) (map W args).
Proof. exact cmd_ok_quoted. Qed.

(* ---- the same through the persistent shell (_build_shell_command): for EVERY command, environment and
        working directory the script is ONE argument of a child sh -c with an empty standard input; inside it
        cd and every export receive their operand verbatim and the command comes after && *)
Theorem C25_shell_wrapped : forall cmd e w,
  sh_lex (build_cmd_line cmd e w)
  = Some [W "sh"; W "-c"; W (build_inner cmd e w); Op "<"; W "/dev/null"; Op "2>&"; W "1"].
Proof. exact build_cmd_line_wrapped. Qed.
Theorem C25_shell_env : forall cmd ts e w,
  cmd_ok (join " " cmd) ts ->
  forallb (fun kv => key_ok (fst kv)) (eff_e e) = true ->
  sh_lex (build_inner cmd e w) = Some (wd_toks "&&" (eff_w w) ++ export_toks "&&" (eff_e e) ++ ts)%list.
Proof. exact build_inner_tokens. Qed.

(* without environment and working directory the child's script is the command text and nothing else
   (before the round-4 fix this case was written to the persistent shell bare; the name is kept) *)
Theorem C25_shell_plain : forall cmd ts e w,
  nonempty_env e || nonempty_str w = false -> cmd_ok (join " " cmd) ts ->
  build_inner cmd e w = join " " cmd /\ sh_lex (build_inner cmd e w) = Some ts.
Proof. exact build_inner_plain. Qed.

(* ---- persistent shell = fresh process, including commands that change the state of the shell that runs them
        (cd, export, exit).  [run_state Wrapped] is the code as it is (C25_shell_wrapped: always a child sh -c);
        [Bare] is what _build_shell_command did before its fix when no environment and no workdir was given.
        The semantics of cd/export/exit/pwd/echo is a model of sh (Frame/Model.v), exercised by the `seq` cases. *)
Theorem C25_shell_state_isolated : forall st0, s_alive st0 = true ->
  forall cs, run_state Wrapped st0 st0 cs = fresh_results st0 cs.
Proof. exact run_state_wrapped. Qed.
Theorem C25_shell_state_leak_refuted :
  run_state Bare st_demo st_demo [SCd "/tmp"; SPwd] = [("", 0%N); ("/tmp", 0%N)] /\
  fresh_results st_demo [SCd "/tmp"; SPwd] = [("", 0%N); ("/work", 0%N)] /\
  run_state Bare st_demo st_demo [SExport "FOO" "1"; SEcho "FOO"] = [("", 0%N); ("[1]", 0%N)] /\
  fresh_results st_demo [SExport "FOO" "1"; SEcho "FOO"] = [("", 0%N); ("[]", 0%N)] /\
  run_state Wrapped st_demo st_demo [SCd "/tmp"; SPwd; SExport "FOO" "1"; SEcho "FOO"; SExit 3; SPwd]
    = [("", 0%N); ("/work", 0%N); ("", 0%N); ("[]", 0%N); ("", 3%N); ("/work", 0%N)].
Proof. exact run_state_bare_leaks. Qed.

(* ---- the unquoted form export K="v": used by create_command before its fix and still by
        CommandTemplateMap (pinned by tests/test_connector.py::test_command_template): NOT verbatim.
        Witnesses: quotes vanish, $ and ` are expanded (None), an unbalanced quote is a syntax error
        (None), and a value can end the assignment and start another command. *)
Theorem C25_template_env_refuted :
  sh_lex (template_env (Some [("K", "a""b""c")])) = Some [W "export"; W "K=abc"] /\
  sh_lex (template_env (Some [("K", "$HOME")])) = None /\
  sh_lex (template_env (Some [("K", "`id`")])) = None /\
  sh_lex (template_env (Some [("K", "q""uote")])) = None /\
  sh_lex (template_env (Some [("K", "a""; touch x; echo """)])) =
     Some [W "export"; W "K=a"; Op ";"; W "touch"; W "x"; Op ";"; W "echo"; W ""].
Proof. exact template_export_not_verbatim. Qed.
Theorem C25_raw_workdir_refuted :
  sh_lex ("cd " ++ "/tmp/a b") = Some [W "cd"; W "/tmp/a"; W "b"] /\
  sh_lex ("cd " ++ "/tmp/x;y") = Some [W "cd"; W "/tmp/x"; Op ";"; W "y"] /\
  sh_lex ("cd " ++ "/tmp/$x") = None.
Proof. exact raw_not_verbatim. Qed.

(* ---- complete output and exit status through the persistent shell, for EVERY chunking.
        Hypotheses: the marker has no newline, and marker":" does not start inside the output (uuid
        uniqueness; [no_early] is the executable form).  [rest] is whatever the stream holds afterwards:
        it is left untouched. *)
Theorem C25_framing : forall marker out code,
  has_char nl marker = false ->
  no_early (marker ++ ":") out (dec code ++ String nl "") = true ->
  forall chunks acc rest,
  chunks <> [] -> (forall c, In c chunks -> c <> "") ->
  acc ++ cat chunks = out ++ (marker ++ ":") ++ dec code ++ String nl "" ->
  read_with_output marker acc (map Chunk chunks ++ rest)%list = (inl (py_strip out, code), rest).
Proof. exact read_chunks. Qed.

(* the hypothesis of C25_framing follows from: the marker contains no ':' (it is SF_CMD_END_<hex>) and
   marker":" is not a substring of the output *)
Theorem C25_marker_free : forall marker, has_char ":"%char marker = false ->
  forall out t, cut (marker ++ ":") out = None -> no_early (marker ++ ":") out t = true.
Proof. exact no_early_intro. Qed.

(* ---- FRAMING of a sequence of commands on one persistent shell, none timing out: GIVEN that the shell
        process emits, for each command, the bytes a fresh process would emit followed by the marker line
        ([wf_cmd]; that the shell state does not make it emit something else is C25_shell_state_isolated), every
        command is started once and run() returns exactly (strip out, code), with or without a trailing newline,
        whatever the exit codes, and the stream is clean for the next command *)
Theorem C25_sequence : forall flag cs outs sh,
  closed sh = true \/ pending sh = [] ->
  Forall2 (fun c oc => wf_cmd c (fst oc) (snd oc)) cs outs ->
  run_all flag sh cs = map (fun oc => (inl (py_strip (fst oc), snd oc), 1)) outs.
Proof. exact run_all_wf. Qed.

(* ---- after a timeout.  The code leaves the shell open ([close_on_timeout] = false in the model): the
        timed-out command is started a second time by the fall-back, and the command that follows returns the
        late output and the old end marker of the timed-out one in front of its own output.  Both are recorded as
        known findings (known/C25.txt); closing the shell inside the timeout handler is not a repair, because
        asyncio's Process.wait() then blocks until the timed-out command releases the pipe. *)
Definition c_to : cmd :=
  {| c_marker := "M1"; c_resp := [TimeoutEv; Chunk ("late" ++ response "M1" "" 0)]; c_fresh := inr ETimeout |}.
Definition c_three : cmd :=
  {| c_marker := "M2"; c_resp := [Chunk (response "M2" "three" 0)]; c_fresh := inr EHang |}.
Theorem C25_after_timeout_refuted :
  run_all false new_shell [c_to; c_three] =
    [(inr ETimeout, 2); (inl ("lateM1:0" ++ String nl "" ++ "three", 0%N), 1)] /\
  wf_cmd c_three "three" 0.
Proof.
  split; [vm_compute; reflexivity|].
  constructor; [reflexivity|reflexivity|].
  exists [response "M2" "three" 0]. repeat split; try discriminate.
  intros x [<-|[]]. discriminate.
Qed.
Theorem C25_exactly_once_after_timeout_refuted :
  exists c, snd (run false new_shell (c_marker c) (c_resp c) (c_fresh c)) = 2.
Proof. exists c_to. vm_compute. reflexivity. Qed.

(* what WOULD hold if a timeout discarded the shell (model parameter [close_on_timeout] = true; not the
   code): whatever the timed-out command still prints ([late]), the commands that follow are unaffected *)
Theorem C25_after_timeout_if_shell_discarded_partial : forall sh c1 cs outs late,
  closed sh = false ->
  read_with_output (c_marker c1) "" (pending sh ++ c_resp c1)%list = (inr ETimeout, late) ->
  Forall2 (fun c oc => wf_cmd c (fst oc) (snd oc)) cs outs ->
  run_all true sh (c1 :: cs) = (c_fresh c1, 2) :: map (fun oc => (inl (py_strip (fst oc), snd oc), 1)) outs.
Proof. exact timeout_then_wf. Qed.

(* ---- BaseConnector.run as a decision: persistent shell iff job_name is None and stdin is None, else a fresh
        process; capture_output selects _read_with_output / _read_without_output.  On the domain WITHOUT
        timeouts (clean shell, well-framed response) every combination starts the command exactly once, returns
        (strip out, code) / None through the shell or the fresh process's own result otherwise, and leaves the
        shell clean.  With a timeout the count is 2: C25_exactly_once_after_timeout_refuted. *)
Theorem C25_run_exactly_once_partial : forall flag sh q c out code fresh,
  clean sh -> wf_cmd c out code ->
  exists sh',
    run_any flag sh q (c_marker c) (c_resp c) fresh
    = (if use_shell q then inl (if r_capture q then Some (py_strip out, code) else None) else fresh,
       sh', 1, if use_shell q then ViaShell else ViaSubprocess)
    /\ clean sh'.
Proof. exact run_any_once. Qed.
Example C25_run_paths_example :
  use_shell {| r_job := false; r_stdin := false; r_capture := true |} = true /\
  use_shell {| r_job := true; r_stdin := false; r_capture := true |} = false /\
  use_shell {| r_job := false; r_stdin := true; r_capture := false |} = false /\
  run_any false new_shell {| r_job := false; r_stdin := false; r_capture := false |} "M2" (c_resp c_three) (inr EHang)
    = (inl None, new_shell, 1, ViaShell) /\
  snd (fst (run_any false new_shell {| r_job := false; r_stdin := false; r_capture := false |} "M1" (c_resp c_to) (inr ETimeout))) = 2.
Proof. repeat split; vm_compute; reflexivity. Qed.

(* ---- non-vacuity *)
Example C25_create_example :
  create_command (map quote ["printf"; "%s"; "a b"]) (Some [("K", "$HOME `id` ""q""")]) (Some "/tmp/my dir")
                 None SStdout SStdout
  = inl "cd '/tmp/my dir' && export K='$HOME `id` ""q""' && printf %s 'a b' 2>&1" /\
  key_ok "K" = true /\ cmd_ok (join " " (map quote ["printf"; "%s"; "a b"])) (map W ["printf"; "%s"; "a b"]).
Proof. split; [vm_compute; reflexivity|split; [reflexivity|apply cmd_ok_quoted; discriminate]]. Qed.
Example C25_framing_example :
  no_early ("SF_CMD_END_ab" ++ ":") "SF_CMD_END_a: x " (dec 3 ++ String nl "") = true /\
  read_with_output "SF_CMD_END_ab" "" [Chunk "SF_CMD_"; Chunk "END_a: x SF_CMD_END"; Chunk "_ab:3"; Chunk (String nl "next")]
  = (inl ("SF_CMD_END_a: x", 3%N), []).
Proof. split; vm_compute; reflexivity. Qed.
Example C25_sequence_example :
  wf_cmd c_three "three" 0.
Proof.
  constructor; [reflexivity|reflexivity|].
  exists [response "M2" "three" 0]. repeat split; try discriminate.
  intros x [<-|[]]. discriminate.
Qed.

Print Assumptions C25_quote_verbatim.
Print Assumptions C25_args_verbatim.
Print Assumptions C25_create_command_verbatim.
Print Assumptions C25_quoted_command_ok.
Print Assumptions C25_shell_wrapped.
Print Assumptions C25_shell_env.
Print Assumptions C25_shell_plain.
Print Assumptions C25_shell_state_isolated.
Print Assumptions C25_shell_state_leak_refuted.
Print Assumptions C25_template_env_refuted.
Print Assumptions C25_raw_workdir_refuted.
Print Assumptions C25_framing.
Print Assumptions C25_marker_free.
Print Assumptions C25_sequence.
Print Assumptions C25_run_exactly_once_partial.
Print Assumptions C25_after_timeout_refuted.
Print Assumptions C25_exactly_once_after_timeout_refuted.
Print Assumptions C25_after_timeout_if_shell_discarded_partial.
