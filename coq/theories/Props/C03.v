(* Props/C03.v — Ports deliver every token to every consumer exactly once, in order.
   Only statements here; every proof is [exact <lemma of Port/Proofs.v>].
   Vocabulary (Port/Model.v, Port/Proofs.v): a system is a list of ports, port 0 being a Port, a FilterTokenPort
   or an InterWorkflowPort and ports 1.. plain Ports (possible boundary targets); [run (init kind n) ops] gives
   the final state and, for every operation, the deliveries (port, consumer, token) it caused; [recv k c]
   projects the tokens Port.get returned to consumer c of port k, in order; [gets k c ops] counts its gets;
   [puts k ops] lists the tokens put on port k by the operations; [tl p] is token_list. *)
From Coq Require Import List Bool NArith Arith.
From SF Require Import Base.Str Port.Model Port.Proofs Port.Boundary.
Import ListNotations.
Local Open Scope string_scope. Local Open Scope list_scope.

(* Every consumer of every port (whatever its kind, boundary targets included) has received exactly the first
   k tokens of the port's history, k = number of gets it issued: every token exactly once, in order,
   including the tokens put before its first get; a get issued on an exhausted queue is served by the next
   token that enters the history. All operation histories, any number of consumers, ports and rules. *)
Theorem C03_delivery : forall kd n ops s es k p c,
  run (init kd n) ops = (s, es) -> nth_error (ports s) k = Some p ->
  recv k c (concat es) = firstn (gets k c ops) (tl p).
Proof. exact delivery. Qed.

(* plain Port: the history is the sequence of puts *)
Theorem C03_plain : forall n ops s es k c,
  run (init KPlain n) ops = (s, es) -> k < n ->
  recv k c (concat es) = firstn (gets k c ops) (puts k ops).
Proof. exact plain_delivery. Qed.

(* FilterTokenPort: the history is the sequence of admitted puts (termination tokens always pass) *)
Theorem C03_filter : forall a n ops s es c,
  run (init (KFilter a) n) ops = (s, es) -> 0 < n ->
  recv 0 c (concat es) = firstn (gets 0 c ops) (filter (admitted a) (puts 0 ops)).
Proof. exact filter_delivery. Qed.

(* "No consumer observes tokens after a termination token" is NOT a theorem of ports.  What holds (PARTIAL):
   a consumer's sequence is a prefix of the port's history, so a token seen after a termination token entered the
   history after it (C03_after_term_partial); hence on a plain port whose producers put nothing after a termination
   token nobody sees anything after it (C03_term_last_partial).  For an inter-workflow port the clause is REFUTED: a
   TERMINATE rule that is complete re-fires on every later token, so the port itself puts tokens and terminations
   after a termination token on the boundary target although no producer ever put a termination token
   (C03_inter_term_then_token_refuted; known finding inter/token-after-termination/completed-terminate-rule). *)
Theorem C03_after_term_partial : forall kd n ops s es k p c l1 st l2,
  run (init kd n) ops = (s, es) -> nth_error (ports s) k = Some p ->
  recv k c (concat es) = l1 ++ Term st :: l2 ->
  exists l3, tl p = l1 ++ Term st :: l2 ++ l3.
Proof. exact after_term. Qed.
Theorem C03_term_last_partial : forall n ops s es k c l1 st l2,
  run (init KPlain n) ops = (s, es) -> k < n ->
  (forall a b t, puts k ops = a ++ t :: b -> is_term t = true -> b = []) ->
  recv k c (concat es) = l1 ++ Term st :: l2 -> l2 = [].
Proof. exact term_last. Qed.

(* the same under producer discipline on a FilterTokenPort (termination tokens always pass the filter) *)
Theorem C03_term_last_filter_partial : forall acc n ops s es c l1 st l2,
  run (init (KFilter acc) n) ops = (s, es) -> 0 < n ->
  (forall a b t, puts 0 ops = a ++ t :: b -> is_term t = true -> b = []) ->
  recv 0 c (concat es) = l1 ++ Term st :: l2 -> l2 = [].
Proof. exact term_last_filter. Qed.

Theorem C03_inter_term_then_token_refuted :
  exists ops s es,
    run (init KInter 2) ops = (s, es) /\
    forallb (fun t => negb (is_term t)) (puts 0 ops) = true /\ puts 1 ops = [] /\
    recv 1 "x" (concat es) = [Tok 1 "0.1"; Term RECOVERED; Tok 2 "0.2"; Term RECOVERED].
Proof. exact inter_term_then_token_refuted. Qed.

(* InterWorkflowPort.  The history of every port of the system is what the queue-free expansion [trace] of the
   operations puts on it ... *)
Theorem C03_boundary_history : forall kd n ops s es k p,
  run (init kd n) ops = (s, es) -> nth_error (ports s) k = Some p ->
  tl p = pputs k (trace (init kd n) ops).
Proof. exact history_is_trace. Qed.
(* ... where one put shows the tag to every rule, fires every rule whose tag list is empty (token to the target
   if PROPAGATE, then Term RECOVERED if TERMINATE, in rule order) and keeps the token on the port itself iff no
   fired rule targets the port itself; ... *)
Theorem C03_boundary_put : forall s t,
  kind s = KInter -> is_term t = false ->
  step s (Put 0 t) =
  let rs' := map (remove_tag (tag_of t)) (rules s) in
  let '(ps, e) := prun (ports s)
                    (flat_map (fire_prims t) rs' ++ (if self_hit rs' then [] else [PPut 0 t])) in
  (mksys KInter ps rs', e).
Proof. exact boundary_put. Qed.
(* ... a rule added late is shown the non-termination tokens of the port's history first; ... *)
Theorem C03_boundary_add : forall s tgt tags pr te,
  kind s = KInter ->
  step s (AddInter tgt tags pr te) =
  let '(r', l) := replay_prims (mkrule pr te tgt tags)
                    (filter (fun t => negb (is_term t)) (self_tl (ports s))) in
  let '(ps, e) := prun (ports s) l in (mksys KInter ps (rules s ++ [r']), e).
Proof. exact boundary_add. Qed.
(* ... and a rule's tag list is empty exactly when the multiset of its boundary tags is covered by the multiset
   of the tags shown to it ("the boundary tag set is complete").
   (Kept from round 1; the composition into one formula is C03_boundary below.) *)
Theorem C03_boundary_complete_partial : forall (r : rule) (seen : list string),
  (is_satisfied (fold_left (fun r g => remove_tag g r) seen r) = true <->
   forall g, count_occ string_dec (rtags r) g <= count_occ string_dec seen g).
Proof. exact boundary_complete. Qed.

(* BOUNDARY, the composed formula.  [strace sinit ops] (Port/Boundary.v) is a specification computed from the operation
   history alone, without queues and without removing tags: a rule is (action, target, boundary tags T, tags shown to
   it so far); it is shown every non-termination token put on the port after it was added, and before that the
   non-termination tokens already in the port's history (replay); on being shown x it does, iff [covered T shown]
   (the multiset T is included in the multiset of shown tags, C03_boundary_covered), put x on its target if
   PROPAGATE and then Term RECOVERED if TERMINATE; rules act in the order they were added; the port itself keeps x
   iff no covered rule targets the port itself; termination tokens bypass the rules.
   The history of every port of the system -- the port itself (k = 0) and each boundary target -- is exactly what
   this specification puts on it, in order, for every operation history; and every consumer of every such port
   has received exactly the first (number of its gets) tokens of it. *)
Theorem C03_boundary : forall n ops s es k p,
  run (init KInter n) ops = (s, es) -> 0 < n -> nth_error (ports s) k = Some p ->
  tl p = pputs k (strace sinit ops).
Proof. exact boundary_formula. Qed.
Theorem C03_boundary_delivery : forall n ops s es k p c,
  run (init KInter n) ops = (s, es) -> 0 < n -> nth_error (ports s) k = Some p ->
  recv k c (concat es) = firstn (gets k c ops) (pputs k (strace sinit ops)).
Proof. exact boundary_delivery. Qed.
Theorem C03_boundary_covered : forall T seen,
  covered T seen = true <-> forall g, count_occ string_dec T g <= count_occ string_dec seen g.
Proof. exact covered_spec. Qed.
(* a complete rule stays complete: it acts on EVERY later token too, whatever its tag (and, if TERMINATE, sends
   Term RECOVERED after each of them).  Each token is still forwarded at most once per rule. *)
Theorem C03_boundary_rule_stays_complete : forall T seen more,
  covered T seen = true -> covered T (seen ++ more) = true.
Proof. exact covered_monotone. Qed.

(* ---- examples: hypotheses are satisfiable, headline instances ---- *)
(* a late subscriber, a blocked get served later, order preserved *)
Example C03_example_plain :
  let ops := [Get 0 "b"; Put 0 (Tok 1 "0.1"); Put 0 (Tok 2 "0.10"); Get 0 "a"; Put 0 (Term 4); Get 0 "a"; Get 0 "a"; Get 0 "b"] in
  let '(s, es) := run (init KPlain 1) ops in
  recv 0 "a" (concat es) = [Tok 1 "0.1"; Tok 2 "0.10"; Term 4] /\
  recv 0 "b" (concat es) = [Tok 1 "0.1"; Tok 2 "0.10"] /\ gets 0 "b" ops = 2.
Proof. vm_compute. repeat split; reflexivity. Qed.
(* the recovery wiring: PROPAGATE to the original port (1) and TERMINATE on self for the failed job's tag *)
Example C03_example_boundary :
  let ops := [AddInter 1 ["0.1"] true false; AddInter 0 ["0.1"] false true;
              Put 0 (Tok 7 "0.0"); Put 0 (Tok 8 "0.1"); Get 0 "a"; Get 0 "a"; Get 1 "x"] in
  let '(s, es) := run (init KInter 2) ops in
  map tl (ports s) = [[Tok 7 "0.0"; Term RECOVERED]; [Tok 8 "0.1"]] /\
  recv 1 "x" (concat es) = [Tok 8 "0.1"].
Proof. vm_compute. split; reflexivity. Qed.
(* a PROPAGATE rule for tag 0.1 towards port 1 also forwards the later tokens 0.2 and 0.0 (once each); the
   specification and the model agree *)
Example C03_example_complete_rule_forwards_later_tokens :
  let ops := [AddInter 1 ["0.1"] true false; Put 0 (Tok 1 "0.0"); Put 0 (Tok 2 "0.1"); Put 0 (Tok 3 "0.2");
              Put 0 (Tok 4 "0.0")] in
  let '(s, es) := run (init KInter 2) ops in
  map tl (ports s) = [[Tok 1 "0.0"; Tok 2 "0.1"; Tok 3 "0.2"; Tok 4 "0.0"]; [Tok 2 "0.1"; Tok 3 "0.2"; Tok 4 "0.0"]] /\
  pputs 1 (strace sinit ops) = [Tok 2 "0.1"; Tok 3 "0.2"; Tok 4 "0.0"].
Proof. vm_compute. split; reflexivity. Qed.
(* observation (not a finding, see design/notes/C03.md): a self-targeting PROPAGATE rule added after the token
   is already in the history puts it on the port a second time *)
Example C03_example_late_self_rule :
  let ops := [Put 0 (Tok 1 "0"); AddInter 0 ["0"] true false; Get 0 "a"; Get 0 "a"] in
  let '(s, es) := run (init KInter 1) ops in recv 0 "a" (concat es) = [Tok 1 "0"; Tok 1 "0"].
Proof. vm_compute. reflexivity. Qed.

Print Assumptions C03_delivery.
Print Assumptions C03_plain.
Print Assumptions C03_filter.
Print Assumptions C03_after_term_partial.
Print Assumptions C03_term_last_partial.
Print Assumptions C03_term_last_filter_partial.
Print Assumptions C03_inter_term_then_token_refuted.
Print Assumptions C03_boundary_history.
Print Assumptions C03_boundary_put.
Print Assumptions C03_boundary_add.
Print Assumptions C03_boundary_complete_partial.
Print Assumptions C03_boundary.
Print Assumptions C03_boundary_delivery.
Print Assumptions C03_boundary_covered.
Print Assumptions C03_boundary_rule_stays_complete.
