(* Props/C11.v — Released resources return exactly what was reserved.
   Proved: the release condition of notify_status is exactly "leaves Running, or leaves Fireable for something
   other than Running" (C11_release_condition), so a repeated notification of the same status never releases
   (C11_same_status_never_releases), only fireable/running jobs release (C11_only_active_release) and every exit
   from {Fireable, Running} releases (C11_leaving_active_releases); the arithmetic performed by
   _allocate_job then _free_resources on one location, (base + rq) - job_hardware + usage, never raises and
   gives back base's cores and memory and base + measured usage per mount point, for every base ledger,
   requirement and usage (C11_release_restores_partial: one location, one level; the induction over whole
   histories and several jobs is C11_release below, on the flat single-location domain);
   the model's free_loc / reserve_level perform exactly that arithmetic (C11_free_is_sub_then_add).
   Refuted: C11_out_of_order_running_refuted (the property text says "regardless of the order of notifications": FALSE of the code — a RUNNING
   notified after COMPLETED makes the job running again with nothing reserved and the next terminal notification releases twice: negative
   cores); C11_shared_inner_leak_refuted (known finding: doubled inner requirement reserved, single released). *)
From Coq Require Import List Bool ZArith NArith.
From SF Require Import Base.Str Hardware.Model Hardware.Proofs Sched.Model Sched.Proofs Sched.History Sched.Stacked Sched.StackedHist Sched.Witness Sched.Examples.
Import ListNotations.
Local Open Scope string_scope. Local Open Scope list_scope. Local Open Scope Z_scope.

Theorem C11_release_condition : forall prev new,
  releases prev new = true <->
  (prev = Running /\ new <> Running) \/ (prev = Fireable /\ new <> Fireable /\ new <> Running).
Proof. exact releases_spec. Qed.
Theorem C11_same_status_never_releases : forall s, releases s s = false.
Proof. exact releases_same. Qed.
Theorem C11_only_active_release : forall prev new, releases prev new = true -> is_active prev = true.
Proof. exact releases_only_active. Qed.
Theorem C11_leaving_active_releases : forall prev new,
  is_active prev = true -> is_active new = false -> releases prev new = true.
Proof. exact leaving_active_releases. Qed.

Theorem C11_release_restores_partial : forall base rq jh u,
  wf base -> wf rq -> wf u -> (jh = rq \/ normalized rq = Ok jh) ->
  exists s d r, hw_add base rq = Ok s /\ hw_sub s jh = Ok d /\ hw_add d u = Ok r /\
    cores r = cores base + cores u /\ mem r = mem base + mem u /\
    forall m, size_at r m = size_at base m + size_at u m.
Proof. exact free_after_reserve. Qed.

Theorem C11_free_is_sub_then_add : forall jh usage s nm cur u d r,
  lookup nm (hwloc s) = Some cur ->
  usage_hw jh (match lookup nm usage with Some x => x | None => None end) = Ok u ->
  hw_sub cur jh = Ok d -> hw_add d u = Ok r ->
  exists s', free_loc jh usage (Ok s) nm = Ok s' /\ lookup nm (hwloc s') = Some r /\ jobs s' = jobs s.
Proof. exact free_loc_ledger. Qed.

(* ---------------------------------------------------------------------------------------------------------
   C11_release — over whole histories, same domain and same [conformant] as C10_capacity (Props/C10.v): whatever
   the order of the notifications and however often a status is repeated, in any reachable state in which no job
   is fireable or running every ledger has cores = memory = 0 and, on every mount point, exactly the sum of what du
   measured for the released reservations ([measured] folds the du results along the history).
   C11_release_loc: the same for one location as soon as no fireable/running job sits on it. *)
Theorem C11_release : forall locs,
  (forall l1 l2, In l1 locs -> In l2 locs -> lv_name l1 = lv_name l2 -> l1 = l2) ->
  (forall l cap, In l locs -> lv_cap l = Some cap -> wfr cap /\ In "/" (mounts cap)) ->
  forall es st nm h,
  conformant locs init es -> run init es = Ok st ->
  (forall j a, In (j, a) (jobs st) -> is_active (a_status a) = false) ->
  lookup nm (hwloc st) = Some h ->
  cores h = 0 /\ mem h = 0 /\ forall m, size_at h m = measured init es g0 nm (MS m).
Proof. exact release_invariant. Qed.

Theorem C11_release_loc : forall locs,
  (forall l1 l2, In l1 locs -> In l2 locs -> lv_name l1 = lv_name l2 -> l1 = l2) ->
  (forall l cap, In l locs -> lv_cap l = Some cap -> wfr cap /\ In "/" (mounts cap)) ->
  forall es st nm h,
  conformant locs init es -> run init es = Ok st ->
  (forall j a, In (j, a) (jobs st) -> is_active (a_status a) = true -> loc_of a <> Some nm) ->
  lookup nm (hwloc st) = Some h ->
  cores h = 0 /\ mem h = 0 /\ forall m, size_at h m = measured init es g0 nm (MS m).
Proof. exact release_invariant_loc. Qed.

(* instance: the conformant history of Sched/Examples.v (repeated RUNNING and COMPLETED) ends with no fireable/running
   job, ledger of n0 = 0 cores, 0 memory, 3 on "/" = the measured usage *)
Example C11_release_hypotheses_met :
  conformant ex_locs init ex_history /\ no_active (run init ex_history) = true /\
  ledger (run init ex_history) "n0" = Some (mkhw 0 0 [("/", mkst "/" 3 ["/tmp"] None)]) /\
  measured init ex_history g0 "n0" (MS "/") = 3.
Proof. split; [exact ex_conformant|]. vm_compute. repeat split; reflexivity. Qed.

(* C11_release_stacked — chains of stacked levels, domain and [conformant2] as for C10_capacity_stacked (Props/C10.v):
   after any such history, in any state without fireable/running job, EVERY level's ledger (outer and inner) has
   cores = memory = 0 and per mount point exactly the du results of the releases.  The shared-inner leak
   (C11_shared_inner_leak_refuted) is a history whose release is not coherent with its reservation. *)
Theorem C11_release_stacked : forall locs,
  (forall l1 l2, In l1 locs -> In l2 locs -> lv_name l1 = lv_name l2 -> l1 = l2) ->
  (forall l cap, In l locs -> lv_cap l = Some cap -> wfr cap /\ In "/" (mounts cap)) ->
  forall es st nm h,
  conformant2 locs init (fun _ => []) es -> run init es = Ok st ->
  (forall j a, In (j, a) (jobs st) -> is_active (a_status a) = false) ->
  lookup nm (hwloc st) = Some h ->
  cores h = 0 /\ mem h = 0 /\ forall m, size_at h m = measured2 init (fun _ => []) es g0 nm (MS m).
Proof. exact release_stacked. Qed.

(* Wrapped but NOT stacked locations (AvailableLocation.wraps set, stacked = False: queue managers such as Slurm/PBS/Flux
   wrapping a host).  In the model a location is the chain of its STACKED levels only (loc, loc.wraps while loc.stacked),
   mirroring both walks of the code: _allocate_job (`loc := loc.wraps if loc.stacked else None`) and _free_resources
   (`[loc.wraps for loc in locations if loc.stacked]`).  Such a location is therefore the one-level chain [l], it is in the
   domain of C11_release_stacked / C10_capacity_stacked (and of the flat theorems), and for it the two theorems below say
   what holds below the first level: NOTHING is reserved (C11_unstacked_wrapper_reserves_first_level_only) and NOTHING is
   released (C11_unstacked_wrapper_releases_first_level_only) on any other location — in particular on the wrapped host,
   whose ledger keeps exactly the reservations of the jobs submitted to it directly. *)
Theorem C11_unstacked_wrapper_reserves_first_level_only : forall st job reqs l s',
  allocate st job reqs [[l]] = Ok s' -> lookup (req_key l) reqs <> None ->
  forall nm, nm <> lv_name l -> lookup nm (hwloc s') = lookup nm (hwloc st).
Proof. exact alloc_first_level_only. Qed.
Theorem C11_unstacked_wrapper_releases_first_level_only : forall st job new fls a st' l,
  lookup job (jobs st) = Some a -> notify st job new fls = Ok st' -> a_locs a = [[(lv_dep l, lv_name l)]] ->
  forall nm, nm <> lv_name l -> lookup nm (hwloc st') = lookup nm (hwloc st).
Proof. exact release_first_level_only. Qed.

Example C11_release_stacked_hypotheses_met :
  conformant2 st_locs init (fun _ => []) st_history /\ no_active (run init st_history) = true /\
  ledger (run init st_history) "c0" = Some (mkhw 0 0 [("/", mkst "/" 3 [] None)]) /\
  ledger (run init st_history) "h0" = Some (mkhw 0 0 [("/", mkst "/" 1 [] None)]) /\
  measured2 init (fun _ => []) st_history g0 "h0" (MS "/") = 1.
Proof. split; [exact st_conformant|]. vm_compute. repeat split; reflexivity. Qed.

(* a whole conformant history on a plain location: cores and memory back to 0, storage = measured usage 3 *)
Example C11_plain_history :
  ledger (run init plain_history) "n0" = Some (mkhw 0 0 [("/", mkst "/" 3 ["/tmp"] None)]) /\
  no_active (run init plain_history) = true.
Proof. vm_compute. split; reflexivity. Qed.

(* The unrestricted text ("regardless of the order of notifications", quantifier "duplicated and out-of-order
   notifications") is FALSE of notify_status: RUNNING, COMPLETED, RUNNING (late), COMPLETED releases twice.  Known finding
   (known/C11.txt, corpus/C11/known-*late-running*.json).  C11_release holds on the histories in which RUNNING is notified
   only to a fireable/running job ([conf]); duplicates of any status and any order of the other statuses are covered. *)
Theorem C11_out_of_order_running_refuted :
  exists h, ledger (run init double_release_history) "n0" = Some h /\ cores h = -2 /\ mem h = -4 /\
            no_active (run init double_release_history) = true.
Proof. eexists. vm_compute. repeat split; reflexivity. Qed.

Example C11_double_release_with_storage_raises :
  run init double_release_history_storage = Err NegativeSize.
Proof. vm_compute. reflexivity. Qed.

Theorem C11_shared_inner_leak_refuted :
  exists h, ledger (run init leak_history) "h0" = Some h /\ cores h = 2 /\ mem h = 1 /\
            no_active (run init leak_history) = true.
Proof. eexists. vm_compute. repeat split; reflexivity. Qed.

Print Assumptions C11_release_condition.
Print Assumptions C11_same_status_never_releases.
Print Assumptions C11_only_active_release.
Print Assumptions C11_leaving_active_releases.
Print Assumptions C11_release_restores_partial.
Print Assumptions C11_free_is_sub_then_add.
Print Assumptions C11_release.
Print Assumptions C11_release_loc.
Print Assumptions C11_release_stacked.
Print Assumptions C11_unstacked_wrapper_reserves_first_level_only.
Print Assumptions C11_unstacked_wrapper_releases_first_level_only.
Print Assumptions C11_out_of_order_running_refuted.
Print Assumptions C11_shared_inner_leak_refuted.
