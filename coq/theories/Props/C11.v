(* Props/C11.v — Released resources return exactly what was reserved.
   Proved: the release condition of notify_status is exactly "leaves Running, or leaves Fireable for something
   other than Running" (C11_release_condition), so a repeated notification of the same status never releases
   (C11_same_status_never_releases), only fireable/running jobs release (C11_only_active_release) and every exit
   from {Fireable, Running} releases (C11_leaving_active_releases); the arithmetic performed by
   _allocate_job then _free_resources on one location, (base + rq) - job_hardware + usage, never raises and
   gives back base's cores and memory and base + measured usage per mount point, for every base ledger,
   requirement and usage (C11_release_restores_partial: one location, one level; the induction over whole
   histories and several jobs is not proved — checked on real runs by oracle and correspondence);
   the model's free_loc / reserve_level perform exactly that arithmetic (C11_free_is_sub_then_add).
   Refuted: C11_double_release_needs_conformance (a non-conformant RUNNING after COMPLETED releases twice: negative
   cores); C11_shared_inner_leak_refuted (known finding: doubled inner requirement reserved, single released). *)
From Coq Require Import List Bool ZArith NArith.
From SF Require Import Base.Str Hardware.Model Hardware.Proofs Sched.Model Sched.Proofs Sched.Witness.
Import ListNotations.
Local Open Scope string_scope. Local Open Scope list_scope. Local Open Scope Z_scope.

Theorem C11_release_condition : forall prev new,
  releases prev new = true <->
  (prev = Running /\ new <> Running) \/ (prev = Fireable /\ new <> Fireable /\ new <> Running).
Proof. exact releases_spec. Qed.
Theorem C11_same_status_never_releases : forall s, releases s s = false.
Proof. exact releases_same. Qed.
Theorem C11_only_active_release : forall prev new, releases prev new = true -> is_active prev = true.
Proof. exact releases_only_active. Qed.
Theorem C11_leaving_active_releases : forall prev new,
  is_active prev = true -> is_active new = false -> releases prev new = true.
Proof. exact leaving_active_releases. Qed.

Theorem C11_release_restores_partial : forall base rq jh u,
  wf base -> wf rq -> wf u -> (jh = rq \/ normalized rq = Ok jh) ->
  exists s d r, hw_add base rq = Ok s /\ hw_sub s jh = Ok d /\ hw_add d u = Ok r /\
    cores r = cores base + cores u /\ mem r = mem base + mem u /\
    forall m, size_at r m = size_at base m + size_at u m.
Proof. exact free_after_reserve. Qed.

Theorem C11_free_is_sub_then_add : forall jh usage s nm cur u d r,
  lookup nm (hwloc s) = Some cur ->
  usage_hw jh (match lookup nm usage with Some x => x | None => None end) = Ok u ->
  hw_sub cur jh = Ok d -> hw_add d u = Ok r ->
  exists s', free_loc jh usage (Ok s) nm = Ok s' /\ lookup nm (hwloc s') = Some r /\ jobs s' = jobs s.
Proof. exact free_loc_ledger. Qed.

(* a whole conformant history on a plain location: cores and memory back to 0, storage = measured usage 3 *)
Example C11_plain_history :
  ledger (run init plain_history) "n0" = Some (mkhw 0 0 [("/", mkst "/" 3 ["/tmp"] None)]) /\
  no_active (run init plain_history) = true.
Proof. vm_compute. split; reflexivity. Qed.

Theorem C11_double_release_needs_conformance :
  exists h, ledger (run init double_release_history) "n0" = Some h /\ cores h = -2 /\ mem h = -4 /\
            no_active (run init double_release_history) = true.
Proof. eexists. vm_compute. repeat split; reflexivity. Qed.

Example C11_double_release_with_storage_raises :
  run init double_release_history_storage = Err NegativeSize.
Proof. vm_compute. reflexivity. Qed.

Theorem C11_shared_inner_leak_refuted :
  exists h, ledger (run init leak_history) "h0" = Some h /\ cores h = 2 /\ mem h = 1 /\
            no_active (run init leak_history) = true.
Proof. eexists. vm_compute. repeat split; reflexivity. Qed.

Print Assumptions C11_release_condition.
Print Assumptions C11_same_status_never_releases.
Print Assumptions C11_only_active_release.
Print Assumptions C11_leaving_active_releases.
Print Assumptions C11_release_restores_partial.
Print Assumptions C11_free_is_sub_then_add.
Print Assumptions C11_double_release_needs_conformance.
Print Assumptions C11_shared_inner_leak_refuted.
