(* Props/C16.v — Recovered runs produce the same outputs as failure-free runs.
   Only statements here; every proof is [exact <lemma of Recovery/Proofs.v>]. *)
From Coq Require Import List NArith ZArith Lia.
From Coq Require Import Sorting.Sorted Sorting.Permutation.
From SF Require Import Base.Str Tags.Model Recovery.Model Recovery.Proofs Recovery.Budget Recovery.BudgetSync Recovery.InjectModel Recovery.InjectProofs Recovery.Corr Retry.Model.
Import ListNotations.
Local Open Scope string_scope. Local Open Scope list_scope.

(* SAFETY OF THE MODEL (partial w.r.t. the code).  In the job-DAG model of Recovery/Model.v -- one value per job, an execution
   computes the job function from the values present in the store, an execution with a missing input changes nothing --
   for every well-formed DAG and EVERY history of executions and data losses, every output that exists equals the
   failure-free output.  This holds by the construction of the model: stale, duplicated or wrongly tagged tokens, and the
   machinery that could produce them (_inject_tokens, build_graph, Step.restore, InterWorkflowPort), are NOT expressible in
   it.  What it says about the code is: IF a real run is a history of this kind, its outputs are right.  That a real run is
   of this kind is established only per run, by the check: the recorded history is replayed (Recovery/Corr.v:run_checked --
   every completed execution must be [enabled], i.e. its inputs exist in the model) and the delivered output is compared
   with the model's store and with the failure-free denotation, plus the oracle.  Findings 3-5 are real runs that are NOT of
   this kind. *)
Theorem C16_same_outputs_partial : forall (val : Type) (d : dag val),
  well_formed d -> forall evs i v, run d evs empty i = Some v -> failure_free d i = Some v.
Proof. exact recovered_equals_failure_free'. Qed.

(* the failure-free run gives every job a value, and these values are the job functions applied to the
   inputs' values (so the statement above is not vacuous and "failure-free output" means what it should) *)
Theorem C16_failure_free_total : forall (val : Type) (dflt : val) (d : dag val),
  well_formed d -> forall i, i < length d -> failure_free d i = Some (den val dflt d i).
Proof. exact failure_free_total. Qed.
Theorem C16_failure_free_fixpoint : forall (val : Type) (dflt : val) (d : dag val),
  well_formed d -> forall i j, nth_error d i = Some j ->
  den val dflt d i = fn j (map (den val dflt d) (inputs j)).
Proof. exact den_fixpoint. Qed.

(* LIVENESS, partial: from ANY state reached by ANY history, one rollback that re-executes the failed job and,
   recursively, the producers of its unavailable inputs (and meets no further failure) yields exactly the
   failure-free output; it never destroys an available value.
   Missing w.r.t. the property text: the retry budget (that "each job fails fewer times than the limit"
   suffices for the real manager to grant every rollback -- it does not, see C16_completes_refuted), failures
   during the rollback itself (they are just a longer history, to which this theorem applies again), and the
   real provenance-graph search choosing this set (property C18). *)
Theorem C16_rollback_completes_partial : forall (val : Type) (dflt : val) (d : dag val),
  well_formed d -> forall evs out, out < length d ->
  ensure d (S out) (run d evs empty) out out = failure_free d out.
Proof. exact rollback_completes. Qed.
Theorem C16_rollback_only_adds : forall (val : Type) (d : dag val) fuel s i k v,
  s k = Some v -> exists v', ensure d fuel s i k = Some v'.
Proof. exact ensure_mono'. Qed.

(* LIVENESS WITH THE RETRY BUDGET (partial).  A managed history is a list of failures, each with the outputs lost with it
   and the rollback set the engine chose (Recovery/Budget.v: granted iff every member's version < limit, then all
   versions +1 and the members are re-executed in order).  If every rollback set is CLOSED w.r.t. the store it is applied
   to (it contains the failed job; every input of a member is available or an earlier member: [all_closed]) and for EVERY
   job   1 + (number of rollbacks that re-execute it)  <=  limit   -- re-executions demanded by the job's own failures AND
   by its consumers' failures, which is what the code counts (finding 1) -- then from any state that agrees with the
   failure-free run: no rollback is ever refused, right after each rollback the failed job's output exists again
   ([recovered_all]: the run can go on from there), the versions are exactly 1 + demand, and every value in the store is
   the failure-free one.  Partial: the hypothesis is about demanded re-executions, not about failures as the property text
   says (C16_completes_refuted shows the text's hypothesis is too weak); closedness of the engine's real rollback sets is
   property C18; concurrency of recoveries is not modelled (C19); the model has no correspondence leg of its own (its
   counter is tied to Retry/Model.v by C16_budget_matches_retry_counter, which C17's correspondence ties to the code). *)
Theorem C16_completes_partial : forall (val : Type) (dflt : val) (d : dag val) L h s0,
  well_formed d -> agrees val dflt d s0 ->
  all_closed val d (Some L) (m0 val s0) h = true ->
  (forall j, (1 + demand h j <= L)%N) ->
  exists m', mrun val d (Some L) (m0 val s0) h = Some m' /\
             recovered_all val d (Some L) (m0 val s0) h /\
             (forall j, mver val m' j = (1 + demand h j)%N) /\
             agrees val dflt d (mst val m').
Proof. exact completes_within_budget. Qed.
(* ... and every granted rollback whose set is closed (contains the failed job; every input of a member is available or an
   earlier member) makes the failed job's output exist again *)
Theorem C16_rollback_recovers : forall (val : Type) (dflt : val) (d : dag val) lim m f m',
  well_formed d -> closed_b val d (mst val m) f = true -> mstep val d lim m f = Some m' ->
  mst val m' (failed f) <> None.
Proof. exact mstep_recovers. Qed.
(* THE BOUNDARY: a history is granted only if that budget holds for every job it rolls back; so the condition of
   C16_completes_partial is exactly what the retry counter enforces, and finding 1 (known/C16.txt) sits on it. *)
Theorem C16_budget_is_tight : forall (val : Type) (d : dag val) (L : N) (h : list failure) (s0 : store val) m',
  mrun val d (Some L) (m0 val s0) h = Some m' -> forall j : nat, (demand h j > 0)%N -> (1 + demand h j <= L)%N.
Proof. exact granted_only_within_budget. Qed.

(* The counter of Recovery/Budget.v is the counter of Retry/Model.v: on a duplicate-free rollback set none of whose jobs is
   recovering, [granted] holds iff [synchronize] (the model of _synchronize_workflows tied to the code by C17) does not raise,
   and then both leave the same versions.  ([synchronize] increments as it goes and keeps earlier increments when it raises --
   the run is aborted then -- and skips recovering requests, which Budget.v does not model.) *)
Theorem C16_budget_matches_retry_counter : forall (val : Type) (name : nat -> string),
  (forall a b, name a = name b -> a = b) ->
  forall L vs (m : mstate val) S,
  NoDup S -> represents val name vs m ->
  snd (synchronize (Some L) vs (plain (map name S))) = negb (granted val (Some L) m S) /\
  (granted val (Some L) m S = true ->
   forall m' d f, mstep val d (Some L) m f = Some m' -> rset f = S ->
   represents val name (fst (synchronize (Some L) vs (plain (map name S)))) m').
Proof. exact budget_matches_retry_counter. Qed.

(* _inject_tokens (after fix 62ae2d6), one port of a recovery workflow: what is put is exactly the available tokens of the
   port, each once, in the numeric depth-first order of their tags (0.9 before 0.10; C33's order), strictly increasing -- so
   a step of the recovery workflow sees the regenerated inputs in the order a failure-free run delivers them; and the
   exception is raised exactly when two available tokens carry the same tag.  For every list of tokens, any tags, any
   length. *)
Theorem C16_inject_order : forall l ids,
  inject l = Some ids ->
  exists s, ids = map pid s /\ Permutation (filter pavail l) s /\ StronglySorted tle s /\ NoDup (map ptag s) /\
            (forall pre a mid b post, s = pre ++ a :: mid ++ b :: post -> (compare_tags (ptag a) (ptag b) < 0)%Z).
Proof. exact inject_spec. Qed.
Theorem C16_inject_error_iff_duplicate_tag : forall l,
  inject l = None <-> ~ NoDup (map ptag (filter pavail l)).
Proof. exact inject_error_iff. Qed.
Example C16_inject_example :
  inject [pt 1 [0; 10] true; pt 2 [0; 2] true; pt 3 [0; 9] false; pt 4 [0] true; pt 5 [0; 9] true]%N = Some [4; 2; 5; 1]%N /\
  inject [pt 1 [0; 1] true; pt 2 [0; 1] true]%N = None /\ inject [pt 1 [0; 1] true; pt 2 [0; 1] false]%N = Some [1%N].
Proof. vm_compute. repeat split; reflexivity. Qed.

(* REFUTED half of the text: "each job fails fewer times than the retry limit => the run completes".
   The retry counter counts re-executions, not failures: in a 3-job pipeline with limit 2 where /s1 and /s2
   each fail once with loss of data, the second rollback must re-execute /s0 a third time and the manager
   raises although no job failed twice.  (Replayed on the real engine: corpus/C16/domino.json.) *)
Theorem C16_completes_refuted :
  exists (m : N) (h : list rollback) (failed : list string),
    failed = ["/s1/0"; "/s2/0"] /\ (forall j : string, (N.of_nat (count_occ string_dec failed j) < m)%N) /\
    h = [[("/s0/0", false); ("/s1/0", false)]; [("/s2/0", false); ("/s0/0", false); ("/s1/0", false)]] /\
    snd (synchronize (Some m) (run_history (Some m) [] (firstn 1 h)) (nth 1 h [])) = true.
Proof.
  exists 2%N, [[("/s0/0", false); ("/s1/0", false)]; [("/s2/0", false); ("/s0/0", false); ("/s1/0", false)]],
         ["/s1/0"; "/s2/0"].
  split; [reflexivity|]. split; [|split; [reflexivity|vm_compute; reflexivity]].
  intros j. cbn [count_occ].
  destruct (string_dec "/s1/0" j) as [E1|N1]; destruct (string_dec "/s2/0" j) as [E2|N2].
  - exfalso. rewrite <- E1 in E2. discriminate E2.
  - vm_compute; reflexivity.
  - vm_compute; reflexivity.
  - vm_compute; reflexivity.
Qed.

(* non-vacuity: a concrete pipeline with the harness's job functions, a fail-stop history, the same output *)
Definition ex_dag : dag cval := [jb [] (OConstS "seed"); jb [0] (OCat "s0"); jb [1] (OCat "s1"); jb [2] (OCat "s2")].
Example C16_example :
  wf_b ex_dag = true /\
  failure_free ex_dag 3 = Some (VS "seed|s0|s1|s2") /\
  (* s0, s1 run; s2's attempt fails and wipes everything but the workflow input; rollback re-runs s0, s1, s2 *)
  run ex_dag [Exec 0; Exec 1; Exec 2; Lose 1; Lose 2; Exec 3; Exec 1; Exec 2; Exec 3] empty 3 = Some (VS "seed|s0|s1|s2") /\
  run ex_dag [Exec 0; Exec 1; Exec 2; Lose 1; Lose 2; Exec 3] empty 3 = None /\
  ensure ex_dag 4 (run ex_dag [Exec 0; Exec 1; Exec 2; Lose 1; Lose 2; Exec 3] empty) 3 3 = Some (VS "seed|s0|s1|s2").
Proof. vm_compute. repeat split; reflexivity. Qed.
(* the domino of finding 1 in the budget model: limit 3 grants both rollbacks, limit 2 refuses the second *)
Example C16_budget_example :
  let h := [mkfail 2 [1; 2] [1; 2]; mkfail 3 [1; 2; 3] [1; 2; 3]] in
  let s := run ex_dag [Exec 0; Exec 1] empty in
  demand h 1 = 2%N /\
  (exists m', mrun cval ex_dag (Some 3%N) (m0 cval s) h = Some m' /\ mst cval m' 3 = Some (VS "seed|s0|s1|s2")) /\
  mrun cval ex_dag (Some 2%N) (m0 cval s) h = None /\
  all_closed cval ex_dag (Some 3%N) (m0 cval s) h = true.
Proof. vm_compute. repeat split; try reflexivity. eexists. split; reflexivity. Qed.
(* closedness matters: an empty rollback set is "within budget" for limit 1 but recovers nothing *)
Example C16_closedness_needed :
  let h := [mkfail 3 [1; 2; 3] []] in let s := run ex_dag [Exec 0; Exec 1; Exec 2; Exec 3] empty in
  (forall j, (1 + demand h j <= 1)%N) /\ all_closed cval ex_dag (Some 1%N) (m0 cval s) h = false /\
  (exists m', mrun cval ex_dag (Some 1%N) (m0 cval s) h = Some m' /\ mst cval m' 3 = None).
Proof.
  split; [intros j; vm_compute; discriminate|]. split; [vm_compute; reflexivity|].
  eexists. split; vm_compute; reflexivity.
Qed.
Lemma ex_dag_wf : well_formed ex_dag.
Proof.
  intros i j H k Hk.
  do 4 (destruct i as [|i];
        [simpl in H; inversion H; subst; simpl in Hk; repeat (destruct Hk as [<-|Hk]; [lia|]); contradiction|]).
  destruct i; discriminate H.
Qed.

Print Assumptions C16_same_outputs_partial.
Print Assumptions C16_failure_free_total.
Print Assumptions C16_failure_free_fixpoint.
Print Assumptions C16_rollback_completes_partial.
Print Assumptions C16_rollback_only_adds.
Print Assumptions C16_completes_refuted.
Print Assumptions C16_completes_partial.
Print Assumptions C16_rollback_recovers.
Print Assumptions C16_budget_is_tight.
Print Assumptions C16_budget_matches_retry_counter.
Print Assumptions C16_inject_order.
Print Assumptions C16_inject_error_iff_duplicate_tag.
