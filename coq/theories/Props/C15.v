(* Props/C15.v — Each scheduled job gets its own existing working directories.
   Model: JobDirs/Model.v on top of the C21 registry model.  [fresh] is utils.random_name (uuid4), assumed
   injective.  PARTIAL with respect to the text: the file system is an abstract set of directories (the real
   mkdir is only exercised by the correspondence: local location and shell-backed nodes); symbolic-link work
   directories are not modelled.  ASSUMPTION named here because the code relies on it silently:
   _set_job_directories replaces the three directories by resolve() evaluated on the FIRST allocated location only
   and _schedule then registers that one string on ALL locations - "the real path of a job directory is the same on
   every allocated location" (true in the model and the harness, where realpath = directory everywhere). *)
From Coq Require Import List Bool Arith.
From SF Require Import Base.Str Base.Corr DataReg.Model DataReg.Rereg JobDirs.Model JobDirs.Proofs.
Import ListNotations.
Local Open Scope string_scope. Local Open Scope list_scope.

(* directories that the step does not fix are distinct for distinct (job, role), also across targets with
   different work directories, for any number of jobs.  The content of this theorem is small and should be read
   for what it is: job_dir = workdir ++ [fresh (3k + role)], so distinctness IS the injectivity of [fresh]
   (uuid4, an assumption) transported through the path construction and the role numbering. *)
Theorem C15_distinct_unless_fixed : forall fresh : nat -> string,
  (forall a b, fresh a = fresh b -> a = b) ->
  forall w1 w2 f1 f2 k1 k2 r1 r2,
    fixed_of f1 r1 = None -> fixed_of f2 r2 = None ->
    job_dir fresh w1 f1 k1 r1 = job_dir fresh w2 f2 k2 r2 -> w1 = w2 /\ k1 = k2 /\ r1 = r2.
Proof. exact job_dir_distinct. Qed.
(* a drawn directory never coincides with another job's FIXED directory that lies outside the drawing job's work
   directory (no hypothesis on [fresh]).  A fixed directory placed directly under the work directory can coincide
   with a drawn one only by guessing the uuid; that case is not excluded by any theorem. *)
Theorem C15_drawn_differs_from_fixed : forall fresh w1 w2 f1 f2 k1 k2 r1 r2 d,
  fixed_of f1 r1 = None -> fixed_of f2 r2 = Some d -> beneath w1 d = false ->
  job_dir fresh w1 f1 k1 r1 <> job_dir fresh w2 f2 k2 r2.
Proof. exact job_dir_vs_fixed. Qed.
(* a fixed directory is used verbatim.  [Some d] stands for a NON-EMPTY directory string: _get_directory is
   `directory or join(workdir, random_name())`, so a fixed "" is falsy and a name is drawn; the harness maps both
   None and "" to the model's None (and exercises ""), so [Some] never stands for the empty string. *)
Theorem C15_fixed_verbatim : forall fresh w f k r d, fixed_of f r = Some d -> job_dir fresh w f k r = d.
Proof. exact job_dir_fixed. Qed.

(* after mkdir -p the directory (and each ancestor) exists on that location, and stays when others are made *)
Theorem C15_exists_partial : forall key p x a, In a (prefixes p) -> fs_isdir (mkdir_p key p x) key a = true.
Proof. exact mkdir_p_isdir. Qed.
Theorem C15_exists_stays_partial : forall key p x k a, fs_isdir x k a = true -> fs_isdir (mkdir_p key p x) k a = true.
Proof. exact mkdir_p_keeps. Qed.

(* after the registration loop of _schedule every directory of the job is registered as available on every
   allocated location, whatever the registry's state was (earlier jobs, invalidations, relations) *)
Theorem C15_registered : forall tab s locs dirs li d,
  In li locs -> In d dirs ->
  available (reg_dirs tab s (loc_dirs locs dirs)) d (key_of tab li) = true.
Proof.
  intros. apply (reg_dirs_available tab (loc_dirs locs dirs) s (li, d)). apply in_loc_dirs; assumption.
Qed.
(* and later jobs' registrations do not take it away *)
Theorem C15_registered_stays : forall tab s l p key,
  available s p key = true -> available (reg_dirs tab s l) p key = true.
Proof. intros. eapply available_le; [apply le_reg_dirs|assumption]. Qed.

(* the same with the code's realpath branch (a directory that resolves elsewhere on a location is registered there as
   SYMBOLIC_LINK after its real path has been registered as PRIMARY): for EVERY file-system answer [realpath], every
   directory of the job is available on every allocated location after the loop, and so is the real path of a
   directory that had to be registered and resolves elsewhere *)
Theorem C15_registered_realpath : forall tab realpath s locs dirs li d,
  In li locs -> In d dirs ->
  available (reg_dirs_rp tab realpath s (loc_dirs locs dirs)) d (key_of tab li) = true.
Proof.
  intros. apply (reg_dirs_rp_available tab realpath (loc_dirs locs dirs) s (li, d)). apply in_loc_dirs; assumption.
Qed.
Theorem C15_realpath_registered : forall tab realpath s e,
  available s (snd e) (key_of tab (fst e)) = false -> realpath e <> snd e ->
  available (reg_dir_rp tab realpath s e) (realpath e) (key_of tab (fst e)) = true.
Proof. exact reg_dir_rp_realpath. Qed.
Example C15_realpath_example :
  let tab := [mkloc ("nodes", "n1") false None []; mkloc ("nodes", "n2") false None []] in
  let rp := realpath_of ["wd"] ["realwd"] [1] in
  let s := reg_dirs_rp tab rp init (loc_dirs [0; 1] [["wd"; "u0"]]) in
  rp (1, ["wd"; "u0"]) = ["realwd"; "u0"] /\ rp (0, ["wd"; "u0"]) = ["wd"; "u0"] /\
  available s ["wd"; "u0"] ("nodes", "n2") = true /\ available s ["realwd"; "u0"] ("nodes", "n2") = true /\
  available s ["realwd"; "u0"] ("nodes", "n1") = false.
Proof. vm_compute. repeat split; reflexivity. Qed.

Example C15_example :
  let fresh := fun n => nth n ["u0"; "u1"; "u2"; "u3"; "u4"; "u5"] "" in
  let f := mkfixed None (Some ["data"; "out"]) None in
  job_dirs fresh ["wd"] f 0 = [["wd"; "u0"]; ["data"; "out"]; ["wd"; "u2"]] /\
  job_dirs fresh ["wd"] f 1 = [["wd"; "u3"]; ["data"; "out"]; ["wd"; "u5"]] /\
  fixed_of f RIn = None /\ fixed_of f ROut = Some ["data"; "out"] /\ beneath ["wd"] ["data"; "out"] = false.
Proof. vm_compute. repeat split; reflexivity. Qed.
Example C15_registered_example :
  let tab := [mkloc ("__LOCAL__", "__LOCAL__") true None []] in
  available (reg_dirs tab init (loc_dirs [0] [["wd"; "u0"]; ["data"; "out"]])) ["data"; "out"] ("__LOCAL__", "__LOCAL__") = true.
Proof. vm_compute. reflexivity. Qed.

Print Assumptions C15_distinct_unless_fixed.
Print Assumptions C15_fixed_verbatim.
Print Assumptions C15_drawn_differs_from_fixed.
Print Assumptions C15_exists_partial.
Print Assumptions C15_exists_stays_partial.
Print Assumptions C15_registered.
Print Assumptions C15_registered_stays.
Print Assumptions C15_registered_realpath.
Print Assumptions C15_realpath_registered.
