(* C27 — Batch jobs complete only after leaving the queue.

   Model: Queue/Model.v, an event-level transition system of QueueManagerConnector.run's polling protocol
   (record, clear the one-slot cache under the lock, poll cached or fresh `squeue -j <all recorded>` listings),
   TTL expiry and job departure as events that may happen at any time, and undeploy.  A trace is a list of
   events; [accept q0 tr = Some s] says every event of tr obeys the rule of the code at that point.  The
   theorems quantify over ALL accepted traces (any number of jobs, any interleaving, any expiry pattern).
   What is `_partial`: the rules themselves (that the code performs exactly these events under these guards,
   e.g. that ClearBy j happens with no squeue in flight because of _jobs_cache_lock) are tied to the code by
   the correspondence run, not derived from a coroutine-level model; Slurm state names, scontrol parsing and
   the output/exit-code retrieval (own_result) are exercised only. *)
From Coq Require Import List Bool Arith.
From SF Require Import Queue.Model Queue.Proofs Queue.Coroutine Queue.Refine.
Import ListNotations.

(* run() leaves its polling loop for job j (Unrecord j) only when j is no longer queued *)
Theorem C27_after_queue_partial : forall tr s j s',
  accept q0 tr = Some s -> qstep s (Unrecord j) = Some s' -> ~ In j (queue s).
Proof. exact after_queue_step. Qed.

(* ... and a finished job is never in the queue afterwards *)
Theorem C27_finished_not_queued_partial : forall tr s j,
  accept q0 tr = Some s -> In j (finished s) -> ~ In j (queue s).
Proof. exact after_queue. Qed.

(* the reason: every listing consulted (cached or in flight) contains every job that is recorded, has cleared
   the cache after recording itself and is still queued *)
Theorem C27_listings_complete_partial : forall tr s l,
  accept q0 tr = Some s -> (cache s = Some l \/ inflight s = Some l) -> complete s l.
Proof. exact listings_complete. Qed.

(* undeploy cancels exactly the ids recorded in _scheduled_jobs when it started *)
Theorem C27_undeploy_partial : forall tr s ids s' l,
  accept q0 tr = Some s -> qstep s (Cancel ids) = Some s' -> snap s = Some l -> ids = l.
Proof. exact undeploy_exact. Qed.

(* hypotheses are satisfiable by a non-trivial trace (two overlapping jobs, a listing in flight while the
   second job is recorded, an expiry, an undeploy); and a trace in which a job leaves the loop on a listing
   older than its own record is rejected *)
Example C27_accepted_example :
  exists s, accept q0 [Submit 1; Record 1; ClearBy 1; ListStart [1]; Submit 2; Record 2; Listing [1] [1];
                       ClearBy 2; Expire; ListStart [1; 2]; Leave 1; Listing [1; 2] [2]; Unrecord 1;
                       UndeployStart; Cancel [2]; ListStart [2]; Listing [2] []; Unrecord 2; UndeployEnd] = Some s
            /\ finished s = [2; 1] /\ queue s = [].
Proof. exact accepted_example. Qed.
Example C27_stale_listing_rejected :
  accept q0 [Submit 1; Record 1; ClearBy 1; ListStart [1]; Listing [1] [1]; Leave 1;
             Submit 2; Record 2; Unrecord 2] = None.
Proof. exact stale_listing_rejected. Qed.

(* --- coroutine-level refinement (sixth round) ---
   Queue/Coroutine.v models run()'s await points (submit call / reply, the lock acquisition before the cache
   clear, the lock acquisition of each poll, the squeue call in flight with the lock held, the polling sleep) as
   a transition system over jobs, _scheduled_jobs, the cache slot and the lock holder; an execution is any list
   of actions (one atomic stretch of one job, or a job leaving the queue, or a TTL expiry; actions that are not
   enabled are skipped).  Every execution emits a trace that the event-level model ACCEPTS: the guards of
   ClearBy (no squeue in flight), ListStart (nothing in flight, argument = _scheduled_jobs), Listing and
   Unrecord now follow from the coroutine structure (the lock) instead of being observed on traces.
   Still `_partial`: the coroutine system itself is hand-written from the code (tied to it by reading and by the
   event-level correspondence run, not by a coroutine-level correspondence kind); asyncio.Lock is abstracted to
   "free or held" (its FIFO hand-over only removes behaviours); cachebox's inner per-key lock is not modelled
   (it never contends under _jobs_cache_lock).  Final round: undeploy() IS part of the coroutine system (snapshot /
   scancel in flight / `_scheduled_jobs = {}`, interleaving freely with the jobs), and so is the KeyError of a
   run() that pops its id from the replaced dictionary (program counter PFailed, event PopMissing). *)
Theorem C27_coroutine_refines_partial : forall acts,
  exists q, accept q0 (snd (cexec c0 acts)) = Some q.
Proof. exact coroutine_trace_accepted. Qed.

(* hence, for every execution of the coroutine system: a job whose run() left the polling loop is not queued *)
Theorem C27_after_queue_coroutine_partial : forall acts j,
  cpc (fst (cexec c0 acts)) j = PDone -> ~ In j (cq (fst (cexec c0 acts))).
Proof. exact coroutine_after_queue. Qed.

Example C27_coroutine_ex :
  let acts := [ASubmit 1; ASubmitRet 1; ASubmit 2; AClear 1; APoll 1; ASubmitRet 2; AClear 2; AListRet 1; AWake 1;
               AClear 2; ALeave 1; APoll 2; AListRet 2; APoll 1; AWake 2; AExpire; APoll 2; ALeave 2; AListRet 2] in
  cpc (fst (cexec c0 acts)) 1 = PDone /\ cpc (fst (cexec c0 acts)) 2 = PDone /\ cq (fst (cexec c0 acts)) = [].
Proof. vm_compute. repeat split; reflexivity. Qed.

(* once undeploy() has returned, every job recorded when it started is out of the queue, for every interleaving
   of its three stretches with submissions, polls, leaves and expiries (jobs submitted but not yet recorded are
   NOT covered: C27_unrecorded_job_survives_undeploy_refuted) *)
Theorem C27_undeploy_cancels_recorded_coroutine_partial : forall acts,
  cund (fst (cexec c0 acts)) = UDone ->
  exists l, csnap (fst (cexec c0 acts)) = Some l /\ forall x, In x l -> ~ In x (cq (fst (cexec c0 acts))).
Proof. exact coroutine_undeploy_cancels. Qed.

Example C27_coroutine_undeploy_ex :
  let acts := [ASubmit 1; ASubmitRet 1; AClear 1; ASubmit 2; APoll 1; AUndStart; ASubmitRet 2; AListRet 1; ACancel;
               AClear 2; AUndEnd; AWake 1; APoll 2; AListRet 2; APoll 1] in
  let c := fst (cexec c0 acts) in
  cund c = UDone /\ csnap c = Some [1] /\ cpc c 1 = PFailed /\ cpc c 2 = PFailed /\ cq c = [2].
Proof. vm_compute. repeat split; reflexivity. Qed.

Print Assumptions C27_undeploy_cancels_recorded_coroutine_partial.

Print Assumptions C27_coroutine_refines_partial.
Print Assumptions C27_after_queue_coroutine_partial.

(* --- undeploy exactness is about the RECORDED jobs only: a job whose sbatch has run but whose id is not yet in
   _scheduled_jobs when undeploy() takes its snapshot is not cancelled and stays queued (accepted trace; replayed on
   the real code with a two-phase fake sbatch: known finding undeploy-exact/unrecorded-at-undeploy).
   C27_undeploy_partial above only says that the cancelled ids are the snapshot. *)
Theorem C27_unrecorded_job_survives_undeploy_refuted :
  exists tr s, accept q0 tr = Some s /\ In UndeployEnd tr /\ queue s = [1] /\ sched s = [1].
Proof.
  exists [Submit 1; UndeployStart; UndeployEnd; Record 1]. eexists. split; [vm_compute; reflexivity|].
  simpl. repeat split; auto.
Qed.

Print Assumptions C27_unrecorded_job_survives_undeploy_refuted.

Print Assumptions C27_after_queue_partial.
Print Assumptions C27_finished_not_queued_partial.
Print Assumptions C27_listings_complete_partial.
Print Assumptions C27_undeploy_partial.
