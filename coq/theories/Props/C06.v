(* Props/C06.v — Loops emit the last/all iteration values in iteration order, for any count.
   Only statements here; every proof is [exact <lemma of Loop/Proofs.v>].

   Vocabulary.  [loop_run pol arr] is CWLLoopOutput{All,Last}Step.run fed the token sequence [arr] on its
   single input port.  A loop instance is a pair (t, es): prefix tag t (the tag of the loop's inputs, e.g.
   one scatter element) and the iteration tokens es, which carry the tags t.0 ... t.(k-1) ([inst_ok]);
   its arrivals [liarr] are those tokens and IterationTerminationToken(t.k).
   [lexpected OutAll (t,es)] = ListToken(tag t, es in iteration order);
   [lexpected OutLast (t,es)] = the token of iteration k-1 retagged t, or Token(None) tagged t when k = 0. *)
From Coq Require Import List NArith ZArith Permutation.
From SF Require Import Base.Str Base.Dec Tags.Model Gather.Model Gather.Proofs Loop.Model Loop.Proofs Loop.Net Loop.NetProofs Loop.NetReal Loop.CombK Loop.NetG Loop.NetGProofs Loop.NetGReal Loop.NetK Loop.NetKProofs Loop.NetKReal.
Import ListNotations.
Local Open Scope string_scope. Local Open Scope list_scope.

(* THE PROPERTY at the level of the loop output step: any number of instances with pairwise distinct prefixes,
   any iteration counts (0 and >= 10 included), ANY arrival order of all their tokens, then the termination
   token: the step has not terminated before it, every output was already emitted by then, the outputs are
   exactly one per instance (as a multiset) with the values in iteration order / the last value, and the step
   then terminates. *)
Theorem C06_step : forall (pol : policy) (insts : list inst) (arr : list larr),
  Forall inst_ok insts -> NoDup (map ikey insts) -> Permutation arr (all_larr insts) ->
  let s0 := loop_run pol arr in
  let s := loop_run pol (arr ++ [LTerm Completed]) in
  lfinal s0 = None /\ lout s = lout s0
  /\ Permutation (lout s) (map (lexpected pol) insts)
  /\ lfinal s = Some (match insts with [] => Skipped | _ => Completed end).
Proof. exact loop_step_thm. Qed.

(* the same with the termination token carrying ANY status (a loop whose instances all iterate zero times delivers
   SKIPPED on the real engine): same outputs, the final status follows the status *)
Theorem C06_step_any_status : forall (pol : policy) (insts : list inst) (arr : list larr) (st : status),
  Forall inst_ok insts -> NoDup (map ikey insts) -> Permutation arr (all_larr insts) ->
  let s0 := loop_run pol arr in
  let s := loop_run pol (arr ++ [LTerm st]) in
  lfinal s0 = None /\ lout s = lout s0
  /\ Permutation (lout s) (map (lexpected pol) insts)
  /\ lfinal s = Some (get_status (reduce_statuses [Skipped; st]) (match insts with [] => true | _ => false end)).
Proof. exact loop_step_thm_st. Qed.

(* the same, read per policy *)
Theorem C06_step_all : forall (insts : list inst) (arr : list larr),
  Forall inst_ok insts -> NoDup (map ikey insts) -> Permutation arr (all_larr insts) ->
  Permutation (lout (loop_run OutAll (arr ++ [LTerm Completed])))
              (map (fun i => ListTok (render (fst i)) (snd i)) insts).
Proof. exact loop_step_all. Qed.
Theorem C06_step_last : forall (insts : list inst) (arr : list larr),
  Forall inst_ok insts -> NoDup (map ikey insts) -> Permutation arr (all_larr insts) ->
  Permutation (lout (loop_run OutLast (arr ++ [LTerm Completed])))
              (map (fun i => retag (last (snd i) (Tok "0" "null")) (render (fst i))) insts).
Proof. exact loop_step_last. Qed.

(* ordering is by the NUMBER in the last tag component: whatever order the iterations arrived in *)
Theorem C06_sort_canonical : forall (t : tag) es p,
  t <> [] -> elems_ok t es -> Permutation p es -> sort_last p = es.
Proof. exact sort_last_canonical. Qed.

(* "never terminates before every instance has emitted": FALSE for the step as written once a termination
   token can overtake an instance's tokens.  all(self.termination_map) iterates the dict's keys, so at the first
   termination token the step leaves whenever token_map is non-empty (and has no empty key), complete or not. *)
Theorem C06_all_dict_keys : forall pol s st,
  lfinal s = None -> aget "" (ltoken_map s) = None -> aget "" (lsize_map s) = None ->
  let s' := loop_step pol s (LTerm st) in
  lout s' = lout s /\
  lfinal s' = Some (get_status (reduce_statuses [lstatus s; st]) (match lout s with [] => true | _ => false end)).
Proof. exact term_exits. Qed.
Theorem C06_no_early_exit_refuted :
  exists pol arr, let s := loop_run pol arr in
    (* iteration 0 of instance "0" arrived, its second iteration and its iteration-termination did not *)
    arr = [LTok (Tok "0.0" "1"); LTerm Completed] /\ lfinal s <> None /\ lout s = [].
Proof. exists OutAll, [LTok (Tok "0.0" "1"); LTerm Completed]. vm_compute. repeat split; discriminate. Qed.
(* so the clause holds for the step exactly under the hypothesis of C06_step (all tokens of every instance
   precede the termination token); C06_no_early_exit below proves, for the translator's wiring, that the termination
   token reaches the step only after every instance has emitted *)
Theorem C06_no_early_exit_partial : forall (pol : policy) (insts : list inst) (arr : list larr),
  Forall inst_ok insts -> NoDup (map ikey insts) -> Permutation arr (all_larr insts) ->
  lfinal (loop_run pol arr) = None /\
  Permutation (lout (loop_run pol arr)) (map (lexpected pol) insts).
Proof. exact loop_no_early_exit_under_order. Qed.

(* THE WIRING (Loop/Net.v: the sub-network the translator builds -- input forwarder, LoopCombinatorStep with its
   iteration_termination_checklist, loop-when step with its skip port, body, output and back-propagation forwarders,
   loop output step, loop-terminator with LoopTerminationCombinator -- as an interleaving transition system over FIFO
   ports): in EVERY reachable state, for every loop condition [cont], every behaviour [lstep] of the loop output
   step and every family of instances of equal tag depth, if the loop output step has taken a termination token
   (or one is on its way to it on E or behind the output forwarder) then it has already emitted an output for every
   instance.  With C06_step (what is emitted) this is the last clause of the property for the real wiring.
   Scope: one loop variable, COMPLETED terminations, body emitting one token per token. *)
Theorem C06_no_early_exit :
  forall (LS : Type) (lstep : LS -> atok -> LS * list tag * bool) (linit0 : LS) (cont : tag -> bool)
         (insts : list tag) (d : nat),
  1 <= d -> (forall p, In p insts -> length p = d) ->
  forall s, reach LS lstep linit0 cont insts s ->
  (lgot s = true \/ In ATerm (qE s) \/ In ATerm (qFo s)) ->
  forall p, In p insts -> In p (emitted s).
Proof. exact no_early_exit. Qed.
(* the proviso built into Loop/Net.v (L puts its own termination token on O only after it has taken one from E)
   holds of LoopOutputStep.run: it never leaves its loop on a termination-free input *)
Theorem C06_loop_output_runs_until_term : forall pol l,
  (forall a, In a l -> lprefix a <> None) -> lfinal (loop_run pol l) = None.
Proof. exact loop_run_no_term. Qed.
(* the state "L has taken the termination token" is reachable (one instance, zero iterations, 11 moves) *)
Theorem C06_no_early_exit_nonvacuous :
  exists s, reach unit ex_lstep tt ex_cont [[0%N]] s /\ lgot s = true /\ emitted s = [[0%N]] /\ cterm s = true.
Proof. exact ex_run. Qed.

(* END TO END (Loop/NetReal.v): the wiring of Loop/Net.v with its loop output step instantiated by the model of
   CWLLoopOutput{All,Last}Step.run ([rstep]: tags rendered to the strings the Python code sees, outputs parsed back),
   a deterministic body ([val t] = the value it produces for the iteration tagged t) and any loop condition [cont].
   For any family of instances (pairwise distinct, equal tag depth), in EVERY reachable state -- i.e. under every
   interleaving of the seven moves -- :
   (a) as long as the loop output step has not taken a termination token it has not terminated;
   (b) once it has, every instance p ran exactly [k p] iterations, [k p] being the first index at which the
       condition is false (0 and >= 10 included), and the step has emitted exactly one token per instance (as a
       multiset): the values [val p.0 ... val p.(k p - 1)] in iteration order (all) / the last of them or null
       (last), tagged p -- and only then terminated.
   Proof: a second invariant (Inv3) giving every instance a phase (unstarted / its single control token in front of
   the loop-when step / on its way back / decided) together with the exact multiset of its tokens that went
   towards L, preserved by the seven moves; C06_no_early_exit; C06_step for what L makes of that multiset. *)
Theorem C06_loop_network :
  forall (pol : policy) (val : tag -> string) (tst : status) (cont : tag -> bool) (insts : list tag) (d : nat),
  1 <= d -> (forall p, In p insts -> length p = d) -> NoDup insts ->
  forall s, rreach pol val tst cont insts s ->
  (lgot s = false -> lfinal (fst (ls s)) = None) /\
  (lgot s = true ->
     let k := kof s in
     (forall p, In p insts -> (forall j, j < k p -> cont (itag p j) = true) /\ cont (itag p (k p)) = false) /\
     Permutation (lout (fst (ls s))) (map (fun p => lexpected pol (p, iters val p (k p))) insts) /\
     (* [tst] = the status carried by the termination token that reaches the step: COMPLETED gives COMPLETED
        (SKIPPED without instances), SKIPPED -- what the engine delivers when no instance iterates -- gives SKIPPED *)
     lfinal (fst (ls s)) = Some (get_status (reduce_statuses [Skipped; tst]) (match insts with [] => true | _ => false end))).
Proof. exact loop_network. Qed.
(* a reachable state of that network in which L has taken the termination token: one instance, one iteration, the
   iteration-termination token overtaking the iteration token on the way to L (16 moves) *)
Theorem C06_loop_network_nonvacuous :
  exists s, rreach OutAll ex_val Completed ex_cont1 [[0%N]] s /\ lgot s = true /\
            lout (fst (ls s)) = [ListTok "0" [Tok "0.0" "0.0"]] /\ kof s [0%N] = 1.
Proof. exact ex_real_run. Qed.

(* ===== k input variables, m outputs (Loop/NetK.v) =====
   The network the translator builds for a loop with k input variables and m outputs: k input forwarders,
   LoopCombinatorStep reading k ports (per-port checklist and `terminated`, dot-product join by tag: Loop/CombK.v,
   tied to the real step by the correspondence), the loop-when step taking one token from each of its k ports per
   turn (so the variables travel as one stream from the combinator on), the body, m output forwarders and m loop
   output steps, k back-propagation forwarders, the loop-terminator joining the m outputs and signalling all k ports.
   Method: every (input variable, output) projection of that network moves by the moves of Loop/NetG.v -- the
   one-variable network of Loop/Net.v in which "read" and "emit" of the two joining steps are separate moves
   ([sim_reach]); the two invariants are re-proved for NetG (Loop/NetGProofs.v, Loop/NetGReal.v). *)
Theorem C06_projection_k :
  forall (LS : Type) (lstep : nat -> LS -> atok -> LS * list tag * bool) (linit0 : nat -> LS) (cont : tag -> bool)
         (insts : list tag) (k m i0 j0 : nat),
  i0 < k -> j0 < m ->
  forall s, kreach LS lstep linit0 cont insts k m s ->
  greach LS (lstep j0) (linit0 j0) cont insts (pi LS i0 j0 s).
Proof. exact sim_reach. Qed.

(* safety, any k >= 1 and m: a termination token reaches (or is on its way to) the loop output step of output j only
   after that step has emitted an output for every instance -- for every loop condition, every behaviour of the
   loop output steps, every interleaving *)
Theorem C06_no_early_exit_k :
  forall (LS : Type) (lstep : nat -> LS -> atok -> LS * list tag * bool) (linit0 : nat -> LS) (cont : tag -> bool)
         (insts : list tag) (k m d : nat),
  1 <= k -> 1 <= d -> (forall p, In p insts -> length p = d) ->
  forall s, kreach LS lstep linit0 cont insts k m s ->
  forall j, j < m ->
  (nlgot s j = true \/ In ATerm (nqE s j) \/ In ATerm (nqFo s j)) ->
  forall p, In p insts -> In p (nemitted s j).
Proof. exact no_early_exit_k. Qed.

(* END TO END, any k >= 1 and m: loop output step of output j = the model of CWLLoopOutput{All,Last}Step.run with
   policy [polf j]; body value of output j at iteration t = [valf j t]; any condition; any family of pairwise
   distinct instances of equal depth; every reachable state (= every interleaving): for every output j,
   (a) until its loop output step has taken a termination token it has not terminated;
   (b) once it has, every instance p ran exactly [kiter s p] iterations (condition true on p.0 .. , false on
       p.(kiter s p); 0 and >= 10 included) and that step has emitted exactly one token per instance -- the values of
       output j in iteration order (all) / the last one or null (last) -- and only then terminated. *)
Theorem C06_loop_network_k :
  forall (polf : nat -> policy) (valf : nat -> tag -> string) (tstf : nat -> status) (cont : tag -> bool)
         (insts : list tag) (k m d : nat),
  1 <= k -> 1 <= d -> (forall p, In p insts -> length p = d) -> NoDup insts ->
  forall s, kreal polf valf tstf cont insts k m s ->
  forall j, j < m ->
  (nlgot s j = false -> lfinal (fst (nls s j)) = None) /\
  (nlgot s j = true ->
     (forall p, In p insts -> (forall i, i < kiter s p -> cont (G.itag p i) = true) /\ cont (G.itag p (kiter s p)) = false) /\
     Permutation (lout (fst (nls s j)))
                 (map (fun p => lexpected (polf j) (p, G.iters (valf j) p (kiter s p))) insts) /\
     lfinal (fst (nls s j)) = Some (get_status (reduce_statuses [Skipped; tstf j]) (match insts with [] => true | _ => false end))).
Proof. exact loop_network_k. Qed.
(* two input variables, two outputs (all / last), one instance, zero iterations: 20 moves reach the state in which
   both loop output steps have taken their termination token *)
Theorem C06_loop_network_k_nonvacuous :
  exists s, kreal ex_polf ex_valf ex_tstf ex_cont0 [[0%N]] 2 2 s /\ nlgot s 0 = true /\ nlgot s 1 = true /\
            lout (fst (nls s 0)) = [ListTok "0" []] /\ lout (fst (nls s 1)) = [Tok "0" "null"] /\
            lfinal (fst (nls s 0)) = Some Skipped.
Proof. exact ex_k_run. Qed.

(* k loop variables, STEP level only (Loop/CombK.v: LoopCombinatorStep with k input ports, per-port checklists and
   `terminated`, the dot-product join of the k ports by tag, one re-tagging per combination; tied to the real step
   with 2 and 3 ports by the correspondence): what the network proofs use of the combinator step, port-wise, for any
   k and any sequence of (port, token) arrivals: *)
(* run() returns only when EVERY port has delivered its termination token and EVERY port's checklist is empty *)
Theorem C06_combinator_k_exit : forall k (arr : list (nat * atok)),
  kdone (ck_run k arr) = true ->
  forall i, i < k -> In i (kterm (ck_run k arr)) /\ (forall t, ~ In (i, t) (kchk (ck_run k arr))).
Proof. exact ck_done_inv. Qed.
(* a token read on port i whose prefix is not on that port's checklist puts its tag there ... *)
Theorem C06_combinator_k_checklist_add : forall k s i t,
  kdone s = false -> armed s i = true -> ~ In (i, pre t) (kchk s) -> In (i, t) (kchk (ck_step k s (i, AT t))).
Proof. exact ck_adds. Qed.
(* ... and only an IterationTerminationToken with that tag read on the same port takes it off *)
Theorem C06_combinator_k_checklist_keep : forall k s x i t,
  In (i, t) (kchk s) -> x <> (i, AI t) -> In (i, t) (kchk (ck_step k s x)).
Proof. exact ck_keeps. Qed.
Example C06_combinator_k_example :
  let arr := [(0, AT [0%N]); (1, AT [0%N]); (0, ATerm); (1, ATerm); (0, AI [0%N])] in
  kdone (ck_run 2 arr) = false /\ kdone (ck_run 2 (arr ++ [(1, AI [0%N])])) = true /\
  kout (ck_run 2 arr) = [(0, AT [0%N; 0%N]); (1, AT [0%N; 0%N])].
Proof. vm_compute. repeat split; reflexivity. Qed.

(* LoopCombinator: the first combination of an instance t gets t.0; the one built from the tokens of
   iteration c gets t.(c+1) -- for any state of the counters of the other instances, hence any interleaving *)
Theorem C06_iteration_tags_first : forall im (t : tag),
  t <> [] -> aget (drop_last_s 1 (render t)) im = None ->
  loop_retag im (render t) = (aset (render t) 0%N im, render (t ++ [0%N])).
Proof. exact loop_retag_first. Qed.
Theorem C06_iteration_tags_next : forall im (t : tag) c,
  t <> [] -> aget (render t) im = Some c ->
  loop_retag im (render (t ++ [c])) = (aset (render t) (N.succ c) im, render (t ++ [N.succ c])).
Proof. exact loop_retag_next. Qed.

(* ---- non-vacuity / headline instances ---- *)
Definition ex_iters (p : string) (k : nat) : list tok :=
  map (fun i => Tok (String.append p (String.append "." (dec (N.of_nat i)))) (dec (N.of_nat (100 + i)))) (seq 0 k).
(* two scatter elements around a loop: 12 iterations arriving in reverse order, and 0 iterations *)
Example C06_twelve_reversed_and_zero :
  let arr := [LIter "0.1.0"] ++ map LTok (rev (ex_iters "0.0" 12)) ++ [LIter "0.0.12"; LTerm Completed] in
  lout (loop_run OutAll arr) = [ListTok "0.1" []; ListTok "0.0" (ex_iters "0.0" 12)]
  /\ lout (loop_run OutLast arr) = [Tok "0.1" "null"; Tok "0.0" "111"]
  /\ lfinal (loop_run OutAll arr) = Some Completed.
Proof. vm_compute. repeat split; reflexivity. Qed.
Example C06_step_hyps :
  let insts : list inst := [([0;0]%N, ex_iters "0.0" 12); ([0;1]%N, [])] in
  Forall inst_ok insts /\ NoDup (map ikey insts) /\ length (all_larr insts) = 14
  /\ map ikey insts = ["0.0"; "0.1"].
Proof.
  split.
  - repeat constructor; try discriminate.
  - split; [repeat constructor; simpl; intuition discriminate|]. split; reflexivity.
Qed.
Example C06_iteration_tags_example :
  loop_retags [] ["0.0"; "0.1"; "0.0.0"; "0.1.0"; "0.0.1"] = ["0.0.0"; "0.1.0"; "0.0.1"; "0.1.1"; "0.0.2"].
Proof. vm_compute. reflexivity. Qed.

Print Assumptions C06_step.
Print Assumptions C06_step_any_status.
Print Assumptions C06_step_all.
Print Assumptions C06_step_last.
Print Assumptions C06_sort_canonical.
Print Assumptions C06_all_dict_keys.
Print Assumptions C06_no_early_exit_refuted.
Print Assumptions C06_no_early_exit_partial.
Print Assumptions C06_no_early_exit.
Print Assumptions C06_loop_output_runs_until_term.
Print Assumptions C06_loop_network.
Print Assumptions C06_loop_network_nonvacuous.
Print Assumptions C06_no_early_exit_nonvacuous.
Print Assumptions C06_projection_k.
Print Assumptions C06_no_early_exit_k.
Print Assumptions C06_loop_network_k.
Print Assumptions C06_loop_network_k_nonvacuous.
Print Assumptions C06_combinator_k_exit.
Print Assumptions C06_combinator_k_checklist_add.
Print Assumptions C06_combinator_k_checklist_keep.
Print Assumptions C06_iteration_tags_first.
Print Assumptions C06_iteration_tags_next.
