(* Props/C21.v — The data-location registry answers consistently with its history.
   Statements only; proofs are in DataReg/Proofs.v and DataReg/Rereg.v.  The model is DataReg/Model.v (the code
   after /repo commit 6a12257 "fix: make re-registered paths available again in the data manager").

   What is NOT proved here (see design/notes/C21.md): the full "exactly when" characterisation of availability
   by the history (only exercised by the correspondence + oracle), the downward propagation of an invalidation
   to everything beneath the path, and isolation between locations. *)
From Coq Require Import List Bool Arith.
From SF Require Import Base.Str Base.Corr DataReg.Model DataReg.Proofs DataReg.Rereg.
Import ListNotations.
Local Open Scope string_scope. Local Open Scope list_scope.

(* "re-registering a path makes it available again" — and every ancestor directory with it — in EVERY state
   (no assumption on the history: any relations, invalidations, wrapped locations before), for every location
   table, path depth and data type other than INVALID *)
Theorem C21_reregister_available : forall tab s li p t,
  t <> INVALID ->
  forall a, a = p \/ In a (ancestors p) ->
  available (fst (register tab s li p t)) a (key_of tab li) = true.
Proof. exact register_available. Qed.

(* "the source location chosen for a transfer is always a valid primary copy": whatever get_source_location
   returns is PRIMARY and is among the locations get_data_locations reports (hence not INVALID), in every state *)
Theorem C21_source_valid : forall tab s p dst r,
  In r (source_candidates tab s p dst) ->
  exists x, hget s r = Some x /\ dl_type x = PRIMARY /\ In r (get_dl s p None None None).
Proof. exact source_valid. Qed.

(* registrations and relations never take anything away: every object keeps its contents and every node keeps
   its objects (only invalidate_location makes a path unavailable) *)
Theorem C21_register_monotone_partial : forall tab s li p t np key lp,
  has_valid s np key lp = true -> has_valid (fst (register tab s li p t)) np key lp = true.
Proof.
  intros. unfold register, alloc. simpl. eapply has_valid_le; [|eassumption].
  eapply le_trans; [apply le_alloc|]. eapply le_trans; [apply le_put_rec|apply le_reg_inner].
Qed.
Theorem C21_relate_monotone_partial : forall s r1 r2 np key lp,
  has_valid s np key lp = true -> has_valid (relate s r1 r2) np key lp = true.
Proof. intros. eapply has_valid_le; [apply le_relate|eassumption]. Qed.

(* The text's "available exactly when ... not invalidated since" is FALSE of the faithful model (known finding
   reports-invalidated/dupreg): register /b/a, register / (already registered as an ancestor: register_path
   hands out a second object for the same copy), relate them, invalidate "/" — "/b/a" is still reported at the
   invalidated copy d1/n1:"/". *)
Definition one_loc := [mkloc ("d1", "n1") false None []].
Theorem C21_invalidated_copy_reported_refuted :
  exists tab ops l q p,
    let s := rs (run tab (ops ++ [Inv l q])) in
    existsb (fun r => match item_of s r with
                      | Some (k, q', t) => key_eqb k (key_of tab l) && path_eqb q' q && dtype_eqb t PRIMARY
                      | None => false
                      end) (get_dl s p None None None) = true.
Proof.
  exists one_loc, [Reg 0 ["b"; "a"] PRIMARY; Reg 0 [] PRIMARY; Rel 0 1], 0, [], ["b"; "a"].
  vm_compute. reflexivity.
Qed.

(* headline instance (DESIGN.md §6 item 6, refuted before the fix): /b/y is available again *)
Example C21_design_item6 :
  let s := rs (run one_loc [Reg 0 ["a"; "x"] PRIMARY; Reg 0 ["b"; "y"] PRIMARY; Rel 0 1; Inv 0 ["a"; "x"]]) in
  available s ["b"; "y"] ("d1", "n1") = false /\
  available (fst (register one_loc s 0 ["b"; "y"] PRIMARY)) ["b"; "y"] ("d1", "n1") = true /\
  ancestors ["b"; "y"] = [["b"]; []].
Proof. vm_compute. repeat split; reflexivity. Qed.
Example C21_source_example :
  let s := rs (run one_loc [Reg 0 ["a"; "x"] PRIMARY]) in
  source_candidates one_loc s ["a"; "x"] "d1" = [0].
Proof. vm_compute. reflexivity. Qed.

Print Assumptions C21_reregister_available.
Print Assumptions C21_source_valid.
Print Assumptions C21_register_monotone_partial.
Print Assumptions C21_relate_monotone_partial.
Print Assumptions C21_invalidated_copy_reported_refuted.
