(* Props/C21.v — The data-location registry answers consistently with its history.
   Statements only; proofs are in DataReg/Proofs.v, Rereg.v and Inval.v.  The model is DataReg/Model.v (the code
   after /repo commits 6a12257 "fix: make re-registered paths available again in the data manager" and 8b8c381
   "fix: invalidate the whole subtree of a path in the data manager").

   What is only PARTIALLY proved (see design/notes/C21.md): the "exactly when" characterisation of availability by
   the history is proved as a refinement of a history-based specification on the domain of registrations (on
   locations that wrap no other location) and invalidations (C21_refines_partial); with relations and wrapped
   locations the pointwise theorems below hold (registration footprint, invalidation footprint, isolation,
   monotonicity) but the exact characterisation is only exercised by the correspondence + oracle, and is known to be
   false for duplicate objects (C21_invalidated_copy_reported_refuted). *)
From Coq Require Import List Bool Arith.
From SF Require Import Base.Str Base.Corr DataReg.Model DataReg.Proofs DataReg.Rereg DataReg.Inval DataReg.Refine DataReg.Mounts.
Import ListNotations.
Local Open Scope string_scope. Local Open Scope list_scope.

(* "re-registering a path makes it available again" — and every ancestor directory with it — in EVERY state
   (no assumption on the history: any relations, invalidations, wrapped locations before), for every location
   table, path depth and data type other than INVALID *)
Theorem C21_reregister_available : forall tab s li p t,
  t <> INVALID ->
  forall a, a = p \/ In a (ancestors p) ->
  available (fst (register tab s li p t)) a (key_of tab li) = true.
Proof. exact register_available. Qed.

(* "the source location chosen for a transfer is always a valid primary copy".
   PARTIAL, and little more than the definition: whatever get_source_location returns has data_type PRIMARY and is
   one of the objects get_data_locations(path) reports (immediate from the PRIMARY / not-INVALID filters).  It does
   NOT say that the copy the object stands for is still valid - see the two theorems below. *)
Theorem C21_source_valid_partial : forall tab s p dst r,
  In r (source_candidates tab s p dst) ->
  exists x, hget s r = Some x /\ dl_type x = PRIMARY /\ In r (get_dl s p None None None).
Proof. exact source_valid. Qed.
(* on histories of registrations (no wrapping) and invalidations the chosen source IS a valid primary copy: it is
   PRIMARY, it is the copy of the requested path itself, and that path is available on the source's location *)
Theorem C21_source_valid_plain_partial : forall tab h p dst r,
  nowrap tab -> Forall d1_op h ->
  let s := rs (run tab h) in
  In r (source_candidates tab s p dst) ->
  exists x, hget s r = Some x /\ dl_type x = PRIMARY /\ dl_path x = p /\ available s p (dl_loc x) = true.
Proof. exact source_valid_plain. Qed.
(* in general the clause is FALSE of the faithful model (the duplicate-object known finding seen through
   get_source_location, signature source-valid/dupreg): register /a/a twice, register /z, relate(/z, the second
   object), invalidate /a/a - get_source_location("/z", "d1") can only return d1/n1:/a/a, a copy whose own path is
   no longer available on that location *)
Theorem C21_source_valid_refuted :
  exists tab ops p dst r x,
    let s := rs (run tab ops) in
    source_candidates tab s p dst = [r] /\ hget s r = Some x /\ dl_type x = PRIMARY /\
    available s (dl_path x) (dl_loc x) = false.
Proof.
  exists [mkloc ("d1", "n1") false None []],
         [Reg 0 ["a"; "a"] PRIMARY; Reg 0 ["a"; "a"] PRIMARY; Reg 0 ["z"] PRIMARY; Rel 2 1; Inv 0 ["a"; "a"]],
         ["z"], "d1", 3, (mkdloc ("d1", "n1") ["a"; "a"] PRIMARY).
  vm_compute. repeat split; reflexivity.
Qed.

(* registrations and relations never take anything away: every object keeps its contents and every node keeps
   its objects (only invalidate_location makes a path unavailable) *)
Theorem C21_register_monotone_partial : forall tab s li p t np key lp,
  has_valid s np key lp = true -> has_valid (fst (register tab s li p t)) np key lp = true.
Proof.
  intros. unfold register, alloc. simpl. eapply has_valid_le; [|eassumption].
  eapply le_trans; [apply le_alloc|]. eapply le_trans; [apply le_put_rec|apply le_reg_inner].
Qed.
Theorem C21_relate_monotone_partial : forall s r1 r2 np key lp,
  has_valid s np key lp = true -> has_valid (relate s r1 r2) np key lp = true.
Proof. intros. eapply has_valid_le; [apply le_relate|eassumption]. Qed.

(* "Invalidating a path on a location also invalidates everything registered beneath it on that location":
   in EVERY state (any history, including the duplicate-object known finding), after a successful
   invalidate_location(l, p) no path at or beneath p is available on l.  (False of the code before 8b8c381.) *)
Theorem C21_invalidate_subtree : forall s key p s' q,
  invalidate s key p = (s', IOk) -> beneath p q = true -> available s' q key = false.
Proof. exact invalidate_subtree. Qed.

(* "... and nothing on other locations": in every state reachable by a history of registrations, relations and
   invalidations (any location table), invalidate_location on l leaves the tree and every object of any other
   location untouched, hence every get_data_locations answer restricted to another location is the same list of
   the same objects with the same contents *)
Theorem C21_isolation : forall tab ops key p,
  let s := rs (run tab ops) in
  let s' := fst (invalidate s key p) in
  nodes s' = nodes s /\
  (forall r d, hget s r = Some d -> dl_loc d <> key -> hget s' r = Some d) /\
  (forall key' q t, key' <> key ->
     get_dl s' q (Some (fst key')) (Some (snd key')) t = get_dl s q (Some (fst key')) (Some (snd key')) t /\
     forall r, In r (get_dl s q (Some (fst key')) (Some (snd key')) t) -> hget s' r = hget s r).
Proof.
  intros tab ops key p s s'. assert (W : wfk s) by apply wfk_reachable.
  destruct (invalidate_isolation s key p W) as [N H]. repeat split; try assumption.
  - apply (invalidate_isolation_get s key p key' q t W H0).
  - apply (invalidate_isolation_get s key p key' q t W H0).
Qed.

(* an invalidation never makes anything available *)
Theorem C21_invalidate_monotone : forall s key p r,
  not_invalid s r = false -> not_invalid (fst (invalidate s key p)) r = false.
Proof. exact invalidate_mono. Qed.

(* "a path is reported as available on a location exactly when it (or, for ancestor directories, a path beneath it)
   was registered there ... and has not been invalidated since": for every location table without wrapping, every
   history (any length, any depth, any number of locations; repeated registrations included) made of registrations
   with a type other than INVALID and of invalidations of paths that have a node (the others raise KeyError and
   change nothing), availability in the model equals the history-based specification [avail_spec] ...
   PARTIAL: relations and wrapped locations are outside this domain. *)
Theorem C21_refines_partial : forall tab h,
  nowrap tab -> Forall d1_op h -> inv_ok tab h ->
  forall K q, available (rs (run tab h)) q K = avail_spec tab h K q.
Proof. exact refines. Qed.
(* ... where the specification says: some registration, on that location, of the path or of a path beneath it is
   not followed by an invalidation, on that location, of the path or of one of its ancestors *)
Theorem C21_spec_meaning : forall tab h K q,
  avail_spec tab h K q = true <->
  exists h1 l p t h2, h = h1 ++ Reg l p t :: h2 /\ key_of tab l = K /\ beneath q p = true /\
                      forall l' x, In (Inv l' x) h2 -> key_of tab l' = K -> beneath x q = false.
Proof. exact avail_spec_iff. Qed.
Example C21_refines_hypotheses :
  let tab := [mkloc ("d1", "n1") false None []; mkloc ("d2", "n1") false None []] in
  let h := [Reg 0 ["a"; "x"] PRIMARY; Reg 1 ["a"] PRIMARY; Inv 0 ["a"]; Reg 0 ["a"; "y"] SYMBOLIC_LINK] in
  nowrap tab /\ Forall d1_op h /\ inv_ok tab h /\
  avail_spec tab h ("d1", "n1") ["a"] = true /\ avail_spec tab h ("d1", "n1") ["a"; "x"] = false /\
  avail_spec tab h ("d2", "n1") ["a"] = true /\ available (rs (run tab h)) ["a"; "x"] ("d1", "n1") = false.
Proof.
  split; [apply nowrap_intro; intros l [<-|[<-|[]]]; reflexivity|].
  split; [repeat constructor; discriminate|].
  split; [|vm_compute; repeat split; reflexivity].
  intros h1 l x h2 E.
  destruct h1 as [|o1 [|o2 [|o3 [|o4 [|o5 h1]]]]]; simpl in E; inversion E; subst; vm_compute; discriminate.
Qed.

(* wrapped locations with mount points (the property's quantifier): the path that register_path derives on the
   wrapped location comes from a mount point of the wrapping location that contains the path, and from the most
   specific one - no mount point containing the path is longer - whatever the order of the mounts dictionary
   (the model sorts the mount-point strings as the code does: sorted(mounts, reverse=True)).  Components of mount
   points are assumed non-empty (normalised paths). *)
Theorem C21_inner_path_most_specific : forall tab li l w p q,
  nth_error tab li = Some l -> good_mounts (lmounts l) ->
  inner_path tab li p = Some (w, q) ->
  lwraps l = Some w /\ llocal l = false /\
  exists m t rest, In (m, t) (lmounts l) /\ strip_prefix m p = Some rest /\ q = t ++ rest /\
                   forall m2 t2, In (m2, t2) (lmounts l) -> beneath m2 p = true -> length m2 <= length m.
Proof. exact inner_path_most_specific. Qed.
Example C21_inner_path_example :
  let w := mkloc ("dw", "w") false (Some 0) [(["mnt"], ["host"]); (["mnt"; "in"], ["host"; "data"])] in
  let tab := [mkloc ("d1", "n1") false None []; w] in
  inner_path tab 1 ["mnt"; "in"; "f"] = Some (0, ["host"; "data"; "f"]) /\
  inner_path tab 1 ["mnt"; "inner"; "f"] = Some (0, ["host"; "inner"; "f"]) /\
  inner_path tab 1 ["other"] = None /\ good_mounts (lmounts w).
Proof.
  repeat split; try (vm_compute; reflexivity).
  intros m t [H|[H|[]]]; inversion H; subst; repeat constructor; discriminate.
Qed.

(* The text's "available exactly when ... not invalidated since" is still FALSE of the faithful model (known
   finding reports-invalidated/dupreg): register /a/a twice (register_path hands out a second object for the same
   copy, which the tree does not hold under /a/a), register /z, relate(/z, second object), invalidate /a/a —
   "/z" is still reported at the invalidated copy d1/n1:"/a/a". *)
Definition one_loc := [mkloc ("d1", "n1") false None []].
Theorem C21_invalidated_copy_reported_refuted :
  exists tab ops l q p,
    let s := rs (run tab (ops ++ [Inv l q])) in
    existsb (fun r => match item_of s r with
                      | Some (k, q', t) => key_eqb k (key_of tab l) && path_eqb q' q && dtype_eqb t PRIMARY
                      | None => false
                      end) (get_dl s p None None None) = true.
Proof.
  exists one_loc, [Reg 0 ["a"; "a"] PRIMARY; Reg 0 ["a"; "a"] PRIMARY; Reg 0 ["z"] PRIMARY; Rel 2 1], 0,
         ["a"; "a"], ["z"].
  vm_compute. reflexivity.
Qed.

(* headline instance (DESIGN.md §6 item 6, refuted before the fix): /b/y is available again *)
Example C21_design_item6 :
  let s := rs (run one_loc [Reg 0 ["a"; "x"] PRIMARY; Reg 0 ["b"; "y"] PRIMARY; Rel 0 1; Inv 0 ["a"; "x"]]) in
  available s ["b"; "y"] ("d1", "n1") = false /\
  available (fst (register one_loc s 0 ["b"; "y"] PRIMARY)) ["b"; "y"] ("d1", "n1") = true /\
  ancestors ["b"; "y"] = [["b"]; []].
Proof. vm_compute. repeat split; reflexivity. Qed.
(* the history on which the code before 8b8c381 left /p/c/f available after invalidating /p *)
Example C21_subtree_example :
  let tab := [mkloc ("d1", "n1") false None []; mkloc ("d2", "n1") false None []] in
  let s := rs (run tab [Reg 0 ["p"; "c"] PRIMARY; Reg 1 ["z"] PRIMARY; Rel 0 1; Reg 1 ["p"; "c"] PRIMARY; Rel 1 2;
                        Reg 1 ["p"; "c"; "f"] PRIMARY]) in
  available s ["p"; "c"; "f"] ("d2", "n1") = true /\
  snd (invalidate s ("d2", "n1") ["p"]) = IOk /\ beneath ["p"] ["p"; "c"; "f"] = true /\
  available (fst (invalidate s ("d2", "n1") ["p"])) ["p"; "c"; "f"] ("d2", "n1") = false /\
  available (fst (invalidate s ("d2", "n1") ["p"])) ["p"; "c"] ("d1", "n1") = true.
Proof. vm_compute. repeat split; reflexivity. Qed.
Example C21_source_example :
  let s := rs (run one_loc [Reg 0 ["a"; "x"] PRIMARY]) in
  source_candidates one_loc s ["a"; "x"] "d1" = [0].
Proof. vm_compute. reflexivity. Qed.

Print Assumptions C21_reregister_available.
Print Assumptions C21_source_valid_partial.
Print Assumptions C21_source_valid_plain_partial.
Print Assumptions C21_source_valid_refuted.
Print Assumptions C21_register_monotone_partial.
Print Assumptions C21_relate_monotone_partial.
Print Assumptions C21_invalidated_copy_reported_refuted.
Print Assumptions C21_invalidate_subtree.
Print Assumptions C21_isolation.
Print Assumptions C21_invalidate_monotone.
Print Assumptions C21_refines_partial.
Print Assumptions C21_spec_meaning.
Print Assumptions C21_inner_path_most_specific.
