(* Props/C24.v — Remote path operations agree with the local filesystem.
   Only statements; proofs are [exact <lemma of RPath/Proofs.v>].

   What is proved is the ARGUMENT CHANNEL: for every operation of RemoteStreamFlowPath the path (and the link
   target) reaches the tool it names as one verbatim argument, for every string.  [sh_words] / [sh_lex] are the
   model of /bin/sh's token recogniser (Shell/Model.v).  That coreutils then do what the local filesystem API
   does is exercised by the behavioural comparison of the check, not proved. *)
From Coq Require Import List Bool.
From SF Require Import Base.Str Shell.Model Shell.Proofs RPath.Model RPath.Proofs RPath.More.
Import ListNotations.
Local Open Scope list_scope. Local Open Scope string_scope.

(* test -e/-d/-f/-x/-L, chmod, mkdir, cat/head, rm -rf, ln -snf, ln -nf, find (walk): one simple command whose
   argv is the literal words with the path and target verbatim — for ALL paths *)
Theorem C24_argv : forall o p fs,
  simple_frags o p = Some fs -> forallb frag_ok fs = true ->
  sh_words (line o p) = Some (map frag_word fs).
Proof. exact argv_simple. Qed.

(* resolve: test -e p && readlink -f p *)
Theorem C24_resolve_tokens : forall p,
  sh_lex (line OResolve p) = Some [W "test"; W "-e"; W p; Op "&&"; W "readlink"; W "-f"; W p].
Proof. exact resolve_tokens. Qed.

(* checksum: test -f p && sha1sum < p | awk '{print $1}'  — whole line, the path verbatim twice *)
Theorem C24_checksum_tokens : forall p,
  sh_lex (line OChecksum p) =
  Some [W "test"; W "-f"; W p; Op "&&"; W "sha1sum"; Op "<"; W p; Op "|"; W "awk"; W "{print $1}"].
Proof. exact checksum_tokens. Qed.

(* write_text: tee p > /dev/null *)
Theorem C24_write_tokens : forall p,
  sh_lex (line OWrite p) = Some [W "tee"; W p; Op ">"; W "/dev/null"].
Proof. exact write_tokens. Qed.

(* size and glob contain text the tokenizer fragment does not cover ({} \+ in find -exec; "$1", "$@" and the
   deliberately interpreted pattern).  Proved: the line is <literal words> <quoted path> <tail that does not
   depend on the path>, and the recogniser reaches that tail having read the path verbatim as (the beginning
   of) the current word.  What the shell makes of the constant tail is exercised by the twin-tree runs only. *)
Theorem C24_size_prefix_partial : forall p,
  line OSize p = "find -L " ++ quote p ++ size_tail /\
  forall acc, lex Norm false "" acc (line OSize p) = lex Norm true p (acc ++ [W "find"; W "-L"])%list size_tail.
Proof. exact size_prefix. Qed.
Theorem C24_glob_prefix_partial : forall p pat,
  line (OGlob pat) p = "set -- " ++ quote p ++ glob_tail pat /\
  forall acc, lex Norm false "" acc (line (OGlob pat) p) = lex Norm true p (acc ++ [W "set"; W "--"])%list (glob_tail pat).
Proof. exact glob_prefix. Qed.

(* any command made of literal safe words and quoted strings (reusable: C22) *)
Theorem C24_quoted_fragments : forall fs, forallb frag_ok fs = true ->
  sh_words (join " " (map render_frag fs)) = Some (map frag_word fs).
Proof. exact frags_words. Qed.

(* the raw / "…"-wrapped interpolation the code used before the fix of this property *)
Theorem C24_raw_path_refuted :
  sh_words (raw_line ["rm"; "-rf"] "/data/my dir") = Some ["rm"; "-rf"; "/data/my"; "dir"] /\
  sh_words (raw_line ["mkdir"; "-m"; "777"; "-p"] "/data/a b") = Some ["mkdir"; "-m"; "777"; "-p"; "/data/a"; "b"] /\
  sh_lex (raw_line ["cat"] "/data/x;y") = Some [W "cat"; W "/data/x"; Op ";"; W "y"] /\
  sh_lex (raw_line ["chmod"; "755"] "/data/$HOME") = None /\
  sh_lex (dq_size_line "/data/a""b") = None /\
  sh_lex (dq_size_line "/data/`id`") = None /\
  sh_lex (dq_size_line "/data/a b") = Some [W "find"; W "-L"; W "/data/a b"; W "-type"; W "f"].
Proof. exact raw_path_not_verbatim. Qed.

Example C24_argv_example :
  simple_frags ORmtree "/data/my dir; rm -rf $HOME" = Some [Lit "rm"; Lit "-rf"; Q "/data/my dir; rm -rf $HOME"] /\
  sh_words (line ORmtree "/data/my dir; rm -rf $HOME") = Some ["rm"; "-rf"; "/data/my dir; rm -rf $HOME"] /\
  sh_words (line (OSymlink "/t/a'b") "/d/l n") = Some ["ln"; "-snf"; "/t/a'b"; "/d/l n"].
Proof. vm_compute. repeat split; reflexivity. Qed.

Print Assumptions C24_argv.
Print Assumptions C24_resolve_tokens.
Print Assumptions C24_checksum_tokens.
Print Assumptions C24_write_tokens.
Print Assumptions C24_size_prefix_partial.
Print Assumptions C24_glob_prefix_partial.
Print Assumptions C24_quoted_fragments.
Print Assumptions C24_raw_path_refuted.
