(* Props/C19.v — Concurrent recoveries share work and never deadlock.
   Only statements here; every proof is [exact <lemma of RecSync/Proofs.v>]. *)
From Coq Require Import List NArith Relations.
From SF Require Import Base.Str Retry.Model RecSync.Model RecSync.Proofs Port.Model Port.Proofs Port.Boundary RecSync.Delivery.
Import ListNotations.
Local Open Scope string_scope. Local Open Scope list_scope.

(* ONCE PER LOSS.  Take any window of a run in which the engine has not yet taken producer p out of the
   recovering statuses (ROLLBACK / FIREABLE / RUNNING: its re-execution is pending or running).  However many
   recoveries synchronise in that window, with whatever request sets in whatever loop order, and whatever
   happens to the other jobs, p is rolled back (its version incremented, a re-execution scheduled) at most once;
   if p is already recovering when the window starts, every recovery attaches and p is not rolled back at all. *)
Theorem C19_once_per_loss : forall lim p h s,
  forallb (keeps_recovering p) h = true -> updates_of p (snd (rrun lim s h)) <= 1.
Proof. exact once_per_loss. Qed.
Theorem C19_attach_while_recovering : forall lim p h s,
  forallb (keeps_recovering p) h = true -> recovering (status_of (stat s) p) = true ->
  updates_of p (snd (rrun lim s h)) = 0.
Proof. exact attach_while_recovering. Qed.

(* NO DEADLOCK.  Every recovery takes its request locks in one global order (sorted(..., key=id)); then a
   recovery that waits for a lock has a strictly smaller rank (largest lock held so far) than the holder, so
   the wait-for relation has no cycle, for any number of recoveries and any lock sets; and the unfinished
   recovery of maximal rank is never blocked by anyone. *)
Theorem C19_wait_increases_rank : forall t u, increasing (need t) -> waits_for t u -> rank t < rank u.
Proof. exact waits_rank. Qed.
Theorem C19_no_deadlock : forall t, ~ clos_trans thread ordered_wait t t.
Proof. exact no_cyclic_wait. Qed.
Theorem C19_max_rank_progress : forall t (ts : list thread),
  increasing (need t) -> (forall u, In u ts -> rank u <= rank t) -> forall u, In u ts -> ~ waits_for t u.
Proof. exact max_rank_not_blocked. Qed.

(* DELIVERY, partial.  Port 0 = the port of the running recovery workflow on which the producer's regenerated token
   (tag g) appears; port k = the port of a recovery that attached with add_inter_port(k, boundary_tags=[g], PROPAGATE)
   (what _synchronize_workflows does for a recovering producer).  For EVERY operation history of the InterWorkflowPort
   (other puts, gets, other attachments before, between and after -- Port/Model.v, composed through C03_boundary):
   an attachment made BEFORE the token is put receives it, and an attachment made AFTER the token entered the port's
   history receives it at once (replay).  Hence every waiting recovery receives the regenerated token, whenever it
   attached.  Partial: this is the port level; that the engine's attached workflow consumes the token and terminates, that
   the tags agree (job_token.tag vs the token's tag) and that the producer does put the token (it does not after a stale
   second rollback: known finding free/not-completed) are exercised by the engine runs, not proved. *)
Theorem C19_delivery_partial_early : forall n k g te t pre mid post s es p,
  run (init KInter n) (pre ++ AddInter k [g] true te :: mid ++ Put 0 t :: post) = (s, es) ->
  0 < n -> nth_error (ports s) k = Some p -> is_term t = false -> tag_of t = g ->
  In t (tl p).
Proof. exact attached_early_receives. Qed.
Theorem C19_delivery_partial_late : forall n k g te t pre post s0 es0 p0 s es p,
  run (init KInter n) pre = (s0, es0) -> nth_error (ports s0) 0 = Some p0 -> In t (tl p0) ->
  run (init KInter n) (pre ++ AddInter k [g] true te :: post) = (s, es) ->
  0 < n -> nth_error (ports s) k = Some p -> is_term t = false -> tag_of t = g ->
  In t (tl p).
Proof. exact attached_late_receives. Qed.
Example C19_delivery_example :
  let ops := [AddInter 1 ["0"] true false; Put 0 (Tok 7 "0"); AddInter 2 ["0"] true false; Get 2 "c"] in
  let '(s, es) := run (init KInter 3) ops in
  map tl (ports s) = [[Tok 7 "0"]; [Tok 7 "0"]; [Tok 7 "0"]] /\ recv 2 "c" (concat es) = [Tok 7 "0"].
Proof. vm_compute. split; reflexivity. Qed.

(* non-vacuity *)
Example C19_sharing_example :
  let h := [Sync ["/root/0"; "/br0/0"]; Sync ["/br1/0"; "/root/0"]; SetStatus "/root/0" Running;
            Sync ["/root/0"; "/br2/0"]] in
  snd (rrun (Some 5%N) {| vers := []; stat := [] |} h) =
    [[("/root/0", Updated 1 2); ("/br0/0", Updated 1 2)]; [("/br1/0", Updated 1 2); ("/root/0", Attach)]; [];
     [("/root/0", Attach); ("/br2/0", Updated 1 2)]] /\
  forallb (keeps_recovering "/root/0") h = true /\
  updates_of "/root/0" (snd (rrun (Some 5%N) {| vers := []; stat := [] |} h)) = 1.
Proof. vm_compute. repeat split; reflexivity. Qed.
(* without the window hypothesis the bound fails: once p completed, a later recovery rolls it back again *)
Example C19_window_needed :
  updates_of "/root/0" (snd (rrun (Some 5%N) {| vers := []; stat := [] |}
     [Sync ["/root/0"]; SetStatus "/root/0" Completed; Sync ["/root/0"]])) = 2.
Proof. vm_compute. reflexivity. Qed.
Example C19_lock_example :
  let t := {| need := [1; 4; 7]; got := 1 |} in let u := {| need := [2; 4]; got := 2 |} in
  increasing (need t) /\ waits_for t u /\ rank t = 2 /\ rank u = 5.
Proof.
  simpl. split; [|split; [exists 4; split; [reflexivity|right; left; reflexivity]|split; reflexivity]].
  repeat split; intros y Hy; simpl in Hy; repeat (destruct Hy as [<-|Hy]; [repeat constructor|]); destruct Hy.
Qed.

Print Assumptions C19_once_per_loss.
Print Assumptions C19_attach_while_recovering.
Print Assumptions C19_wait_increases_rank.
Print Assumptions C19_no_deadlock.
Print Assumptions C19_max_rank_progress.
Print Assumptions C19_delivery_partial_early.
Print Assumptions C19_delivery_partial_late.
