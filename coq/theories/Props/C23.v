(* Props/C23.v — Tar-stream copies are exact or fail, however the stream is chunked.
   Only statements here; every proof is [exact <lemma of TarStream/Proofs.v or TarStream/Trunc.v>].
   Model: TarStream/Model.v.  [run_chunked false] / [members_chunked false] are the reader of
   aiotarstream.py + extract_tar_stream as they are now in /repo (after the fix: commits 733cb27, 9f2640a);
   [true] is the code before them.  A stream is the list of chunks the underlying reader delivers. *)
From Coq Require Import List NArith Lia.
From SF Require Import TarStream.Model TarStream.Proofs TarStream.Trunc TarStream.Roundtrip TarStream.Frombuf TarStream.RoundtripS TarStream.Links TarStream.Prefix TarStream.WriterChunk.
Import ListNotations.
Local Open Scope N_scope.

(* ---- chunk boundaries are unobservable: unbounded archive, any two chunkings of the same bytes ---- *)
Theorem C23_chunking : forall base dst_isdir bufsz (s1 s2 : stream),
  concat s1 = concat s2 ->
  run_chunked false base dst_isdir bufsz s1 = run_chunked false base dst_isdir bufsz s2.
Proof. exact chunking_irrelevant. Qed.
(* ... and the result is the one of the reference reader that sees all the bytes at once *)
Theorem C23_chunking_reference : forall base dst_isdir bufsz (s : stream),
  run_chunked false base dst_isdir bufsz s = run_flat base dst_isdir bufsz (concat s).
Proof. exact run_chunked_flat. Qed.
Theorem C23_chunking_members : forall s1 s2 : stream,
  concat s1 = concat s2 -> members_chunked false s1 = members_chunked false s2.
Proof. exact chunking_irrelevant_members. Qed.
(* the reader the model uses is TellableStreamWrapper.read's while loop, and it returns exactly the next
   min(n, remaining) bytes of the concatenation *)
Theorem C23_read_is_the_python_loop : forall (s : stream) n buf,
  Forall (fun c => c <> []) s ->
  tread_loop (S (length s)) n s buf = (buf ++ fst (tread n s), snd (tread n s)).
Proof. exact tread_loop_tread. Qed.
Theorem C23_read_exact : forall (s : stream) n,
  fst (tread n s) = takeN n (concat s) /\ concat (snd (tread n s)) = dropN n (concat s).
Proof. exact tread_spec. Qed.

(* ---- exact or fail: whatever the stream (whole, cut, corrupted, any chunking), a regular member that
   extract_tar_stream completes is written with exactly its h_size bytes; a listed member is never partial ---- *)
Theorem C23_no_partial_file : forall fuel base bufsz h od r t t' r',
  bufsz <> Some 0 -> isreg (h_type h) = true ->
  extract_member stream tread skip_new false fuel base bufsz h od r t = (Done, t', r') ->
  exists p data, t' = t_set p (EFile (h_mode h) data) t /\ lenN data = h_size h.
Proof. exact no_partial_file_chunked. Qed.
(* the same once dst has been rebound to dst/<basename(src)> — a directory root member extracted into an existing
   directory (extract_tar_stream since /repo 1583bc4; [run_loop] carries the rebound flag, tree paths stay
   relative to the original dst and get the <base>/ prefix, [relp]).  C23_chunking / C23_chunking_reference above
   are about [run_loop] and therefore cover this configuration with real content, not as Unsupported. *)
Theorem C23_no_partial_file_rebound : forall fuel base bufsz h od r t t' r',
  bufsz <> Some 0 -> isreg (h_type h) = true ->
  extract_member_g stream tread skip_new false true fuel base bufsz h od r t = (Done, t', r') ->
  exists p data, t' = t_set p (EFile (h_mode h) data) t /\ lenN data = h_size h.
Proof. exact no_partial_file_rebound. Qed.
Theorem C23_no_partial_member : forall (s : stream) ms,
  members_chunked false s = (Done, ms) ->
  forall m, In m ms -> has_data (h_type (fst m)) = true -> lenN (snd m) = h_size (fst m).
Proof. exact no_partial_member_chunked. Qed.

(* ---- a stream that ends inside the data or the padding of any member (fewer bytes left than the member's
   blocks) makes the read fail with ReadError; stated on the reference reader, it transfers to every
   chunking by C23_chunking_members / members_chunked_flat ---- *)
Theorem C23_truncated_data_fails : forall fuel off r h od no r1 acc,
  next bytes fread fskip false (S (S fuel)) off r = (NxMem h od no, r1) ->
  has_data (h_type h) = true ->
  lenN (und r1) < block (h_size h) ->
  fst (members bytes fread fskip false (S (S fuel)) off r acc) = ReadError.
Proof. exact truncated_member_fails. Qed.
Example C23_truncated_data_example :
  let r := {| pos := 512; und := dropN 512 (takeN 1324 ex_dir) |} in
  exists h od no r1,
    next bytes fread fskip false 3 512 r = (NxMem h od no, r1) /\ has_data (h_type h) = true
    /\ lenN (und r1) < block (h_size h) /\ h_name h = da.
Proof. exact truncated_member_example. Qed.
Example C23_truncated_examples :
  fst (members_flat (takeN 1324 ex_dir)) = ReadError /\ fst (members_flat (takeN 1800 ex_dir)) = ReadError
  /\ names (members_flat ex_dir) = (Done, [(d_, 0); (da, 700); (db, 5)]).
Proof. split; [exact ex_cut_in_data|split; [exact ex_cut_in_padding|exact ex_dir_members]]. Qed.

(* ---- what the property text asks and the current code does NOT do (known findings): a stream cut inside
   a later header, or exactly at a header (missing end-of-archive marker), or with a corrupted later header,
   ends the archive silently with members missing (CPython's tarfile.next does the same) ---- *)
Theorem C23_truncated_header_fails_refuted : exists d k, fewer (members_flat (takeN k d)) (members_flat d).
Proof. exact truncated_header_silent. Qed.
Theorem C23_missing_marker_fails_refuted : exists d k,
  fewer (members_flat (takeN k d)) (members_flat d) /\ k mod 512 = 0.
Proof. exact missing_marker_silent. Qed.
Theorem C23_corrupt_header_fails_refuted : exists d i, fewer (members_flat (flip i d)) (members_flat d).
Proof. exact corrupt_header_silent. Qed.

(* ---- the code before the fixes (legacy = true) violated the three statements above ---- *)
Theorem C23_legacy_chunking_refuted : exists s1 s2 : stream,
  concat s1 = concat s2 /\ members_chunked true s1 <> members_chunked true s2.
Proof. exact legacy_chunking_refuted. Qed.
Theorem C23_legacy_no_partial_member_refuted : exists (s : stream) ms m,
  members_chunked true s = (Done, ms) /\ In m ms /\ has_data (h_type (fst m)) = true
  /\ lenN (snd m) < h_size (fst m).
Proof. exact legacy_short_file_refuted. Qed.
Theorem C23_legacy_hang_refuted : exists base (s : stream), fst (run_chunked true base true None s) = Hang.
Proof. exact legacy_hang_refuted. Qed.

(* ---- writer (AioTarStream.addfile / _close): data is padded to the next block, members stay block-aligned
   when CPython's header blocks are, and the archive ends on a record boundary (what GNU tar expects).
   (parse (write t) = t is C23_roundtrip below.) ---- *)
Theorem C23_writer_padding_partial : forall n, n + pad512 n = block n /\ block n mod 512 = 0 /\ n <= block n.
Proof. intros n. split; [exact (pad512_block n)|split; [exact (block_mod n)|exact (block_ge n)]]. Qed.
Theorem C23_writer_block_aligned_partial : forall ms,
  (forall x, In x ms -> lenN (fst x) mod 512 = 0) ->
  lenN (concat (map (fun m => add_member (fst m) (snd m)) ms)) mod 512 = 0.
Proof. exact write_archive_block_aligned. Qed.
Theorem C23_writer_record_aligned_partial : forall ms, lenN (write_archive ms) mod 10240 = 0.
Proof. exact write_archive_record_aligned. Qed.

(* ---- reader after writer = identity.  Model.tobuf = TarInfo.tobuf(GNU_FORMAT) (tied to the real writer's bytes
   by the correspondence, CWrite); write_archive = AioTarStream.addfile/_close.  [wf] = what the writer can encode
   in octal GNU fields: type regular/directory/symlink/hard link, names and link names of ANY length without NUL
   (GNU long-name / long-link records above 100 bytes), mode < 0o10000, size = |data| < 8^11, uid/gid < 8^7.
   [expect] is the member itself, except that a directory whose name needed a long-name record is read back with
   the trailing "/" the writer appended (_proc_gnulong does not strip it, unlike CPython >= 3.12). ---- *)
Theorem C23_roundtrip : forall ms : list wmem, Forall wf ms ->
  members_flat (write_archive (map enc ms)) = (Done, map expect ms).
Proof. exact roundtrip. Qed.
Example C23_roundtrip_example :
  Forall wf ex_ms /\ map expect ex_ms = map (fun m => (w_h m, w_data m)) ex_ms
  /\ lenN (write_archive (map enc ex_ms)) = 10240 /\ 100 < lenN ex_long.
Proof.
  split; [exact ex_ms_wf|]. destruct ex_ms_computes as (_ & H & L). split; [exact H|]. split; [exact L|].
  vm_compute. reflexivity.
Qed.
Example C23_roundtrip_example_511 :
  Forall wf ex_511 /\ lenN ex_511_name = 511 /\ block (lenN ex_511_name + 1) = 512
  /\ members_flat (write_archive (map enc ex_511)) = (Done, map (fun m => (w_h m, w_data m)) ex_511).
Proof. split; [exact ex_511_wf|exact ex_511_computes]. Qed.
(* every chunking of the written archive is read back the same way *)
Theorem C23_roundtrip_chunked : forall (ms : list wmem) (s : stream), Forall wf ms ->
  concat s = write_archive (map enc ms) -> members_chunked false s = (Done, map expect ms).
Proof. intros ms s H E. rewrite members_chunked_flat, E. now apply roundtrip. Qed.
(* block level: frombuf reads back _create_header's block *)
Theorem C23_roundtrip_header : forall name mode size ty link mt,
  le255 name -> le255 link -> meta_ok mt -> mode < pow8 7 -> size < pow8 11 -> ty <= 255 ->
  ty <> 0 -> ty <> T_GNUSPARSE ->
  frombuf (hdr_block name mode size ty link mt) = HOk (hdr_read name mode size ty link).
Proof. exact frombuf_hdr_block. Qed.
(* field level *)
Theorem C23_roundtrip_octal_field : forall k n r,
  n < pow8 (S k) -> nti (oct_digits (S k) n ++ 0 :: r) = NOk n.
Proof. exact nti_digits. Qed.
Theorem C23_roundtrip_string_field : forall s len,
  Forall (fun b => b <> 0) s -> lenN s <= len -> nts (stn s len) = s.
Proof. exact nts_stn. Qed.

(* ---- links (fix 35e756c): extract_tar_stream creates a symbolic link with the archived target byte for byte,
   at dst/<member name relative to the root>; a hard link becomes a file with the content of the already
   extracted member that its link name, taken relative to the root (relpath(linkname, basename(src))),
   designates.  Any reader, any stream state, current and pre-fix tar reader alike. ---- *)
Theorem C23_symlink_target_verbatim : forall St rd sk legacy fuel base bufsz h od r t t' r',
  h_type h = T_SYM ->
  extract_member St rd sk legacy fuel base bufsz h od r t = (Done, t', r') ->
  exists p, rel_under base (h_name h) = Some p /\ p <> [] /\ t_get p t' = Some (ELink (h_link h)) /\ r' = r.
Proof. exact symlink_target_verbatim. Qed.
Theorem C23_hardlink_target_relative : forall St rd sk legacy fuel base bufsz h od r t t' r',
  h_type h = T_LNK ->
  extract_member St rd sk legacy fuel base bufsz h od r t = (Done, t', r') ->
  exists p q t1 m0 content,
    rel_under base (h_name h) = Some p /\ rel_under base (h_link h) = Some q /\
    t_get q t1 = Some (EFile m0 content) /\ t_get p t' = Some (EFile (h_mode h) content) /\ r' = r.
Proof. exact hardlink_target_relative. Qed.
Example C23_links_example :
  let base := [100] in
  let r0 : rst bytes := {| pos := 0; und := [] |} in
  let t0 : tree := [([], EDir 493); ([97;46;116], EFile 420 [97;98;99]); ([115], EDir 493)] in
  let sym := extract_member bytes fread fskip false 3 base None (lk_hdr [100;47;108] T_SYM [97;46;116]) 0 r0 t0 in
  let up := extract_member bytes fread fskip false 3 base None (lk_hdr [100;47;115;47;117] T_SYM [46;46;47;97;46;116]) 0 r0 t0 in
  let hard := extract_member bytes fread fskip false 3 base None (lk_hdr [100;47;104] T_LNK [100;47;97;46;116]) 0 r0 t0 in
  t_get [108] (snd (fst sym)) = Some (ELink [97;46;116])
  /\ t_get [115;47;117] (snd (fst up)) = Some (ELink [46;46;47;97;46;116])
  /\ t_get [104] (snd (fst hard)) = Some (EFile 420 [97;98;99]) /\ fst (fst hard) = Done.
Proof. exact links_example. Qed.

(* ---- truncation in general (same fuel for both runs; members_flat uses S (length stream), and out-of-fuel is
   now a separate outcome FFuel/NxFuel -> Hang, no longer confused with Unsupported): reading ANY prefix of ANY
   stream either fails with ReadError, or lists a prefix of the members the whole stream lists and stops either
   exactly like the whole run or with a normal return.  C23_truncation_boundary says when that normal return with
   members missing can happen: only when next(), called at a non-zero offset, got fewer than 512 bytes for the
   header block (cut at a header boundary or inside a later header) — the known header-level leniency; a cut
   anywhere else (data, padding, long-name payload, first header) is ReadError.  Since PAX extended headers are
   in the model, lenient_end has a second, weaker alternative: the stream ended inside a PAX payload whose
   remaining records parse as invalid (a zero-length record) — whether a real cut can produce that is not
   analysed.  cut_ok also allows Hang = the model's own fuel ran out (NxFuel), which the fuel given by
   members_flat never does in the correspondence; fuel-irrelevance is not proved. ---- *)
Theorem C23_truncation_prefix : forall fuel d k,
  cut_ok (members bytes fread fskip false fuel 0 {| pos := 0; und := d |} [])
         (members bytes fread fskip false fuel 0 {| pos := 0; und := takeN k d |} []).
Proof. exact truncation_prefix. Qed.
Theorem C23_truncation_boundary : forall fuel off rf rt h od no,
  Sync rf rt ->
  fst (next bytes fread fskip false fuel off rf) = NxMem h od no ->
  fst (next bytes fread fskip false fuel off rt) = NxNone ->
  lenient_end fuel off rt.
Proof. exact truncation_boundary. Qed.
Example C23_truncation_prefix_example :
  names (members_flat ex_dir) = (Done, [(d_, 0); (da, 700); (db, 5)])
  /\ names (members_flat (takeN 2148 ex_dir)) = (Done, [(d_, 0); (da, 700)])
  /\ fst (members_flat (takeN 1800 ex_dir)) = ReadError.
Proof. split; [exact ex_dir_members|split; [exact ex_cut_in_header|exact ex_cut_in_padding]]. Qed.

(* ---- writer side of chunking: StreamWrapper.write has no partial-write protocol (write(data); drain()), so
   the chunking the writer is exposed to is how the SOURCE of a member delivers its data (aiotarstream.write's
   loop over short reads) and copybufsize: the bytes copied into the archive are the first [size] bytes of the
   source whatever the sizes of its reads and whatever the buffer size. ---- *)
Theorem C23_writer_chunking : forall (s1 s2 : stream) size bs1 bs2 p1 p2,
  concat s1 = concat s2 -> nonempty s1 -> nonempty s2 -> 0 < bs1 -> 0 < bs2 -> size <= lenN (concat s1) ->
  fst (fst (copyfileobj stream raw_read false (S (length s1 + N.to_nat size)) size bs1 {| pos := p1; und := s1 |} []))
  = Done
  /\ snd (fst (copyfileobj stream raw_read false (S (length s1 + N.to_nat size)) size bs1 {| pos := p1; und := s1 |} []))
     = takeN size (concat s1)
  /\ fst (copyfileobj stream raw_read false (S (length s2 + N.to_nat size)) size bs2 {| pos := p2; und := s2 |} [])
     = fst (copyfileobj stream raw_read false (S (length s1 + N.to_nat size)) size bs1 {| pos := p1; und := s1 |} []).
Proof. exact writer_chunking. Qed.
Example C23_writer_chunking_example :
  snd (fst (copyfileobj stream raw_read false 20 5 2 {| pos := 0; und := [[1;2];[3];[4;5;6;7]] |} [])) = [1;2;3;4;5]
  /\ snd (fst (copyfileobj stream raw_read false 20 5 16384 {| pos := 0; und := [[1;2;3;4;5;6;7]] |} [])) = [1;2;3;4;5].
Proof. vm_compute. split; reflexivity. Qed.

Print Assumptions C23_chunking. Print Assumptions C23_chunking_reference. Print Assumptions C23_chunking_members.
Print Assumptions C23_read_is_the_python_loop. Print Assumptions C23_read_exact.
Print Assumptions C23_no_partial_file. Print Assumptions C23_no_partial_member.
Print Assumptions C23_truncated_data_fails.
Print Assumptions C23_truncated_header_fails_refuted. Print Assumptions C23_missing_marker_fails_refuted.
Print Assumptions C23_corrupt_header_fails_refuted. Print Assumptions C23_legacy_chunking_refuted.
Print Assumptions C23_legacy_no_partial_member_refuted. Print Assumptions C23_legacy_hang_refuted.
Print Assumptions C23_writer_padding_partial. Print Assumptions C23_writer_block_aligned_partial.
Print Assumptions C23_writer_record_aligned_partial.
Print Assumptions C23_roundtrip. Print Assumptions C23_roundtrip_chunked. Print Assumptions C23_roundtrip_header.
Print Assumptions C23_roundtrip_octal_field. Print Assumptions C23_roundtrip_string_field.
Print Assumptions C23_symlink_target_verbatim. Print Assumptions C23_hardlink_target_relative.
Print Assumptions C23_truncation_prefix. Print Assumptions C23_truncation_boundary.
Print Assumptions C23_writer_chunking.
Print Assumptions C23_no_partial_file_rebound.
