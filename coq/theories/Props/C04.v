(* Props/C04.v — Every well-formed workflow terminates, and failures terminate every step.
   Only statements here; every proof is [exact <lemma of Net/Proofs.v>].

   Reading guide.  A network = workflow input histories [win] (each containing a termination token) + a list
   of step specifications in topological order (inputs of step i are workflow inputs or outputs of steps
   before i; a port has one writer by construction).  A step is a deterministic *round machine*: a round reads
   one token from each input port and is atomic.  An *execution* is any list of scheduling choices, each of
   them enabled ([exec ... = Some st]): the theorems quantify over all of them — this is "every interleaving".
   [nstep ... st i = None] for all i = nothing can move any more (maximal execution). *)
From Coq Require Import List NArith ZArith Lia.
From SF Require Import Base.Str Net.Model Net.Util Net.Proofs.
From SF Require Gather.Model Net.Contracts Net.MixedModel Net.MixedProofs Net.MixedInst Net.MixedInstProofs Net.MixedInstProofs2 Net.MixedProofs3 Net.MixedComb Net.MixedCombProofs.
From SF Require Comb.Model.
Import ListNotations.
Local Open Scope string_scope. Local Open Scope list_scope.

(* Well-formedness ([wf_net]) asks every step to have at least one input port: the `else` branches of Transformer.run /
   ConditionalStep.run for a step WITHOUT input ports (transform({}) once, then terminate) are NOT covered by these
   theorems (such a step is a source: it fires once unconditionally; the harness does not generate it either).

   The generic network theorem.  For ANY round function honouring the contract
     (1) a round that reads a termination token terminates the step,
     (2) a round emits one token list per output port,  (3) those lists contain no termination token
   [BaseStep.terminate then adds exactly one termination token per output port: that part is in the model],
   there are a length n and a final state f such that f has every step terminated with exactly one
   termination token, last, on every output port; nothing is enabled in f; and EVERY execution (any
   interleaving) has at most n rounds, can always be completed to f in exactly n rounds (no deadlock, no
   livelock), and if maximal IS f.  So every maximal execution is finite and ends with all steps terminated. *)
Theorem C04_net_terminates :
  forall (L spec : Type) (s_ins : spec -> list src) (s_nout : spec -> nat)
         (fire : spec -> L -> list (list tok) -> list tok -> L * list (list tok) * option status)
         (init_loc : spec -> L) (win : list (list tok)) (specs : list spec),
    fire_contract L spec s_nout fire ->
    wf_net spec s_ins s_nout win specs ->
    exists (n : nat) (f : nstate L),
      closed_outputs L f /\
      (forall i, nstep L spec s_ins fire win specs f i = None) /\
      (exists l, exec L spec s_ins fire win specs (init_state L spec s_nout init_loc specs) l = Some f /\
                 length l = n) /\
      (forall ch st,
         exec L spec s_ins fire win specs (init_state L spec s_nout init_loc specs) ch = Some st ->
         length ch <= n /\
         (exists ch2, exec L spec s_ins fire win specs st ch2 = Some f /\ length ch + length ch2 = n) /\
         ((forall i, nstep L spec s_ins fire win specs st i = None) -> st = f /\ length ch = n)).
Proof. exact net_terminates. Qed.

(* The contract holds for the modelled rounds of Transformer.run / ConditionalStep.run (_get_inputs,
   _group_by_tag, exceptions -> terminate(FAILED), _reduce_statuses, _get_status) ... *)
Theorem C04_contract_transformer_conditional : fire_contract imap tgspec t_nout tg_fire_spec.
Proof. exact tg_contract. Qed.

(* ... hence networks of such steps terminate under every interleaving, with no further hypothesis. *)
Theorem C04_tg_net_terminates :
  forall win specs, wf_net tgspec t_ins t_nout win specs ->
    exists n f,
      closed_outputs imap f /\
      (forall i, nstep imap tgspec t_ins tg_fire_spec win specs f i = None) /\
      (exists l, exec imap tgspec t_ins tg_fire_spec win specs (tg_init specs) l = Some f /\ length l = n) /\
      (forall ch st, exec imap tgspec t_ins tg_fire_spec win specs (tg_init specs) ch = Some st ->
         length ch <= n /\
         (exists ch2, exec imap tgspec t_ins tg_fire_spec win specs st ch2 = Some f /\
                      length ch + length ch2 = n) /\
         ((forall i, nstep imap tgspec t_ins tg_fire_spec win specs st i = None) -> st = f /\ length ch = n)).
Proof. intros win specs. exact (net_terminates imap tgspec t_ins t_nout tg_fire_spec (fun _ => []) win specs tg_contract). Qed.

(* Merge-style steps are not round machines; their termination contract is proved from their own models where
   one exists.  GatherStep (model of C01): ANY arrival list that contains the termination token of the size port
   and of the input port — whatever the interleaving — leaves the step terminated, and a terminated step ignores
   every later arrival (it terminates exactly once; its output list is finite by construction and contains no
   termination token by typing).  Still ASSUMED for C04: CombinatorStep/LoopCombinatorStep (the Comb models
   cover combine(), not the step's termination loop), LoopOutputStep beyond C06_loop_output_runs_until_term,
   ExecuteStep, ScheduleStep, TransferStep, DeployStep, InputInjectorStep, ScatterStep. *)
Theorem C04_contract_gather : forall depth arr s1 s2,
  In (Gather.Model.OnTerm Gather.Model.SizeP s1) arr -> In (Gather.Model.OnTerm Gather.Model.ElemP s2) arr ->
  Gather.Model.gfinal (Gather.Model.gather_run depth arr) <> None /\
  forall more, Gather.Model.gather_run depth (arr ++ more) = Gather.Model.gather_run depth arr.
Proof. exact Net.Contracts.gather_terminates. Qed.

(* ---- networks mixing sequential steps and merge-style steps (asyncio.wait(FIRST_COMPLETED)) ----
   A step is a *log machine* (Net/MixedModel.v): its outputs, termination and the ports it currently waits on are
   functions of the list of arrivals it has consumed; one transition = step i takes the next unread token of an
   input j it waits on.  An execution is ANY list of such choices.  For every well-formed network whose machines
   honour the log contract (outputs only grow; one list per output; once terminated every output is data followed
   by one termination token; a step that has not terminated waits on some input, never on one whose termination
   token it has consumed), after ANY execution:
     - either every step has terminated or some arrival can be taken (no deadlock);
     - if nothing can move, every step has terminated and every output port carries its data followed by exactly
       one termination token;
     - every step has read, from each input, a prefix of that input's history that does not go beyond the first
       termination token (so it consumes at most the tokens up to and including each port's termination token);
     - the execution took exactly as many transitions as arrivals were consumed.
   _partial: unlike C04_net_terminates this gives no schedule-independent bound n: merge-style steps do not
   commute with themselves, so the diamond argument does not apply; finiteness is "each port is read at most up
   to its termination token" plus C04_mixed_net_can_complete (every execution can be completed); a uniform
   a-priori bound on the length of executions is not proved. *)
Theorem C04_mixed_net_partial :
  forall (T spec : Type) (s_ins : spec -> list src) (s_nout : spec -> nat)
         (outs : spec -> Net.MixedModel.log T -> list (list (Net.MixedModel.mtok T)))
         (done : spec -> Net.MixedModel.log T -> bool) (accept : spec -> Net.MixedModel.log T -> nat -> bool)
         (win : list (list (Net.MixedModel.mtok T))) (specs : list spec),
    Net.MixedModel.log_contract T spec s_ins s_nout outs done accept ->
    Net.MixedModel.mwf T spec s_ins s_nout win specs ->
    forall ch st,
      Net.MixedModel.mexec T spec s_ins outs done accept win specs (Net.MixedModel.minit T spec specs) ch = Some st ->
      (Net.MixedModel.all_done T spec done specs st \/
       exists c st', Net.MixedModel.mstep T spec s_ins outs done accept win specs st c = Some st') /\
      ((forall c, Net.MixedModel.mstep T spec s_ins outs done accept win specs st c = None) ->
         Net.MixedModel.all_done T spec done specs st /\
         forall i sp l o, nth_error specs i = Some sp -> nth_error st i = Some l -> In o (outs sp l) ->
           exists d s, o = d ++ [Net.MixedModel.E s] /\ Net.MixedModel.term_free_m T d) /\
      (forall i sp l j p, nth_error specs i = Some sp -> nth_error st i = Some l -> nth_error (s_ins sp) j = Some p ->
         Net.MixedModel.proj T j l =
           firstn (Net.MixedModel.cnt T j l) (Net.MixedModel.mcontent T spec outs win specs st p) /\
         existsb (Net.MixedModel.is_e T) (removelast (Net.MixedModel.proj T j l)) = false) /\
      Net.MixedProofs.total T st = length ch.
Proof. exact Net.MixedProofs.mixed_net. Qed.

(* ScatterStep, the one-input element-wise Transformer and GatherStep (the latter THROUGH the Gather model of C01:
   Net/MixedInst.v reads everything off Gather.Model.gather_run) honour the log contract: networks such as
   scatter -> transform -> gather, nested or chained, are covered with no contract hypothesis left. *)
Theorem C04_contract_scatter_xf_gather :
  Net.MixedModel.log_contract Net.MixedInst.gtok Net.MixedInst.mspec Net.MixedInst.ms_ins Net.MixedInst.ms_nout
    Net.MixedInst.ms_outs Net.MixedInst.ms_done Net.MixedInst.ms_accept.
Proof. exact Net.MixedInstProofs.ms_contract. Qed.

(* Termination is not only "no deadlock": from ANY reachable state of a well-formed network of log machines there is
   a continuation (constructed: steps in topological order, each fed until it is done; measure = unread tokens on
   its inputs) that ends with every step terminated and nothing left to do. *)
Theorem C04_mixed_net_can_complete :
  forall (T spec : Type) (s_ins : spec -> list src) (s_nout : spec -> nat)
         (outs : spec -> Net.MixedModel.log T -> list (list (Net.MixedModel.mtok T)))
         (done : spec -> Net.MixedModel.log T -> bool) (accept : spec -> Net.MixedModel.log T -> nat -> bool)
         (win : list (list (Net.MixedModel.mtok T))) (specs : list spec),
    Net.MixedModel.log_contract T spec s_ins s_nout outs done accept ->
    Net.MixedModel.mwf T spec s_ins s_nout win specs ->
    forall ch st,
      Net.MixedModel.mexec T spec s_ins outs done accept win specs (Net.MixedModel.minit T spec specs) ch = Some st ->
      exists ch2 st', Net.MixedModel.mexec T spec s_ins outs done accept win specs st ch2 = Some st' /\
        Net.MixedModel.all_done T spec done specs st' /\
        (forall c, Net.MixedModel.mstep T spec s_ins outs done accept win specs st' c = None).
Proof. exact Net.MixedProofs3.can_complete. Qed.

(* CombinatorStep with ANY combinator tree of the C02 model (dot product, cartesian product, nested ones), read off
   Comb.Model.run, honours the log contract: networks of combinators are covered by C04_mixed_net_partial and
   C04_mixed_net_can_complete with no contract hypothesis.  (Token type: Comb.Model's (id, tag) pairs; the
   Scatter/Transformer/Gather machines use Gather.Model's tokens, so ONE network mixing combinators and gathers is
   not expressible yet: the two models' token types would have to be unified.) *)
Theorem C04_contract_combinator :
  Net.MixedModel.log_contract Net.MixedComb.ctok Net.MixedComb.cspec Net.MixedComb.cs_ins Net.MixedComb.cs_nout
    Net.MixedComb.cs_outs Net.MixedComb.cs_done Net.MixedComb.cs_accept.
Proof. exact Net.MixedCombProofs.cs_contract. Qed.

(* Failure propagation at the level of the NETWORK, any interleaving: in every reachable state of a network of
   Scatter / one-input Transformer / Gather log machines, a terminated Transformer whose input history ends with a
   FAILED termination token has an output history ending with a FAILED termination token (so FAILED travels down
   every chain of transformers).
   _partial: one-input transformers only (trivially shape-regular).  The statement for arbitrary shape-regular
   graphs — multi-input Transformer/ConditionalStep reading all the termination tokens in the same round, GatherStep
   reducing the statuses of its two ports — is NOT proved; the round-level fact it would rest on is
   C04_failed_absorbing_round_partial. *)
Theorem C04_failed_propagates_partial : forall win specs ch st i f p l d,
  Net.MixedModel.mwf Net.MixedInst.gtok Net.MixedInst.mspec Net.MixedInst.ms_ins Net.MixedInst.ms_nout win specs ->
  Net.MixedModel.mexec Net.MixedInst.gtok Net.MixedInst.mspec Net.MixedInst.ms_ins Net.MixedInst.ms_outs
    Net.MixedInst.ms_done Net.MixedInst.ms_accept win specs
    (Net.MixedModel.minit Net.MixedInst.gtok Net.MixedInst.mspec specs) ch = Some st ->
  nth_error specs i = Some (Net.MixedInst.MXf f p) -> nth_error st i = Some l ->
  Net.MixedInst.ms_done (Net.MixedInst.MXf f p) l = true ->
  Net.MixedModel.mcontent Net.MixedInst.gtok Net.MixedInst.mspec Net.MixedInst.ms_outs win specs st p
    = d ++ [Net.MixedModel.E FAILED] ->
  Net.MixedModel.term_free_m Net.MixedInst.gtok d ->
  exists d', Net.MixedModel.mcontent Net.MixedInst.gtok Net.MixedInst.mspec Net.MixedInst.ms_outs win specs st (SOut i 0)
               = d' ++ [Net.MixedModel.E FAILED] /\ Net.MixedModel.term_free_m Net.MixedInst.gtok d'.
Proof. exact Net.MixedInstProofs2.xf_failed_propagates. Qed.

(* Failure propagation for ARBITRARY networks of Transformer / ConditionalStep rounds (any graph, shape-regular or not,
   any interleaving): in every reachable state, a terminated step that read a FAILED termination token in the round in
   which it terminated — and no CANCELLED one — is FAILED ([last_heads]: the heads of its last round, read off the
   network state).  With C04_failed_token_means_failed_step (a FAILED token is emitted only by a FAILED step) this is
   the inductive step of "failure travels down every path along which the termination tokens are read in the
   terminating round"; on shape-regular graphs that is every path.  (A step that terminates on a shorter input
   before reading the failed port's token is the counterexample to the unconditional statement.) *)
Theorem C04_failed_propagates_net : forall win specs ch st i sp x s,
  exec imap tgspec t_ins tg_fire_spec win specs (tg_init specs) ch = Some st ->
  nth_error specs i = Some sp -> nth_error st i = Some x -> sterm x = Some s ->
  In (Term FAILED) (last_heads win st sp x) ->
  ~ In (Some CANCELLED) (map tok_status (last_heads win st sp x)) ->
  s = FAILED.
Proof. exact tg_failed_propagates. Qed.

(* Statuses.  _reduce_statuses yields FAILED/CANCELLED exactly when one of them is among its arguments; a round
   that reads a FAILED termination token (and no CANCELLED one) ends the step FAILED whatever it has emitted;
   every status a step terminates with by itself is terminal.
   _partial: the network-level statement "every step downstream of a failed step ends FAILED" is NOT proved: it
   is false when a step terminates on another, shorter input before reading the failed port's token, and
   CANCELLED (only ever injected by the executor's close()) is not absorbing: _get_status turns it into SKIPPED
   when an output port is empty (C04_cancelled_becomes_skipped). *)
Theorem C04_status_bad_iff : forall l,
  (reduce_o l = FAILED \/ reduce_o l = CANCELLED) <-> (In (Some FAILED) l \/ In (Some CANCELLED) l).
Proof. exact reduce_bad_iff. Qed.
Theorem C04_failed_absorbing_round_partial : forall heads any_empty,
  In (Term FAILED) heads -> ~ In (Some CANCELLED) (map tok_status heads) ->
  get_status (reduce_o (map tok_status heads)) any_empty = FAILED.
Proof. exact failed_round_status. Qed.
Theorem C04_terminal_status : forall l any_empty, terminal (get_status (reduce_o l) any_empty) = true.
Proof. exact get_status_terminal. Qed.

(* Executor (closing logic of StreamFlowExecutor as repaired by the fix: commit 7a62372).  State: _closed and every
   step's (terminated, status).  close() turns every unterminated step into a terminated CANCELLED one; the raise of
   run() is READ OFF the state (`if step.status in [FAILED, CANCELLED]: raise`), it is not an input.
   Not modelled, by name: the branch of _wait_outputs that re-opens a closed executor when a new workflow output
   port appears (ports added while running: recovery), and run() for a workflow without output ports. *)

(* whichever way the output loop ended (failed_out: a FAILED/CANCELLED token on an output port -> _cancel; otherwise
   the last port terminated -> close()), when run() returns or raises every step is terminated *)
Theorem C04_executor_terminates_all : forall failed_out x, closed x = false ->
  forallb xs_term (xsteps (snd (x_run_tail x_cancel failed_out x))) = true /\
  closed (snd (x_run_tail x_cancel failed_out x)) = true.
Proof. exact x_run_tail_terminates_all. Qed.

(* run() raises exactly when some step is FAILED/CANCELLED or was still running when the loop ended *)
Theorem C04_executor_raises_iff_bad_status : forall failed_out x, closed x = false ->
  (fst (x_run_tail x_cancel failed_out x) = true <->
   exists s, In s (xsteps x) /\ (xs_bad s = true \/ xs_term s = false)).
Proof. exact x_run_tail_raises_iff. Qed.

(* network side: in every reachable state of a network of round machines (any interleaving), an output history that
   contains a FAILED termination token belongs to a step whose status is FAILED ... *)
Theorem C04_failed_token_means_failed_step :
  forall (L spec : Type) (s_ins : spec -> list src) (s_nout : spec -> nat)
         (fire : spec -> L -> list (list tok) -> list tok -> L * list (list tok) * option status)
         (init_loc : spec -> L) (win : list (list tok)) (specs : list spec),
    fire_contract L spec s_nout fire ->
    forall ch st x l,
      exec L spec s_ins fire win specs (init_state L spec s_nout init_loc specs) ch = Some st ->
      In x st -> In l (souts x) -> In (Term FAILED) l -> sterm x = Some FAILED.
Proof. exact failed_token_failed_step. Qed.

(* ... hence "if any step fails the executor raises and every step ends terminated": with the executor started in the
   state of the network ([net_xstate]: a step is terminated iff it has emitted its termination tokens), a FAILED
   termination token on ANY port makes run() raise, on either path, and every step is terminated when it does *)
Theorem C04_failure_raises_and_terminates_all :
  forall (L spec : Type) (s_ins : spec -> list src) (s_nout : spec -> nat)
         (fire : spec -> L -> list (list tok) -> list tok -> L * list (list tok) * option status)
         (init_loc : spec -> L) (win : list (list tok)) (specs : list spec),
    fire_contract L spec s_nout fire ->
    forall ch st x l failed_out,
      exec L spec s_ins fire win specs (init_state L spec s_nout init_loc specs) ch = Some st ->
      In x st -> In l (souts x) -> In (Term FAILED) l ->
      fst (x_run_tail x_cancel failed_out (net_xstate st)) = true /\
      forallb xs_term (xsteps (snd (x_run_tail x_cancel failed_out (net_xstate st)))) = true.
Proof. exact failure_raises_and_terminates. Qed.

(* the code before the fix: _cancel only set _closed, so with a failed step the handler's close() was a no-op and the
   steps were left exactly as they were, unterminated ones included *)
Theorem C04_prefix_cancel_leaves_steps_refuted : forall x, closed x = false -> existsb xs_bad (xsteps x) = true ->
  x_run_tail x_cancel_prefix true x = (true, mkX true (xsteps x)).
Proof. exact x_prefix_leaves. Qed.

(* known finding (known/C04.txt, sig net/completes/close/tg/sink): on the NORMAL path a step that is still running when
   the last workflow output port terminates (its own outputs are not workflow outputs) is CANCELLED by close() and
   run() raises although no step failed *)
Theorem C04_straggler_makes_run_raise_refuted : forall x, closed x = false ->
  (exists s, In s (xsteps x) /\ xs_term s = false) -> fst (x_run_tail x_cancel false x) = true.
Proof. exact x_straggler_raises. Qed.

(* instances: /a FAILED and terminated, /b still WAITING.  Repaired code: raise, /b CANCELLED and terminated.
   Pre-fix code: raise, /b left WAITING and unterminated.  Nothing failed but /b is a straggler: raise. *)
Example C04_executor_examples :
  x_run_tail x_cancel true (mkX false [mkXS true FAILED; mkXS false WAITING]) =
    (true, mkX true [mkXS true FAILED; mkXS true CANCELLED]) /\
  x_run_tail x_cancel_prefix true (mkX false [mkXS true FAILED; mkXS false WAITING]) =
    (true, mkX true [mkXS true FAILED; mkXS false WAITING]) /\
  x_run_tail x_cancel false (mkX false [mkXS true COMPLETED; mkXS false WAITING]) =
    (true, mkX true [mkXS true COMPLETED; mkXS true CANCELLED]) /\
  x_run_tail x_cancel false (mkX false [mkXS true COMPLETED; mkXS true SKIPPED]) =
    (false, mkX true [mkXS true COMPLETED; mkXS true SKIPPED]).
Proof. repeat split; reflexivity. Qed.

(* scatter -> transform -> gather as log machines, two interleavings (size token before / after the elements): the
   gathered list is the original one; and the gather cannot move before anything was scattered *)
Example C04_scatter_xf_gather_runs :
  let win : list (list Net.MixedInst.gmtok) :=
    [[Net.MixedModel.D (Gather.Model.ListTok "0" [Gather.Model.Tok "0" "a"; Gather.Model.Tok "0" "b"]);
      Net.MixedModel.E COMPLETED]] in
  let specs := [Net.MixedInst.MScatter (WIn 0); Net.MixedInst.MXf (fun x => x) (SOut 0 0);
                Net.MixedInst.MGather 1 (SOut 0 1) (SOut 1 0)] in
  let ex := Net.MixedModel.mexec Net.MixedInst.gtok Net.MixedInst.mspec Net.MixedInst.ms_ins Net.MixedInst.ms_outs
              Net.MixedInst.ms_done Net.MixedInst.ms_accept win specs
              (Net.MixedModel.minit Net.MixedInst.gtok Net.MixedInst.mspec specs) in
  let out st := Net.MixedModel.mcontent Net.MixedInst.gtok Net.MixedInst.mspec Net.MixedInst.ms_outs win specs st (SOut 2 0) in
  let expected := [Net.MixedModel.D (Gather.Model.ListTok "0" [Gather.Model.Tok "0.0" "a"; Gather.Model.Tok "0.1" "b"]);
                   Net.MixedModel.E COMPLETED] in
  option_map out (ex [(0,0);(0,0);(1,0);(2,1);(1,0);(2,0);(1,0);(2,1);(2,0);(2,1)]) = Some expected /\
  option_map out (ex [(0,0);(1,0);(0,0);(2,0);(2,0);(1,0);(1,0);(2,1);(2,1);(2,1)]) = Some expected /\
  ex [(2,0)] = None.
Proof. vm_compute. repeat split; reflexivity. Qed.

(* a dot product over two ports delivering the tags in different orders, two interleavings: the same bag of
   combinations in a different order (merge-style steps are not confluent, only bag-determinate) *)
Example C04_dot_product_runs :
  let win : list (list Net.MixedComb.cmtok) :=
    [[Net.MixedModel.D (1%N, "0.0"); Net.MixedModel.D (2%N, "0.1"); Net.MixedModel.E COMPLETED];
     [Net.MixedModel.D (3%N, "0.1"); Net.MixedModel.D (4%N, "0.0"); Net.MixedModel.E COMPLETED]] in
  let specs := [Net.MixedComb.mkC (Comb.Model.mkouter Comb.Model.KDot [Comb.Model.IPort "a"; Comb.Model.IPort "b"])
                  ["a"; "b"] [WIn 0; WIn 1]] in
  let ex := Net.MixedModel.mexec Net.MixedComb.ctok Net.MixedComb.cspec Net.MixedComb.cs_ins Net.MixedComb.cs_outs
              Net.MixedComb.cs_done Net.MixedComb.cs_accept win specs
              (Net.MixedModel.minit Net.MixedComb.ctok Net.MixedComb.cspec specs) in
  let out st := Net.MixedModel.mcontent Net.MixedComb.ctok Net.MixedComb.cspec Net.MixedComb.cs_outs win specs st (SOut 0 0) in
  option_map out (ex [(0,0);(0,1);(0,0);(0,1);(0,0);(0,1)]) =
    Some [Net.MixedModel.D (2%N, "0.1"); Net.MixedModel.D (1%N, "0.0"); Net.MixedModel.E COMPLETED] /\
  option_map out (ex [(0,1);(0,1);(0,1);(0,0);(0,0);(0,0)]) =
    Some [Net.MixedModel.D (1%N, "0.0"); Net.MixedModel.D (2%N, "0.1"); Net.MixedModel.E COMPLETED] /\
  ex [(0,1);(0,1);(0,1);(0,1)] = None.
Proof. vm_compute. repeat split; reflexivity. Qed.

(* ---- non-vacuity and headline instances *)
Definition ex_win : list (list tok) :=
  [[Tok "0.0" 1; Tok "0.10" 2; Term COMPLETED]; [Tok "0.10" 7; Tok "0.0" 4; Term COMPLETED]]%Z.
Definition ex_specs : list tgspec :=
  [ mkT (KXf 1%Z ["0.10"]) [WIn 0; WIn 1] 1;               (* fails on tag 0.10 *)
    mkT (KCond 2%Z 0%Z [0] true) [SOut 0 0] 0;              (* conditional on the transformer's output *)
    mkT (KXf 0%Z []) [SOut 1 0; WIn 0] 2 ].
Example C04_wf_example : wf_net tgspec t_ins t_nout ex_win ex_specs.
Proof.
  split.
  - intros k H. simpl in H. destruct k as [|[|k]]; [reflexivity|reflexivity|lia].
  - intros i sp H. destruct i as [|[|[|i]]]; simpl in H.
    + inversion H; subst; simpl. split; [discriminate|]. intros p [<-|[<-|[]]]; simpl; lia.
    + inversion H; subst; simpl. split; [discriminate|]. intros p [<-|[]]; simpl.
      split; [lia|]. eexists; split; [reflexivity|unfold t_nout; simpl; lia].
    + inversion H; subst; simpl. split; [discriminate|]. intros p [<-|[<-|[]]]; simpl; [|lia].
      split; [lia|]. eexists; split; [reflexivity|unfold t_nout; simpl; lia].
    + destruct i; discriminate.
Qed.
(* the run: step 0 emits tag 0.0 then fails on 0.10; FAILED reaches steps 1 and 2 *)
Example C04_run_example :
  map (fun x => (sterm x, souts x)) (tg_run ex_win ex_specs 20) =
  [ (Some FAILED, [[Tok "0.0" 6; Term FAILED]]);
    (Some FAILED, [[Tok "0.0" 6; Term FAILED]]);
    (Some FAILED, [[Tok "0.0" 7; Term FAILED]; [Tok "0.0" 7; Term FAILED]]) ]%Z.
Proof. vm_compute. reflexivity. Qed.
(* in the example network the conditional step (index 1) read the transformer's FAILED token in its last round *)
Example C04_failed_propagates_example :
  map (fun i => match nth_error ex_specs i, nth_error (tg_run ex_win ex_specs 20) i with
                | Some sp, Some x => last_heads ex_win (tg_run ex_win ex_specs 20) sp x
                | _, _ => []
                end) [1; 2]
  = [[Term FAILED]; [Term FAILED; Tok "0.10" 2%Z]].
Proof. vm_compute. reflexivity. Qed.
Example C04_cancelled_becomes_skipped : get_status (reduce_o [Some CANCELLED]) true = SKIPPED.
Proof. reflexivity. Qed.
(* Status is an IntEnum: a data token whose value is the int 5, read in the same round as a termination token,
   is taken for Status.FAILED by _reduce_statuses *)
Example C04_int_value_taken_for_status :
  reduce_o (map tok_status [Tok "0.3" 5; Term COMPLETED]) = FAILED.
Proof. reflexivity. Qed.

Print Assumptions C04_net_terminates.
Print Assumptions C04_contract_transformer_conditional.
Print Assumptions C04_tg_net_terminates.
Print Assumptions C04_contract_gather.
Print Assumptions C04_mixed_net_partial.
Print Assumptions C04_contract_scatter_xf_gather.
Print Assumptions C04_failed_propagates_partial.
Print Assumptions C04_failed_propagates_net.
Print Assumptions C04_mixed_net_can_complete.
Print Assumptions C04_contract_combinator.
Print Assumptions C04_status_bad_iff.
Print Assumptions C04_failed_absorbing_round_partial.
Print Assumptions C04_terminal_status.
Print Assumptions C04_executor_terminates_all.
Print Assumptions C04_executor_raises_iff_bad_status.
Print Assumptions C04_failed_token_means_failed_step.
Print Assumptions C04_failure_raises_and_terminates_all.
Print Assumptions C04_prefix_cancel_leaves_steps_refuted.
Print Assumptions C04_straggler_makes_run_raise_refuted.
