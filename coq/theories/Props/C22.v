(* C22 — Transfers reproduce the source data exactly.
   Statements only; proofs live in FsTree/Proofs.v and FsTree/Verbatim.v. *)
From SF Require Import Base.Str FsTree.Model FsTree.Proofs FsTree.Verbatim Shell.Model.
Import ListNotations.
Local Open Scope string_scope. Local Open Scope list_scope.

(* Creating an archive of a tree and extracting it at any path of any file system leaves there exactly the merge of the tree
   over what was there: every member lands where its path says, for trees of any size and shape. *)
Theorem C22_extract_members : forall t p fs, extract (members p t) fs = at_path p (merge t) (Some fs).
Proof. exact extract_members. Qed.

(* ... and where nothing of that name was, the tree itself comes back (regular-file contents, exec bits, directory structure,
   link texts), next to the untouched entries. *)
Theorem C22_archive_roundtrip : forall n t es,
  wf t -> ~ In n (names es) -> extract (members [n] t) (Dir es) = Dir (es ++ [(n, t)]).
Proof. exact archive_roundtrip. Qed.

Example C22_archive_roundtrip_ex :
  extract (members ["s"] (Dir [("a b", File "00ff" true); ("e", Dir []); ("l", Link "a b")])) (Dir [("keep", File "k" false)])
  = Dir [("keep", File "k" false); ("s", Dir [("a b", File "00ff" true); ("e", Dir []); ("l", Link "a b")])].
Proof. vm_compute. reflexivity. Qed.

(* The property, for the decision-table + tree-transformer model.  For every source tree t with unique names whose
   dereferenced form is t', every destination state (absent, or an existing directory without an entry named like the source),
   writable or read-only, in every cell of the routing tables listed by [cell_proved]
   (local->remote; same location; remote->other location when the destination is a directory or keeps the basename;
   local->local read-only or of a regular file): the entry at the path transfer_data registers is a copy equal to t', or
   the source tree itself (cp -rf: its links resolve to t'), or -- read-only only -- a link to the source.
   _partial: remote->local (extract_tar_stream loop), --strip-components 1 (renamed directory), tee (renamed file) and the
   local copytree of a directory are modelled and exercised by the correspondence but not covered by this theorem; the last
   two are refuted below where they do not hold. *)
Theorem C22_transfer_partial : forall fuel r w dst sname dname t t' fs',
  dst_ok dst sname -> wf t -> wf t' ->
  deref fuel t [] t = Some t' ->
  cell_proved r w dst sname dname t = true ->
  transfer fuel r w dst sname dname t = Some fs' ->
  exists c, lookup fs' (place dst sname dname) = Some c /\ copy_ok w t t' c.
Proof. exact transfer_core. Qed.

Example C22_transfer_ex :
  let t := Dir [("a", File "00ff" true); ("l", Link "a"); ("sub", Dir [("up", Link "../a")])] in
  let t' := Dir [("a", File "00ff" true); ("l", File "00ff" true); ("sub", Dir [("up", File "00ff" true)])] in
  deref FUEL t [] t = Some t' /\ wf t /\ wf t' /\ dst_ok (Some (Dir [("zz", File "k" false)])) "s"
  /\ cell_proved RRother false (Some (Dir [("zz", File "k" false)])) "s" "d" t = true
  /\ transfer FUEL RRother false (Some (Dir [("zz", File "k" false)])) "s" "d" t
     = Some (Dir [("d", Dir [("zz", File "k" false); ("s", t')])]).
Proof.
  vm_compute. repeat split; try (repeat constructor; simpl; intuition discriminate).
  right. eexists. split; [reflexivity|]. simpl. intuition discriminate.
Qed.

(* What was in an existing destination directory under another name is still there afterwards. *)
Theorem C22_frame : forall fuel r w es sname dname t fs' m,
  m <> sname -> cell_proved r w (Some (Dir es)) sname dname t = true ->
  transfer fuel r w (Some (Dir es)) sname dname t = Some fs' ->
  lookup fs' [dname; m] = lookup1 m es.
Proof. exact transfer_frame. Qed.

(* Refuted cells (each replayed on the real code, see known/C22.txt). *)
Theorem C22_exec_bit_refuted :
  exists c, transfer FUEL RRother true None "s" "other" (File c true) = Some (Dir [("other", File c false)]).
Proof. exact exec_bit_lost. Qed.

Theorem C22_local_merge_refuted :
  exists fs', transfer FUEL LL true (Some (Dir [])) "s" "d" (Dir [("a", File "x" false)]) = Some fs'
              /\ lookup fs' (place (Some (Dir [])) "s" "d") = None
              /\ lookup fs' ["d"; "a"] = Some (File "x" false).
Proof. exact local_merge_misplaced. Qed.

(* The command lines are ' '.join(command) read by a shell: with roots made of shlex-safe characters every word reaches its
   tool verbatim (so the tree semantics above applies); a blank already splits the source name in two. *)
Theorem C22_commands_verbatim_partial : forall dir name src dst w,
  safe_word dir = true -> safe_word name = true -> safe_word src = true -> safe_word dst = true ->
  sh_words (join " " (reader_cmd dir name)) = Some (reader_cmd dir name) /\
  sh_words (join " " (writer_into dst)) = Some (writer_into dst) /\
  sh_words (join " " (writer_strip dst)) = Some (writer_strip dst) /\
  sh_words (join " " (same_loc_cmd w src dst)) = Some (same_loc_cmd w src dst) /\
  sh_words (join " " (mkdir_cmd dst)) = Some (mkdir_cmd dst).
Proof. exact transfer_commands_verbatim. Qed.

Example C22_commands_verbatim_ex : safe_word "/var/tmp/x-1/S" = true /\ safe_word "s.dat" = true.
Proof. vm_compute. split; reflexivity. Qed.

Theorem C22_unquoted_root_refuted :
  sh_words (join " " (reader_cmd "/r" "a b")) = Some ["tar"; "chf"; "-"; "-C"; "/r"; "a"; "b"].
Proof. exact blank_not_verbatim. Qed.

Print Assumptions C22_extract_members.
Print Assumptions C22_archive_roundtrip.
Print Assumptions C22_transfer_partial.
Print Assumptions C22_frame.
Print Assumptions C22_exec_bit_refuted.
Print Assumptions C22_local_merge_refuted.
Print Assumptions C22_commands_verbatim_partial.
Print Assumptions C22_unquoted_root_refuted.
