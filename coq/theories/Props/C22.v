(* C22 — Transfers reproduce the source data exactly.
   Statements only; proofs live in FsTree/Proofs.v and FsTree/Verbatim.v. *)
From SF Require Import Base.Str FsTree.Model FsTree.Proofs FsTree.Cells FsTree.Verbatim FsTree.Registry Shell.Model.
From SF Require DataReg.Model Tags.Model Tags.Proofs.
From SF Require Import FsTree.Paths.
Import ListNotations.
Local Open Scope string_scope. Local Open Scope list_scope.

(* Creating an archive of a tree and extracting it at a path of a file system leaves there exactly the merge of the tree over
   what was there: every member lands where its path says, for trees of any size and shape.  Stated on the domain where the
   total tree functions stand for the tools: no kind conflict ([no_conflict]: no regular file where a directory has to go,
   on the way to the path or below it, and no directory where a file has to go) -- outside it tar/tarfile/cp refuse or
   half-copy and the model does not describe them (C22_conflict_outside_model). *)
Theorem C22_extract_members : forall t p fs,
  no_conflict p t fs -> extract (members p t) fs = at_path p (merge t) (Some fs).
Proof. exact extract_members_dom. Qed.

Theorem C22_dst_ok_no_conflict : forall dst sname dname u,
  dst_ok dst sname -> no_conflict (place dst sname dname) u (world dname dst).
Proof. exact dst_ok_no_conflict. Qed.

Theorem C22_conflict_outside_model :
  ~ no_conflict ["d"; "s"] (Dir []) (Dir [("d", Dir [("s", File "old" false)])]) /\
  extract (members ["d"; "s"] (Dir [])) (Dir [("d", Dir [("s", File "old" false)])]) = Dir [("d", Dir [("s", Dir [])])].
Proof. exact conflict_is_outside. Qed.

(* ... and where nothing of that name was, the tree itself comes back (regular-file contents, exec bits, directory structure,
   link texts), next to the untouched entries. *)
Theorem C22_archive_roundtrip : forall n t es,
  wf t -> ~ In n (names es) -> extract (members [n] t) (Dir es) = Dir (es ++ [(n, t)]).
Proof. exact archive_roundtrip. Qed.

Example C22_archive_roundtrip_ex :
  extract (members ["s"] (Dir [("a b", File "00ff" true); ("e", Dir []); ("l", Link "a b")])) (Dir [("keep", File "k" false)])
  = Dir [("keep", File "k" false); ("s", Dir [("a b", File "00ff" true); ("e", Dir []); ("l", Link "a b")])].
Proof. vm_compute. reflexivity. Qed.

(* mkdir -p dst; tar x -C dst --strip-components 1 (and makedirs + copytree) = extracting the tree under the new name. *)
Theorem C22_strip_components : forall d s es fs,
  no_conflict d (Dir es) fs ->
  extract (reroot d (strip1' (members [s] (Dir es)))) (insert fs (d, MDir)) = extract (members d (Dir es)) fs.
Proof. exact strip_extract_dom. Qed.

(* The extract_tar_stream loop (one member at a time, isdir(dst) asked of the evolving file system, relpath against the
   source's basename, dst re-bound after a root directory lands in an existing directory) = plain extraction at the
   registered place, for every archive of a tree and both destination states. *)
Theorem C22_remote_to_local_loop : forall dst sname dname t',
  dst_ok dst sname ->
  r2l dst sname dname t' = extract (members (place dst sname dname) t') (world dname dst).
Proof. exact r2l_eq_dom. Qed.

(* The same loop with Python's errors ([r2l_chk]: NotADirectoryError / IsADirectoryError / FileExistsError stop it): if it does
   not raise, the file system is the one of the error-free model; if it raises, it raised at the first member that cannot be
   written and the file system is exactly what the members before it wrote -- for every archive and EVERY destination state,
   kind conflicts included.  (What remains outside the model is GNU tar on the remote side, which carries on after a member it
   cannot write, and cp/ln refusals: C22_conflict_outside_model.) *)
Theorem C22_extract_loop_clean : forall dst sname dname t' fs,
  r2l_chk dst sname dname t' = (fs, false) -> fs = r2l dst sname dname t'.
Proof. exact r2l_chk_clean. Qed.

Theorem C22_extract_loop_partial : forall dst sname dname t' fs,
  r2l_chk dst sname dname t' = (fs, true) ->
  exists k mb,
    nth_error (members [sname] t') k = Some mb /\
    fs = fst (fold_left (py_step sname) (firstn k (members [sname] t')) (world dname dst, [dname])) /\
    py_bad sname (fold_left (py_step sname) (firstn k (members [sname] t')) (world dname dst, [dname])) mb = true.
Proof. exact r2l_chk_partial. Qed.

Example C22_extract_loop_ex :
  r2l_chk (Some (Dir [("s", File "old" false)])) "s" "d" (Dir [("a", File "x" false)])
    = (Dir [("d", Dir [("s", File "old" false)])], true) /\
  r2l_chk (Some (File "old" false)) "s" "d" (Dir [("a", File "x" false)]) = (Dir [("d", File "old" false)], true) /\
  r2l_chk (Some (Dir [("s", Dir [("in", File "old" false)])])) "s" "d" (File "x" true)
    = (Dir [("d", Dir [("s", Dir [("in", File "old" false)])])], true) /\
  r2l_chk (Some (Dir [("s", Dir [("b", Dir [])])])) "s" "d" (Dir [("a", File "x" false); ("b", File "y" false); ("c", File "z" false)])
    = (Dir [("d", Dir [("s", Dir [("b", Dir []); ("a", File "x" false)])])], true) /\
  r2l_chk (Some (Dir [])) "s" "d" (Dir [("a", File "x" false)]) = (Dir [("d", Dir [("s", Dir [("a", File "x" false)])])], false).
Proof. exact r2l_chk_witnesses. Qed.

(* Dereferencing keeps trees well formed (same names, directory by directory). *)
Theorem C22_deref_wf : forall root, wf root -> forall fuel self t t', wf t -> deref fuel root self t = Some t' -> wf t'.
Proof. exact wf_deref. Qed.

(* The property, for the decision-table + tree-transformer model.  For every source tree t with unique names whose
   dereferenced form is t', every destination state (absent, or an existing directory without an entry named like the source),
   writable or read-only, every route, in every cell of the routing tables except the two refuted below ([cell_ok];
   C22_cells_excluded says these are the only ones left out): the entry at the path transfer_data registers is a copy equal
   to t', or the source tree itself (cp -rf: its links resolve to t'), or -- read-only only -- a link to the source;
   [copy_exact] says which, route by route (same location writable: the tree itself; same location / local read-only: the
   link; every other cell: t').  NOT covered (outside [dst_ok]): a destination that is an existing regular file, and a
   destination directory that already holds an entry named like the source (re-transfer over an earlier copy, kind
   conflicts) -- these are run by the correspondence and judged by the oracle only, see known/C22.txt.
   _partial with respect to the property text: two cells are refuted; tools are modelled from their manuals; paths are
   component lists; the registry is C21's. *)
Theorem C22_transfer_partial : forall fuel r w dst sname dname t t' fs',
  dst_ok dst sname -> wf t ->
  deref fuel t [] t = Some t' ->
  cell_ok r w dst sname dname t = true ->
  transfer fuel r w dst sname dname t = Some fs' ->
  exists c, lookup fs' (place dst sname dname) = Some c /\ copy_exact r w t t' c.
Proof. exact transfer_all. Qed.

Theorem C22_cells_excluded : forall r w dst sname dname t,
  cell_ok r w dst sname dname t = false ->
  (r = LL /\ w = true /\ is_dir_t t = true /\ is_dir dst = true) \/
  (r = RRother /\ is_dir dst = false /\ String.eqb sname dname = false /\ is_dir_t t = false /\ plain_file t = false).
Proof. exact cells_excluded. Qed.

Example C22_transfer_ex :
  let t := Dir [("a", File "00ff" true); ("l", Link "a"); ("sub", Dir [("up", Link "../a")])] in
  let t' := Dir [("a", File "00ff" true); ("l", File "00ff" true); ("sub", Dir [("up", File "00ff" true)])] in
  deref FUEL t [] t = Some t' /\ wf t /\ wf t' /\ dst_ok (Some (Dir [("zz", File "k" false)])) "s"
  /\ cell_ok RL false (Some (Dir [("zz", File "k" false)])) "s" "d" t = true
  /\ transfer FUEL RL false (Some (Dir [("zz", File "k" false)])) "s" "d" t
     = Some (Dir [("d", Dir [("zz", File "k" false); ("s", t')])]).
Proof.
  vm_compute. repeat split; try (repeat constructor; simpl; intuition discriminate).
  right. eexists. split; [reflexivity|]. simpl. intuition discriminate.
Qed.

Example C22_transfer_strip_ex :
  cell_ok RRother true None "s" "other" (Dir [("a", File "x" true)]) = true /\
  transfer FUEL RRother true None "s" "other" (Dir [("a", File "x" true)]) = Some (Dir [("other", Dir [("a", File "x" true)])]).
Proof. vm_compute. split; reflexivity. Qed.

Example C22_transfer_tee_ex :
  cell_ok RRother false None "s" "other" (File "x" false) = true /\
  transfer FUEL RRother false None "s" "other" (File "x" false) = Some (Dir [("other", File "x" false)]).
Proof. vm_compute. split; reflexivity. Qed.

(* Re-transfer over an earlier copy -- what every recovery retry does.  On the tar routes (local->remote, remote->local,
   remote->other location), for every source tree t with unique names and EVERY earlier tree t0 found under the source's name in
   the destination directory that has the shape of the dereferenced source ([same_shape]: same names in the same order, directory
   for directory, non-directory for non-directory -- no kind conflict; contents, exec bits, link texts arbitrary, i.e. any
   out-of-date copy): afterwards the entry is exactly deref t and every other entry of the directory is untouched.  (With other
   names in t0 the result is the merge of C22_extract_members; the non-tar routes do NOT have this property: known/C22.txt.) *)
Theorem C22_retransfer_tar : forall fuel r w es sname dname t t' t0 fs',
  tar_route r = true -> wf t ->
  deref fuel t [] t = Some t' ->
  lookup1 sname es = Some t0 -> same_shape t' t0 ->
  transfer fuel r w (Some (Dir es)) sname dname t = Some fs' ->
  lookup fs' [dname; sname] = Some t' /\
  (forall m, m <> sname -> lookup fs' [dname; m] = lookup1 m es).
Proof. exact retransfer_tar. Qed.

Example C22_retransfer_ex :
  let t := Dir [("a", File "new" true); ("l", Link "a"); ("sub", Dir [("k", File "k2" false)])] in
  let t0 := Dir [("a", File "old" false); ("l", File "old" false); ("sub", Dir [("k", File "old" true)])] in
  let t' := Dir [("a", File "new" true); ("l", File "new" true); ("sub", Dir [("k", File "k2" false)])] in
  deref FUEL t [] t = Some t' /\ same_shape t' t0 /\
  transfer FUEL RL false (Some (Dir [("zz", File "keep" false); ("s", t0)])) "s" "d" t
  = Some (Dir [("d", Dir [("zz", File "keep" false); ("s", t')])]).
Proof. vm_compute. repeat split. Qed.

(* What was in an existing destination directory under another name is still there afterwards. *)
Theorem C22_frame : forall fuel r w es sname dname t fs' m,
  dst_ok (Some (Dir es)) sname ->
  m <> sname -> cell_ok r w (Some (Dir es)) sname dname t = true ->
  transfer fuel r w (Some (Dir es)) sname dname t = Some fs' ->
  lookup fs' [dname; m] = lookup1 m es.
Proof. exact transfer_frame_dom. Qed.

(* Refuted cells (each replayed on the real code, see known/C22.txt). *)
Theorem C22_exec_bit_refuted :
  exists c, transfer FUEL RRother true None "s" "other" (File c true) = Some (Dir [("other", File c false)]).
Proof. exact exec_bit_lost. Qed.

Theorem C22_local_merge_refuted :
  exists fs', transfer FUEL LL true (Some (Dir [])) "s" "d" (Dir [("a", File "x" false)]) = Some fs'
              /\ lookup fs' (place (Some (Dir [])) "s" "d") = None
              /\ lookup fs' ["d"; "a"] = Some (File "x" false).
Proof. exact local_merge_misplaced. Qed.

(* The command lines are ' '.join(command) read by a shell: with roots made of shlex-safe characters every word reaches its
   tool verbatim (so the tree semantics above applies); a blank already splits the source name in two. *)
Theorem C22_commands_verbatim_partial : forall dir name src dst w,
  safe_word dir = true -> safe_word name = true -> safe_word src = true -> safe_word dst = true ->
  sh_words (join " " (reader_cmd dir name)) = Some (reader_cmd dir name) /\
  sh_words (join " " (writer_into dst)) = Some (writer_into dst) /\
  sh_words (join " " (writer_strip dst)) = Some (writer_strip dst) /\
  sh_words (join " " (same_loc_cmd w src dst)) = Some (same_loc_cmd w src dst) /\
  sh_words (join " " (mkdir_cmd dst)) = Some (mkdir_cmd dst).
Proof. exact transfer_commands_verbatim. Qed.

Example C22_commands_verbatim_ex : safe_word "/var/tmp/x-1/S" = true /\ safe_word "s.dat" = true.
Proof. vm_compute. split; reflexivity. Qed.

Theorem C22_unquoted_root_refuted :
  sh_words (join " " (reader_cmd "/r" "a b")) = Some ["tar"; "chf"; "-"; "-C"; "/r"; "a"; "b"].
Proof. exact blank_not_verbatim. Qed.

(* The registry half, over C21's model of the data manager (DataReg): after the registry operations transfer_data performs
   for a destination location that wraps no other one -- in ANY registry state, for any location table -- the destination path
   and its parent directory are available on the destination location, the object created for the destination carries the
   data type observed after the copy (PRIMARY for a writable transfer, else PRIMARY or SYMBOLIC_LINK as `test -L` says), the
   source object is exactly what it was, and every copy that was valid before (the source's among them) is still available.
   [place] is FsTree's registered path prefixed by the destination's parent path; wrapped destinations: correspondence only. *)
Theorem C22_registered : forall tab s li place rsrc w ty dsrc,
  ty <> DataReg.Model.INVALID -> DataReg.Model.hget s rsrc = Some dsrc ->
  let s' := fst (reg_transfer tab s li place rsrc w ty) in
  let r := snd (reg_transfer tab s li place rsrc w ty) in
  DataReg.Model.available s' place (DataReg.Model.key_of tab li) = true /\
  DataReg.Model.available s' (removelast place) (DataReg.Model.key_of tab li) = true /\
  DataReg.Model.hget s' r
    = Some (DataReg.Model.mkdloc (DataReg.Model.key_of tab li) place (if w then DataReg.Model.PRIMARY else ty)) /\
  DataReg.Model.hget s' rsrc = Some dsrc /\
  (forall np key, DataReg.Model.has_valid s np key np = true -> DataReg.Model.available s' np key = true).
Proof. exact registered. Qed.

Example C22_registered_ex :
  let tab := [DataReg.Model.mkloc ("__LOCAL__", "__LOCAL__") true None []; DataReg.Model.mkloc ("r1", "a") false None []] in
  let s := fst (DataReg.Model.register tab DataReg.Model.init 0 ["S"; "s"] DataReg.Model.PRIMARY) in
  let s' := fst (reg_transfer tab s 1 ["D"; "d"; "s"] 0 false DataReg.Model.SYMBOLIC_LINK) in
  DataReg.Model.hget s 0 = Some (DataReg.Model.mkdloc ("__LOCAL__", "__LOCAL__") ["S"; "s"] DataReg.Model.PRIMARY) /\
  map (DataReg.Model.item_of s') (DataReg.Model.get_dl s' ["D"; "d"; "s"] (Some "r1") (Some "a") None)
    = [Some (("r1", "a"), ["D"; "d"; "s"], DataReg.Model.SYMBOLIC_LINK)] /\
  map (DataReg.Model.item_of s') (DataReg.Model.get_dl s' ["D"; "d"] (Some "r1") (Some "a") None)
    = [Some (("r1", "a"), ["D"; "d"], DataReg.Model.PRIMARY)].
Proof. vm_compute. repeat split. Qed.

(* Path strings and component lists (over Tags' PurePosixPath/posixpath fragment): for components that are non-empty, not "."
   and free of "/", the absolute path string determines the component list; posixpath.join(dst, name) is dst ++ [name] and
   posixpath.split gives (dst, name) back; relpath(member, basename(src)) drops the first component (the [tl] of the loop
   model).  _partial: normpath / ".." / trailing slashes are outside (transfer_data passes resolved paths). *)
Theorem C22_path_strings_partial : forall dp n s rest,
  (forall c, In c dp -> Tags.Proofs.good_comp c) -> Tags.Proofs.good_comp n ->
  (forall c, In c (s :: rest) -> Tags.Proofs.good_comp c) ->
  Tags.Model.pp_parts (Tags.Proofs.abs_path (dp ++ [n])) = dp ++ [n] /\
  Tags.Model.posix_join (Tags.Proofs.abs_path dp) n = Tags.Proofs.abs_path (dp ++ [n]) /\
  Tags.Model.pp_parent (Tags.Proofs.abs_path (dp ++ [n])) = Tags.Proofs.abs_path dp /\
  Tags.Model.pp_name (Tags.Proofs.abs_path (dp ++ [n])) = n /\
  relpath_parts (member_name (s :: rest)) s = rest.
Proof. exact path_strings. Qed.

Example C22_path_strings_ex :
  Tags.Model.posix_join "/var/tmp/D" "a b" = "/var/tmp/D/a b" /\ relpath_parts "s/sub/k" "s" = ["sub"; "k"].
Proof. vm_compute. split; reflexivity. Qed.

Print Assumptions C22_extract_members.
Print Assumptions C22_dst_ok_no_conflict.
Print Assumptions C22_conflict_outside_model.
Print Assumptions C22_archive_roundtrip.
Print Assumptions C22_strip_components.
Print Assumptions C22_remote_to_local_loop.
Print Assumptions C22_deref_wf.
Print Assumptions C22_transfer_partial.
Print Assumptions C22_cells_excluded.
Print Assumptions C22_frame.
Print Assumptions C22_exec_bit_refuted.
Print Assumptions C22_local_merge_refuted.
Print Assumptions C22_commands_verbatim_partial.
Print Assumptions C22_unquoted_root_refuted.
Print Assumptions C22_registered.
Print Assumptions C22_path_strings_partial.
Print Assumptions C22_retransfer_tar.
Print Assumptions C22_extract_loop_clean.
Print Assumptions C22_extract_loop_partial.
