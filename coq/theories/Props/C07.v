(* Props/C07.v — Recorded provenance is complete and acyclic.
   Level: translation validation by a proven-sound checker (run inside Coq on the dumped tables of every
   generated execution) + theorems about the writing discipline of BaseStep._persist_token. *)
From Coq Require Import List NArith.
From Coq Require Import ZArith Permutation.
From SF Require Import Base.Str Prov.Model Prov.Proofs Prov.Steps Prov.StepsProofs.
From SF Require Tags.Model Net.Model Gather.Model Gather.Proofs Comb.Model Comb.Proofs Comb.Flat Comb.Cart Loop.Model Loop.Proofs.
Import ListNotations.
Local Open Scope string_scope. Local Open Scope list_scope.

(* If the checker accepts a dump (ids of the `token` rows, rows of `provenance`, and for every emitted token the
   set of persisted tokens it was computed from), then: every edge joins persisted tokens and goes from a
   smaller id to a larger one; along every path ids increase, so the relation is acyclic; every emitted token
   is persisted and its recorded dependees are EXACTLY the expected ones; and no edge points to a token that no
   step emitted.  "dependee persisted before depender" follows from dependee id < depender id because SQLite
   allocates increasing rowids to successive INSERTs (trusted, not proved). *)
Theorem C07_checker_sound : forall toks edges expected,
  prov_ok toks edges expected = true ->
  (forall a b, In (a, b) edges -> In a toks /\ In b toks /\ (a < b)%N) /\
  (forall x y, path edges x y -> (x < y)%N) /\
  (forall x, ~ path edges x x) /\
  (forall t ins, In (t, ins) expected -> In t toks /\ forall a, In (a, t) edges <-> In a ins) /\
  (forall a b, In (a, b) edges -> exists ins, In (b, ins) expected).
Proof. exact prov_ok_sound. Qed.

(* The writing discipline, for ANY interleaving of _persist_token calls of any number of steps (each call =
   evaluate get_entity_ids(inputs) / token.save / add_provenance, with suspension points in between): every edge
   ever written goes from an older id to a newer, allocated one.  So acyclicity is not an accident of the runs
   that were checked.
   _partial: that the ids passed by each step class are exactly the tokens it consumed ("complete") is NOT a
   theorem here: it is decided per run by the checker against expectations computed by the harness from the
   tags (Transformer/Conditional/Scatter/Gather) or taken from the step's own call (combinators). *)
Theorem C07_discipline_keeps_order_partial : forall ops n d,
  prun (pinit n) ops = Some d ->
  forall a b, In (a, b) (pedges d) -> (a < b)%N /\ (b < next d)%N.
Proof. exact discipline_keeps_order. Qed.

(* ================= step level: what each step kind passes to _persist_token as input_token_ids (Prov/Steps.v mirrors the
   `input_token_ids=` / get_entity_ids(...) arguments of workflow/step.py on top of the step models proved in the
   other areas), and that this is exactly what the step consumed to compute the token — for every arrival order.
   What stays per-run only (decided by the checker on the dumped tables, not proved): ExecuteStep / ScheduleStep /
   TransferStep / InputInjectorStep (job tokens, connector tokens), ListMergeCombinator, DefaultTransformer,
   LoopOutputStep with policy "last", combinators outside C02's shapes. *)

(* ScatterStep._scatter(token): the n elements and the size token are each recorded with exactly [id of token] *)
Theorem C07_step_inputs_scatter : forall id n,
  length (scatter_prov id n) = S n /\ forall r, In r (scatter_prov id n) -> r = [id].
Proof. intros id n. split; [apply scatter_count|apply scatter_inputs]. Qed.

(* Transformer.run / ConditionalStep.run (Net.Model's round, tokens carrying their id): for ANY sequence of rounds —
   any port contents, tags in any order, groups completing rounds later — every record (tag g, ids) is
   get_entity_ids of one complete group: nin tokens, one per input port (distinct port indices), all tagged g *)
Theorem C07_step_inputs_transformer_rounds : forall k nin nout rounds g ids,
  In (g, ids) (rounds_prov k nin nout [] rounds) ->
  exists inner : list (nat * Net.Model.tok),
    ids = group_ids inner /\ length inner = nin /\ NoDup (map fst inner) /\
    forall p, In p inner -> Net.Model.tok_tag (snd p) = g.
Proof.
  intros k nin nout rounds g ids H.
  destruct (rounds_inputs k nin nout rounds [] g ids imap_ok_nil H) as [inner [E [[T N] L]]].
  exists inner. repeat split; auto.
Qed.

(* get_entity_ids (what every step wraps its inputs in before _persist_token): exactly the ids of the entities that have
   one — an unpersisted entity (None) is dropped silently, which is how an input that was never persisted goes
   missing from the provenance without any error; the truthiness test would also drop an id 0 *)
Theorem C07_get_entity_ids : forall l i, In i (get_entity_ids l) <-> (In (Some i) l /\ i <> 0%N).
Proof. exact get_entity_ids_spec. Qed.

(* Transformer / ConditionalStep rounds, strengthened: the tokens of a recorded group were CONSUMED — each is a head of
   one of the rounds, at the port index it is stored under.  Q is any predicate true of every (port, head) pair. *)
Theorem C07_step_inputs_transformer_consumed : forall k nin nout rounds g ids,
  In (g, ids) (rounds_prov k nin nout [] rounds) ->
  exists inner : list (nat * Net.Model.tok),
    ids = group_ids inner /\ length inner = nin /\ NoDup (map fst inner) /\
    (forall p, In p inner -> Net.Model.tok_tag (snd p) = g) /\
    forall p, In p inner -> exists heads, In heads rounds /\ nth_error heads (fst p) = Some (snd p).
Proof.
  intros k nin nout rounds g ids H.
  destruct (rounds_inputs_consumed k nin nout rounds [] g ids
              (fun p => exists heads, In heads rounds /\ nth_error heads (fst p) = Some (snd p)) imap_ok_nil)
    as [inner [E [[T N] [L C]]]]; auto.
  - intros g0 inner0 [].
  - intros heads j t Hin Hj. exists heads. auto.
  - exists inner. repeat split; auto.
Qed.

(* GatherStep._gather (C01's model): for every legal arrival order of the scattered instances, every emitted token is
   the list of one instance and its recorded inputs are the size token of that key followed by every element
   token of that key, each once *)
Theorem C07_step_inputs_gather :
  forall (sid : Gather.Proofs.inst -> N) (insts : list Gather.Proofs.inst) l1 l2 p1 p2,
  Forall Gather.Proofs.inst_ok insts -> NoDup (map Gather.Proofs.ikey insts) ->
  Permutation (l1 ++ l2) (Gather.Proofs.all_arrivals insts) -> p1 <> p2 ->
  (forall a, In a l2 -> Gather.Model.port_of a <> p1) ->
  let s := Gather.Model.gather_run 1
             (l1 ++ Gather.Model.OnTerm p1 Gather.Model.Completed :: l2 ++ [Gather.Model.OnTerm p2 Gather.Model.Completed]) in
  forall out, In out (Gather.Model.gout (Gather.Model.gd s)) ->
    exists i, In i insts /\ out = Gather.Model.ListTok (Gather.Proofs.ikey i) (snd i) /\
              gather_prov (sizes_of sid insts) out = sid i :: map tok_id (snd i).
Proof. exact gather_inputs. Qed.

(* CombinatorStep with the flat dot product (C02's model, tokens = (id, tag)): for every arrival order nothing is
   raised and every emitted combination records the ids of exactly the n tokens of its tag, one per port *)
Theorem C07_step_inputs_dot : forall items (arr : list Comb.Flat.arv), Comb.Flat.wf items arr ->
  snd (Comb.Model.run (Comb.Proofs.c1 items) Comb.Model.init_state arr) = None /\
  forall s, In s (concat (fst (Comb.Model.run (Comb.Proofs.c1 items) Comb.Model.init_state arr))) ->
    exists g, length (Comb.Flat.sel g arr) = length items /\ NoDup (map fst (Comb.Flat.sel g arr)) /\
              schema_ids s = map (fun x : Comb.Flat.arv => fst (snd x)) (Comb.Flat.sel g arr).
Proof. exact dot_inputs. Qed.

(* ... and with the cartesian product of depth d >= 1: the ids of one arrived token per port, in port order *)
Theorem C07_step_inputs_cartesian : forall items d (Hd : d <> 0) (arr : list Comb.Flat.arv),
  items <> [] -> Comb.Cart.wfc items d arr ->
  snd (Comb.Model.run (Comb.Cart.cc items d) Comb.Model.init_state arr) = None /\
  forall s, In s (concat (fst (Comb.Model.run (Comb.Cart.cc items d) Comb.Model.init_state arr))) ->
    exists ch, map fst ch = items /\ (forall y, In y ch -> In y arr) /\
               schema_ids s = map (fun x : Comb.Flat.arv => fst (snd x)) ch.
Proof. exact cart_inputs. Qed.

(* LoopOutputStep, policy "all" (C06's model): the recorded inputs of an instance's output are all its iteration tokens.
   _partial: policy "last" records the same ids but its emitted token does not hold them; not stated here. *)
Theorem C07_step_inputs_loop_output_all_partial :
  forall (insts : list Gather.Proofs.inst) (arr : list Loop.Model.larr),
  Forall Gather.Proofs.inst_ok insts -> NoDup (map Gather.Proofs.ikey insts) ->
  Permutation arr (Loop.Proofs.all_larr insts) ->
  forall out, In out (Loop.Model.lout (Loop.Model.loop_run Loop.Model.OutAll (arr ++ [Loop.Model.LTerm Gather.Model.Completed]))) ->
    exists i, In i insts /\ out = Gather.Model.ListTok (Tags.Model.render (fst i)) (snd i) /\
              loop_prov out = map tok_id (snd i).
Proof. exact loop_all_inputs. Qed.

(* known finding (known/C07.txt, sig prov/wrong-dependees/job-pairing): ExecuteStep._check_inputs runs the k-th tag that
   completes under the k-th job of the job port; when the two orders differ a tag is linked to another tag's job *)
Theorem C07_execute_job_pairing_refuted : exists jobs completed j t,
  Permutation jobs completed /\ In (j, t) (pair_jobs jobs completed) /\ j <> t.
Proof. exact job_pairing_refuted. Qed.

(* instances *)
Example C07_rounds_example :
  rounds_prov (Net.Model.KXf 0%Z []) 2 1 []
    [[Net.Model.Tok "0.0" 1%Z; Net.Model.Tok "0.1" 3%Z]; [Net.Model.Tok "0.1" 2%Z; Net.Model.Tok "0.0" 4%Z]]
  = [("0.0", [1; 4]%Z); ("0.1", [3; 2]%Z)].
Proof. vm_compute. reflexivity. Qed.

(* non-vacuity: an accepted dump with a diamond, a rejected one (missing edge), a rejected cycle *)
Example C07_accepts : prov_ok [1;2;3;4;5]%N [(1,3);(2,3);(3,4);(3,5)]%N [(3,[2;1]);(4,[3]);(5,[3])]%N = true.
Proof. reflexivity. Qed.
Example C07_rejects_missing_edge : prov_ok [1;2;3]%N [(1,3)]%N [(3,[1;2])]%N = false.
Proof. reflexivity. Qed.
Example C07_rejects_cycle : prov_ok [1;2]%N [(1,2);(2,1)]%N [(1,[2]);(2,[1])]%N = false.
Proof. reflexivity. Qed.
Example C07_discipline_example :
  option_map pedges (prun (pinit 3) [Begin 0 [1;2]; Begin 1 [2]; Save 1; Save 0; Prov 0; Prov 1]%N)
  = Some [(2,3);(1,4);(2,4)]%N.
Proof. reflexivity. Qed.

Print Assumptions C07_checker_sound.
Print Assumptions C07_discipline_keeps_order_partial.
Print Assumptions C07_step_inputs_scatter.
Print Assumptions C07_step_inputs_transformer_rounds.
Print Assumptions C07_step_inputs_transformer_consumed.
Print Assumptions C07_get_entity_ids.
Print Assumptions C07_step_inputs_gather.
Print Assumptions C07_step_inputs_dot.
Print Assumptions C07_step_inputs_cartesian.
Print Assumptions C07_step_inputs_loop_output_all_partial.
Print Assumptions C07_execute_job_pairing_refuted.
