(* Props/C07.v — Recorded provenance is complete and acyclic.
   Level: translation validation by a proven-sound checker (run inside Coq on the dumped tables of every
   generated execution) + theorems about the writing discipline of BaseStep._persist_token. *)
From Coq Require Import List NArith.
From SF Require Import Prov.Model Prov.Proofs.
Import ListNotations.

(* If the checker accepts a dump (ids of the `token` rows, rows of `provenance`, and for every emitted token the
   set of persisted tokens it was computed from), then: every edge joins persisted tokens and goes from a
   smaller id to a larger one; along every path ids increase, so the relation is acyclic; every emitted token
   is persisted and its recorded dependees are EXACTLY the expected ones; and no edge points to a token that no
   step emitted.  "dependee persisted before depender" follows from dependee id < depender id because SQLite
   allocates increasing rowids to successive INSERTs (trusted, not proved). *)
Theorem C07_checker_sound : forall toks edges expected,
  prov_ok toks edges expected = true ->
  (forall a b, In (a, b) edges -> In a toks /\ In b toks /\ (a < b)%N) /\
  (forall x y, path edges x y -> (x < y)%N) /\
  (forall x, ~ path edges x x) /\
  (forall t ins, In (t, ins) expected -> In t toks /\ forall a, In (a, t) edges <-> In a ins) /\
  (forall a b, In (a, b) edges -> exists ins, In (b, ins) expected).
Proof. exact prov_ok_sound. Qed.

(* The writing discipline, for ANY interleaving of _persist_token calls of any number of steps (each call =
   evaluate get_entity_ids(inputs) / token.save / add_provenance, with suspension points in between): every edge
   ever written goes from an older id to a newer, allocated one.  So acyclicity is not an accident of the runs
   that were checked.
   _partial: that the ids passed by each step class are exactly the tokens it consumed ("complete") is NOT a
   theorem here: it is decided per run by the checker against expectations computed by the harness from the
   tags (Transformer/Conditional/Scatter/Gather) or taken from the step's own call (combinators). *)
Theorem C07_discipline_keeps_order_partial : forall ops n d,
  prun (pinit n) ops = Some d ->
  forall a b, In (a, b) (pedges d) -> (a < b)%N /\ (b < next d)%N.
Proof. exact discipline_keeps_order. Qed.

(* non-vacuity: an accepted dump with a diamond, a rejected one (missing edge), a rejected cycle *)
Example C07_accepts : prov_ok [1;2;3;4;5]%N [(1,3);(2,3);(3,4);(3,5)]%N [(3,[2;1]);(4,[3]);(5,[3])]%N = true.
Proof. reflexivity. Qed.
Example C07_rejects_missing_edge : prov_ok [1;2;3]%N [(1,3)]%N [(3,[1;2])]%N = false.
Proof. reflexivity. Qed.
Example C07_rejects_cycle : prov_ok [1;2]%N [(1,2);(2,1)]%N [(1,[2]);(2,[1])]%N = false.
Proof. reflexivity. Qed.
Example C07_discipline_example :
  option_map pedges (prun (pinit 3) [Begin 0 [1;2]; Begin 1 [2]; Save 1; Save 0; Prov 0; Prov 1]%N)
  = Some [(2,3);(1,4);(2,4)]%N.
Proof. reflexivity. Qed.

Print Assumptions C07_checker_sound.
Print Assumptions C07_discipline_keeps_order_partial.
