(* Props/C02.v — Combinators emit exactly the right combinations, whatever the arrival order.
   Only statements here; every proof is [exact <lemma of Comb/Proofs.v>].
   Vocabulary (Comb/Model.v): [run c init_state arr] feeds the arrival list [arr] of (port, (id, tag)) to a fresh
   combinator tree [c] as CombinatorStep.run does and returns, per arrival, the emitted combinations
   (port -> (id, tag) maps) and the exception that ended the run, if any.

   WHAT IS PROVED FOR ALL INPUTS (every arrival order, unbounded ports / tags / tokens):
     - the dot product over "flat" streams (no tag an ancestor of another) + order independence of the emitted bag;
     - the dot product with BROADCAST of parent tokens, for one scattered port and any number of parent ports;
     - the CARTESIAN product of depth d >= 1 over streams whose tag groups are unrelated (e.g. all tokens of one
       depth): exactly the full cross product, each combination once, composite tags + order independence;
     - the one-tag dot product (special case, kept).
     - NESTING as the CWL translator builds it: dot( dot(S) | cartesian_d(S) , Q... ), by composing the inner
       specification with the broadcast theorem (re-proved for schema elements in Comb/GBcast.v);
     - BROADCAST with several scattered ports on one flat dot product (one shallow tag, one level below it);
   NOT PROVED: several tag levels at one combinator (per-port antichains in general), trees of depth > 2.
   These are decided case by case by the check's oracle and tied to the model by the correspondence.
   The three [_refuted] theorems are the input classes where the faithful model (and the code) break the text. *)
From Coq Require Import List Ascii Bool NArith Arith Permutation.
From SF Require Import Base.Str Tags.Model Comb.Model Comb.Proofs Comb.Flat Comb.Cart Comb.Bcast Comb.Nested Comb.NestedCor Comb.NestedOrd.
From SF Require Comb.GBcast Comb.GB2.
Import ListNotations.
Local Open Scope string_scope. Local Open Scope list_scope.

(* PARTIAL (no parent/child tags): a dot product over the ports [items] (n of them, distinct) fed ANY arrival list
   [arr] in which every port carries each tag at most once and no two distinct tags are in the ancestor relation.
   [outs_spec items [] arr] is the specification: the arrival x emits something iff it is the n-th token of its tag
   seen so far, and then exactly one combination, made of the n tokens of that tag (one per port), re-tagged
   get_tag of their tags; never an exception.  Hence: exactly one combination per tag present on every port, none
   for the others, at whatever order the tokens arrive. *)
Theorem C02_dot_flat_partial : forall items (arr : list arv),
  wf items arr -> run (c1 items) init_state arr = (outs_spec items [] arr, None).
Proof. exact dot_flat. Qed.

(* ORDER INDEPENDENCE, flat dot product: two arrival orders of the same tokens raise nothing and emit equal bags of
   combinations (a combination being a port -> token map: [bag_eq] matches the two lists up to order of the list and
   up to the order of the entries inside a combination). *)
Theorem C02_order_independent_flat_partial : forall items (arr1 arr2 : list arv),
  wf items arr1 -> Permutation arr1 arr2 ->
  snd (run (c1 items) init_state arr1) = None /\ snd (run (c1 items) init_state arr2) = None /\
  bag_eq (concat (fst (run (c1 items) init_state arr1))) (concat (fst (run (c1 items) init_state arr2))).
Proof. exact dot_flat_order_independent. Qed.

(* CARTESIAN PRODUCT of depth d >= 1 over the ports [items] (distinct, at least one), fed ANY arrival list in which
   every port carries each tag at most once and the tag groups (tag minus its last d components) of distinct groups
   are unrelated ([wfc]; implied by "all tokens have the same depth", next theorem).  A choice is one arrived token
   per port, all of one group, listed in port order.  The run never raises; what it emits is [mk_out] (the composite
   tag: own tag minus last component, followed by the last components of all members in port order) of a list of
   choices that has no duplicates and contains exactly all choices: the full cross product, each combination
   once, whatever the arrival order. PARTIAL: mixed depths are excluded (C02_cart_mixed_depth_refuted). *)
Theorem C02_cartesian_partial : forall items d (Hd : d <> 0) (arr : list arv),
  items <> [] -> wfc items d arr ->
  run (cc items d) init_state arr = (map (map mk_out) (ems items d [] arr), None) /\
  NoDup (concat (ems items d [] arr)) /\
  forall ch, In ch (concat (ems items d [] arr)) <-> is_choice items d arr ch.
Proof. exact cart_full. Qed.

Theorem C02_uniform_depth_groups_unrelated : forall d D (arr : list arv),
  (forall x, In x arr -> length (split_on "." (atag x)) = D) -> gflat d arr.
Proof. exact uniform_depth_gflat. Qed.

(* ORDER INDEPENDENCE, cartesian product: equal bags (here combinations are listed in port order, so plain
   permutation of the emitted lists) *)
Theorem C02_order_independent_cartesian_partial : forall items d (Hd : d <> 0) (arr1 arr2 : list arv),
  items <> [] -> wfc items d arr1 -> Permutation arr1 arr2 ->
  snd (run (cc items d) init_state arr1) = None /\ snd (run (cc items d) init_state arr2) = None /\
  Permutation (concat (fst (run (cc items d) init_state arr1))) (concat (fst (run (cc items d) init_state arr2))).
Proof. exact cart_order_independent. Qed.

(* BROADCAST (single scattered port): the ports [items] (distinct) are one scattered port dp, whose tokens carry tags
   that are strict descendants of the tag r and pairwise unrelated (each at most once), and any number of other ports
   that each deliver at most one token tagged r ([wfb]).  For EVERY arrival order the run never raises and
   equals [outs_b]: the combination of a key k (a scattered tag, or r itself when there is nothing scattered) is
   emitted exactly at the arrival that makes its token set -- the token tagged k plus the broadcast tokens tagged r --
   reach one per port, and holds exactly those tokens; nothing else is emitted.  The parent tokens are therefore
   broadcast to every deeper tag, once each, whenever they arrive (before, between or after the scattered tokens; a
   late parent token completes several keys at once).
   PARTIAL: one scattered port and one shallow tag only; the general per-port-antichain statement of the design
   (several deep ports, several levels) is not proved -- there the code keeps duplicate copies of the parent tokens
   and the invariant is no closed form (see design/notes/C02.md). *)
Theorem C02_dot_broadcast_partial : forall items r dp (arr : list arv),
  wfb items r dp arr -> run (c1 items) init_state arr = (outs_b items r [] arr, None).
Proof. exact dot_broadcast. Qed.

(* BROADCAST with SEVERAL scattered ports on one flat dot product: the ports DP (at least one) deliver tokens tagged with
   strict descendants of r, pairwise unrelated or equal, each port each tag at most once; every other port at most
   one token tagged r ([GB2.wfb2]; this is the domain on which the result does not depend on the order, cf.
   C02_dot_ancestor_pair_refuted outside it).  For EVERY arrival order the run never raises and equals [GB2.outs_b2]:
   the combination of a key k is emitted exactly at the arrival that completes {tokens tagged k} U {tokens tagged r}
   (one per port) and holds exactly those tokens.  Here the code re-copies the parent tokens into key k at every
   arrival of a token tagged k, so the parent deques hold an arrival-dependent number of copies; the proof carries
   those counts as an existential invariant (every live deque holds >= 1 copies of one token, scattered ones exactly 1,
   a fired key has a zero) -- the emitted combinations do not depend on them. *)
Theorem C02_dot_broadcast_multi_partial : forall items r DP (arr : list arv),
  GB2.wfb2 items r DP (map GB2.tokarr arr) ->
  run (c1 items) init_state arr = (GB2.outs_b2 items r [] arr, None).
Proof. exact GB2.dot_broadcast2. Qed.

(* BROADCAST as a bag: no exception, and the emitted list is a permutation of [GB2.gdone]: for every key k (a tag that
   occurs) whose token set {tagged k} U {tagged r} holds one token per port, exactly one combination, made of exactly
   those tokens ([gcombo]); nothing else.  (DP = [dp] is the single-scattered-port case of C02_dot_broadcast_partial.) *)
Theorem C02_broadcast_exactly_one_partial : forall items r DP (arr : list arv),
  GB2.wfb2 items r DP (map GB2.tokarr arr) ->
  snd (run (c1 items) init_state arr) = None /\
  Permutation (concat (fst (run (c1 items) init_state arr))) (GB2.gdone items r (map GB2.tokarr arr)).
Proof. exact GB2.broadcast_bag. Qed.
(* ORDER INDEPENDENCE, broadcast: two arrival orders of the same tokens raise nothing and emit equal bags of combinations
   (bag_eq as for the flat case), provided r is not empty and the scattered tags are longer than r (true of "r.i"). *)
Theorem C02_order_independent_broadcast_partial : forall items r DP (arr1 arr2 : list arv),
  GB2.wfb2 items r DP (map GB2.tokarr arr1) -> Permutation arr1 arr2 ->
  1 <= String.length r ->
  (forall a, In a arr1 -> GB2.isdeep DP (GB2.tokarr a) = true -> String.length r < String.length (atag a)) ->
  snd (run (c1 items) init_state arr1) = None /\ snd (run (c1 items) init_state arr2) = None /\
  bag_eq (concat (fst (run (c1 items) init_state arr1))) (concat (fst (run (c1 items) init_state arr2))).
Proof. exact GB2.broadcast_order_independent. Qed.

(* NESTED, the trees the CWL translator builds for a step with several scatter inputs S and non-scattered inputs Q
   (translator._create_residual_combinator): a dot product whose first item is the scatter combinator over S -- a dot
   product, or a cartesian product of depth d -- and whose other items are the ports Q.
   Hypotheses: the arrivals on the ports S are well-formed for the inner combinator (Flat.wf / wfc, as in the flat and
   cartesian theorems); every other arrival is on a port of Q; and the list of elements reaching the outer combinator
   -- [derive]: for an arrival on S the combinations the inner SPECIFICATION emits (Flat.emission / mk_out of
   emitted), for an arrival on Q the token itself -- is well-formed for the broadcast theorem (GBcast.wfb: the inner
   combinations carry pairwise unrelated strict descendants of r, each once; each port of Q at most one token tagged r).
   Then for EVERY such arrival order the run never raises and equals [nouts]: the inner combinator emits what its
   specification says, and the outer one emits, for every inner combination, exactly one combination made of it and of
   the broadcast tokens of Q, at the arrival that completes it (GBcast.emission_b), flattened into one port -> token map.
   PARTIAL: the well-formedness of the derived list is a hypothesis about the specification functions, not derived from
   primitive conditions on the tags (for a scatter it holds: C02_nested_example); trees of depth > 2 are not covered. *)
Theorem C02_nested_partial : forall S cname Q r (arr : list arv),
  (forall x, In x arr -> is_scatter S x = false -> In (fst x) Q) ->
  wf S (scattered S arr) ->
  GBcast.wfb (names cname Q) r cname (derive S cname (emission S) [] arr) ->
  run (tree S cname Q KDot) init_state arr = (nouts S cname Q r (emission S) [] [] arr, None).
Proof. exact nested_dot_dot. Qed.
Theorem C02_nested_cartesian_partial : forall S d (Hd : d <> 0) cname Q r (arr : list arv),
  (forall x, In x arr -> is_scatter S x = false -> In (fst x) Q) ->
  wfc S d (scattered S arr) ->
  GBcast.wfb (names cname Q) r cname (derive S cname (fun ai x => map mk_out (emitted S d ai x)) [] arr) ->
  run (tree S cname Q (KCart d)) init_state arr =
  (nouts S cname Q r (fun ai x => map mk_out (emitted S d ai x)) [] [] arr, None).
Proof. exact nested_dot_cart. Qed.

(* ... and for the inner DOT product the hypothesis on the derived list follows from primitive conditions [PH]: the names
   cname :: Q are distinct, S is not empty, every arrival outside S is on a port of Q and tagged r, each port of Q
   delivers at most once, the arrivals on S are well-formed for the flat dot product, and their tags are strict
   descendants of r of more than one character (true of every tag "r.i"). *)
Theorem C02_nested_dot_partial : forall S cname Q r (arr : list arv),
  PH S cname Q r arr ->
  run (tree S cname Q KDot) init_state arr = (nouts S cname Q r (emission S) [] [] arr, None).
Proof. exact nested_dot_dot_primitive. Qed.

(* NESTED as a bag (inner dot product): no exception, and exactly one flattened combination per complete key of the outer
   combinator, i.e. per combination of the inner combinator joined with the broadcast tokens of Q. *)
Theorem C02_nested_dot_exactly_one_partial : forall S cname Q r (arr : list arv),
  PH S cname Q r arr ->
  snd (run (tree S cname Q KDot) init_state arr) = None /\
  Permutation (concat (fst (run (tree S cname Q KDot) init_state arr)))
              (GB2.gdone (names cname Q) r (derive S cname (emission S) [] arr)).
Proof. exact nested_dot_bag. Qed.

(* ... and for the inner cartesian product, under the hypotheses of C02_nested_cartesian_partial *)
Theorem C02_nested_cartesian_exactly_one_partial : forall S d (Hd : d <> 0) cname Q r (arr : list arv),
  (forall x, In x arr -> is_scatter S x = false -> In (fst x) Q) ->
  wfc S d (scattered S arr) ->
  GBcast.wfb (names cname Q) r cname (derive S cname (fun ai x => map mk_out (emitted S d ai x)) [] arr) ->
  snd (run (tree S cname Q (KCart d)) init_state arr) = None /\
  Permutation (concat (fst (run (tree S cname Q (KCart d)) init_state arr)))
              (GB2.gdone (names cname Q) r (derive S cname (fun ai x => map mk_out (emitted S d ai x)) [] arr)).
Proof. exact nested_cart_bag. Qed.

(* ORDER INDEPENDENCE, nested (inner dot product): two arrival orders of the same tokens raise nothing and emit equal bags
   of combinations, provided S and Q are disjoint, r is not empty and the scattered tags are longer than r (true of
   "r.i").  The lists of elements reaching the outer combinator under the two orders are NOT permutations of each
   other (an inner combination lists its entries in arrival order); Comb/NestedOrd.v shows that the outer bag is
   invariant under "permutation, then element-wise equality up to the order of the entries". *)
Theorem C02_order_independent_nested_partial : forall S cname Q r (arr1 arr2 : list arv),
  PH S cname Q r arr1 -> Permutation arr1 arr2 ->
  (forall p, In p S -> ~ In p Q) -> 1 <= String.length r ->
  (forall x, In x arr1 -> is_scatter S x = true -> String.length r < String.length (atag x)) ->
  snd (run (tree S cname Q KDot) init_state arr1) = None /\
  snd (run (tree S cname Q KDot) init_state arr2) = None /\
  bag_eq (concat (fst (run (tree S cname Q KDot) init_state arr1)))
         (concat (fst (run (tree S cname Q KDot) init_state arr2))).
Proof. exact nested_order_independent. Qed.

(* PARTIAL (one tag only): a dot product over the ports [items], one token per port, all tagged g, arriving in ANY
   order: nothing is emitted before the last arrival, which emits exactly one combination holding every port's
   token (re-tagged get_tag = g for tags rooted at "0"); no exception. *)
Theorem C02_dot_one_tag_partial : forall g items (arr : list (string * N)),
  arr <> [] -> NoDup (map fst arr) -> length arr = length items ->
  (forall q, In q (map fst arr) -> In q items) ->
  run (c1 items) init_state (map (arrival g) arr) = (repeat [] (length arr - 1) ++ [[Proofs.combo g arr]], None).
Proof. exact dot_one_tag. Qed.

(* PARTIAL (one tag only): any two arrival orders of the same tokens emit the same single combination *)
Theorem C02_order_independent_one_tag_partial : forall g items (arr1 arr2 : list (string * N)),
  Permutation arr1 arr2 ->
  arr1 <> [] -> NoDup (map fst arr1) -> length arr1 = length items ->
  (forall q, In q (map fst arr1) -> In q items) ->
  exists s1 s2,
    run (c1 items) init_state (map (arrival g) arr1) = (repeat [] (length arr1 - 1) ++ [[s1]], None) /\
    run (c1 items) init_state (map (arrival g) arr2) = (repeat [] (length arr2 - 1) ++ [[s2]], None) /\
    Permutation s1 s2.
Proof. exact dot_one_tag_order_independent. Qed.

(* REFUTED: with a port carrying a tag and its ancestor (b: "0" and "0.1", a: "0.1.2") two arrival orders of the same
   tokens emit different combinations (pop() takes the candidate that arrived last) *)
Theorem C02_dot_ancestor_pair_refuted :
  exists c arr1 arr2, Permutation arr1 arr2 /\
    snd (run c init_state arr1) = None /\ snd (run c init_state arr2) = None /\
    ~ Permutation (concat (fst (run c init_state arr1))) (concat (fst (run c init_state arr2))).
Proof. exact dot_ancestor_pair_refuted. Qed.

(* REFUTED: a cartesian combinator whose item is an inner combinator raises AttributeError instead of composing *)
Theorem C02_cart_nested_refuted :
  exists c arr, run c init_state arr = ([[]; []; []], Some AttributeError).
Proof. exact cart_nested_refuted. Qed.

(* REFUTED: a cartesian combinator over tokens of different depth emits a different number of combinations
   under two arrival orders (parent/child propagation between tag groups) *)
Theorem C02_cart_mixed_depth_refuted :
  exists c arr1 arr2, Permutation arr1 arr2 /\
    snd (run c init_state arr1) = None /\ snd (run c init_state arr2) = None /\
    length (concat (fst (run c init_state arr1))) <> length (concat (fst (run c init_state arr2))).
Proof. exact cart_mixed_depth_refuted. Qed.

(* ---- examples ---- *)
(* the hypotheses of the one-tag theorem are met: three ports, arrival c, a, b *)
Example C02_one_tag_example :
  let arr := [("c", 7%N); ("a", 5%N); ("b", 6%N)] in
  NoDup (map fst arr) /\ length arr = length ["a"; "b"; "c"] /\
  run (c1 ["a"; "b"; "c"]) init_state (map (arrival "0.10") arr) =
    ([[]; []; [[("c", (7%N, "0.10")); ("a", (5%N, "0.10")); ("b", (6%N, "0.10"))]]], None).
Proof. split; [repeat constructor; simpl; intuition congruence|]. split; vm_compute; reflexivity. Qed.
(* the hypotheses of the flat theorem are met by two ports, tags 0.9 and 0.10 interleaved, and the specification
   says: (a,b)@0.10 at the third arrival, (a,b)@0.9 at the fourth *)
Example C02_flat_example :
  let arr : list arv := [("a", (0%N, "0.9")); ("b", (1%N, "0.10")); ("a", (2%N, "0.10")); ("b", (3%N, "0.9"))] in
  wf ["a"; "b"] arr /\
  outs_spec ["a"; "b"] [] arr =
    [[]; []; [[("b", (1%N, "0.10")); ("a", (2%N, "0.10"))]]; [[("a", (0%N, "0.9")); ("b", (3%N, "0.9"))]]].
Proof.
  split; [|vm_compute; reflexivity]. split; [|split; [|split]].
  - repeat (apply NoDup_cons; [simpl; intuition congruence|]). apply NoDup_nil.
  - simpl. intros x [<-|[<-|[<-|[<-|[]]]]]; simpl; auto.
  - unfold akey, atag. simpl. repeat (apply NoDup_cons; [simpl; intuition congruence|]). apply NoDup_nil.
  - intros x y Hx Hy. simpl in Hx, Hy.
    destruct Hx as [<-|[<-|[<-|[<-|[]]]]]; destruct Hy as [<-|[<-|[<-|[<-|[]]]]]; intros N;
      try (exfalso; apply N; reflexivity); vm_compute; reflexivity.
Qed.
(* the hypotheses of the cartesian theorem are met (depth 1, tokens of depth 2, indices 9/10/11) *)
Example C02_cartesian_hyp_example :
  let arr : list arv := [("a", (0%N, "0.9")); ("b", (1%N, "0.10")); ("a", (2%N, "0.11"))] in
  wfc ["a"; "b"] 1 arr /\
  concat (ems ["a"; "b"] 1 [] arr) =
    [[("a", (0%N, "0.9")); ("b", (1%N, "0.10"))]; [("a", (2%N, "0.11")); ("b", (1%N, "0.10"))]].
Proof.
  split; [|vm_compute; reflexivity]. split; [|split; [|split]].
  - repeat (apply NoDup_cons; [simpl; intuition congruence|]). apply NoDup_nil.
  - simpl. intros x [<-|[<-|[<-|[]]]]; simpl; auto.
  - unfold akey, atag. simpl. repeat (apply NoDup_cons; [simpl; intuition congruence|]). apply NoDup_nil.
  - apply (uniform_depth_gflat 1 2). simpl. intros x [<-|[<-|[<-|[]]]]; vm_compute; reflexivity.
Qed.
(* the hypotheses of the broadcast theorem are met: ports a (parent, tag 0) and b (scattered: 0.9, 0.10); the parent
   arrives between the two scattered tokens *)
Example C02_broadcast_hyp_example :
  let arr : list arv := [("b", (1%N, "0.9")); ("a", (0%N, "0")); ("b", (2%N, "0.10"))] in
  wfb ["a"; "b"] "0" "b" arr /\
  outs_b ["a"; "b"] "0" [] arr =
    [[]; [[("b", (1%N, "0.9")); ("a", (0%N, "0.9"))]]; [[("a", (0%N, "0.10")); ("b", (2%N, "0.10"))]]].
Proof.
  split; [|vm_compute; reflexivity]. split; [|split; [|split; [|split; [|split]]]].
  - repeat (apply NoDup_cons; [simpl; intuition congruence|]). apply NoDup_nil.
  - simpl. auto.
  - simpl. intros x [<-|[<-|[<-|[]]]]; simpl; auto.
  - unfold akey, atag. simpl. repeat (apply NoDup_cons; [simpl; intuition congruence|]). apply NoDup_nil.
  - simpl. intros x [<-|[<-|[<-|[]]]]; vm_compute; repeat split; congruence.
  - simpl. intros x y [<-|[<-|[<-|[]]]] [<-|[<-|[<-|[]]]] Px Py N; try discriminate Px; try discriminate Py;
      try (exfalso; apply N; reflexivity); vm_compute; reflexivity.
Qed.
(* the nested specification on a scatter over b, c with the non-scattered a arriving in the middle *)
Example C02_nested_example :
  let arr : list arv := [("b", (1%N, "0.9")); ("c", (2%N, "0.9")); ("b", (3%N, "0.10")); ("a", (0%N, "0"));
                         ("c", (4%N, "0.10"))] in
  derive ["b"; "c"] "in1" (emission ["b"; "c"]) [] arr =
    [("in1", ESch [("b", (1%N, "0.9")); ("c", (2%N, "0.9"))]); ("a", ETok (0%N, "0"));
     ("in1", ESch [("b", (3%N, "0.10")); ("c", (4%N, "0.10"))])] /\
  nouts ["b"; "c"] "in1" ["a"] "0" (emission ["b"; "c"]) [] [] arr =
    [[]; []; []; [[("b", (1%N, "0.9")); ("c", (2%N, "0.9")); ("a", (0%N, "0.9"))]];
     [[("a", (0%N, "0.10")); ("b", (3%N, "0.10")); ("c", (4%N, "0.10"))]]] /\
  run (tree ["b"; "c"] "in1" ["a"] KDot) init_state arr =
    (nouts ["b"; "c"] "in1" ["a"] "0" (emission ["b"; "c"]) [] [] arr, None).
Proof. vm_compute. repeat split; reflexivity. Qed.
(* ... and the hypotheses of C02_nested_partial hold for it *)
Example C02_nested_hyp_example :
  let arr : list arv := [("b", (1%N, "0.9")); ("c", (2%N, "0.9")); ("b", (3%N, "0.10")); ("a", (0%N, "0"));
                         ("c", (4%N, "0.10"))] in
  (forall x, In x arr -> is_scatter ["b"; "c"] x = false -> In (fst x) ["a"]) /\
  wf ["b"; "c"] (scattered ["b"; "c"] arr) /\
  GBcast.wfb (names "in1" ["a"]) "0" "in1" (derive ["b"; "c"] "in1" (emission ["b"; "c"]) [] arr).
Proof.
  split; [|split].
  - simpl. intros x [<-|[<-|[<-|[<-|[<-|[]]]]]]; vm_compute; intros; auto; discriminate.
  - vm_compute scattered. split; [|split; [|split]].
    + repeat (apply NoDup_cons; [simpl; intuition congruence|]). apply NoDup_nil.
    + simpl. intros x [<-|[<-|[<-|[<-|[]]]]]; simpl; auto.
    + unfold akey, atag. simpl. repeat (apply NoDup_cons; [simpl; intuition congruence|]). apply NoDup_nil.
    + intros x y Hx Hy. simpl in Hx, Hy.
      destruct Hx as [<-|[<-|[<-|[<-|[]]]]]; destruct Hy as [<-|[<-|[<-|[<-|[]]]]]; intros N;
        try (exfalso; apply N; reflexivity); vm_compute; reflexivity.
  - replace (derive ["b"; "c"] "in1" (emission ["b"; "c"]) [] _) with
      [("in1", ESch [("b", (1%N, "0.9")); ("c", (2%N, "0.9"))]); ("a", ETok (0%N, "0"));
       ("in1", ESch [("b", (3%N, "0.10")); ("c", (4%N, "0.10"))])] by (vm_compute; reflexivity).
    split; [|split; [|split; [|split; [|split]]]].
    + repeat (apply NoDup_cons; [simpl; intuition congruence|]). apply NoDup_nil.
    + simpl. auto.
    + simpl. intros x [<-|[<-|[<-|[]]]]; simpl; auto.
    + vm_compute. repeat (apply NoDup_cons; [simpl; intuition congruence|]). apply NoDup_nil.
    + simpl. intros x [<-|[<-|[<-|[]]]]; vm_compute; repeat split; congruence.
    + simpl. intros x y [<-|[<-|[<-|[]]]] [<-|[<-|[<-|[]]]] Px Py N; try discriminate Px; try discriminate Py;
        try (exfalso; apply N; reflexivity); vm_compute; reflexivity.
Qed.
(* two scattered ports b, c and a parent a: hypotheses of the multi-port broadcast theorem and its specification *)
Example C02_broadcast_multi_example :
  let arr : list arv := [("b", (1%N, "0.9")); ("a", (0%N, "0")); ("c", (2%N, "0.10")); ("c", (3%N, "0.9"));
                         ("b", (4%N, "0.10"))] in
  GB2.wfb2 ["a"; "b"; "c"] "0" ["b"; "c"] (map GB2.tokarr arr) /\
  GB2.outs_b2 ["a"; "b"; "c"] "0" [] arr =
    [[]; []; []; [[("b", (1%N, "0.9")); ("a", (0%N, "0.9")); ("c", (3%N, "0.9"))]];
     [[("a", (0%N, "0.10")); ("c", (2%N, "0.10")); ("b", (4%N, "0.10"))]]] /\
  run (c1 ["a"; "b"; "c"]) init_state arr = (GB2.outs_b2 ["a"; "b"; "c"] "0" [] arr, None).
Proof.
  split; [|vm_compute; split; reflexivity].
  split; [|split; [|split; [|split; [|split; [|split]]]]].
  - repeat (apply NoDup_cons; [simpl; intuition congruence|]). apply NoDup_nil.
  - discriminate.
  - intros q [<-|[<-|[]]]; simpl; auto.
  - simpl. intros x [<-|[<-|[<-|[<-|[<-|[]]]]]]; simpl; auto.
  - vm_compute. repeat (apply NoDup_cons; [simpl; intuition congruence|]). apply NoDup_nil.
  - simpl. intros x [<-|[<-|[<-|[<-|[<-|[]]]]]]; vm_compute; repeat split; congruence.
  - simpl. intros x y [<-|[<-|[<-|[<-|[<-|[]]]]]] [<-|[<-|[<-|[<-|[<-|[]]]]]] Px Py N; try discriminate Px;
      try discriminate Py; try (exfalso; apply N; reflexivity); vm_compute; reflexivity.
Qed.
(* ... and so do the primitive hypotheses of C02_nested_dot_partial *)
Example C02_nested_primitive_hyp_example :
  let arr : list arv := [("b", (1%N, "0.9")); ("c", (2%N, "0.9")); ("b", (3%N, "0.10")); ("a", (0%N, "0"));
                         ("c", (4%N, "0.10"))] in
  PH ["b"; "c"] "in1" ["a"] "0" arr.
Proof.
  split; [|split; [|split; [|split; [|split]]]].
  - repeat (apply NoDup_cons; [simpl; intuition congruence|]). apply NoDup_nil.
  - discriminate.
  - simpl. intros x [<-|[<-|[<-|[<-|[<-|[]]]]]]; vm_compute; intros; try discriminate; auto.
  - vm_compute. repeat (apply NoDup_cons; [simpl; intuition congruence|]). apply NoDup_nil.
  - exact (proj1 (proj2 C02_nested_hyp_example)).
  - simpl. intros x [<-|[<-|[<-|[<-|[<-|[]]]]]]; vm_compute; intros; try discriminate; repeat split; try congruence; auto.
Qed.
(* the hypotheses of C02_nested_cartesian_partial hold for S = [b; c], d = 1, Q = [a], tokens 0.9, 0.10, 0.11, and
   the run equals the specification *)
Example C02_nested_cartesian_example :
  let arr : list arv := [("b", (1%N, "0.9")); ("c", (2%N, "0.10")); ("a", (0%N, "0")); ("b", (3%N, "0.11"))] in
  let ie := fun ai x => map mk_out (emitted ["b"; "c"] 1 ai x) in
  (forall x, In x arr -> is_scatter ["b"; "c"] x = false -> In (fst x) ["a"]) /\
  wfc ["b"; "c"] 1 (scattered ["b"; "c"] arr) /\
  GBcast.wfb (names "in1" ["a"]) "0" "in1" (derive ["b"; "c"] "in1" ie [] arr) /\
  run (tree ["b"; "c"] "in1" ["a"] (KCart 1)) init_state arr = (nouts ["b"; "c"] "in1" ["a"] "0" ie [] [] arr, None) /\
  concat (nouts ["b"; "c"] "in1" ["a"] "0" ie [] [] arr) =
    [[("b", (1%N, "0.9.10")); ("c", (2%N, "0.9.10")); ("a", (0%N, "0.9.10"))];
     [("a", (0%N, "0.11.10")); ("b", (3%N, "0.11.10")); ("c", (2%N, "0.11.10"))]].
Proof.
  split; [|split; [|split; [|split]]]; try (vm_compute; reflexivity).
  - simpl. intros x [<-|[<-|[<-|[<-|[]]]]]; vm_compute; intros; auto; discriminate.
  - vm_compute scattered. split; [|split; [|split]].
    + repeat (apply NoDup_cons; [simpl; intuition congruence|]). apply NoDup_nil.
    + simpl. intros x [<-|[<-|[<-|[]]]]; simpl; auto.
    + unfold akey, atag. simpl. repeat (apply NoDup_cons; [simpl; intuition congruence|]). apply NoDup_nil.
    + apply (uniform_depth_gflat 1 2). simpl. intros x [<-|[<-|[<-|[]]]]; vm_compute; reflexivity.
  - match goal with |- GBcast.wfb _ _ _ ?d =>
      replace d with [("in1", ESch [("b", (1%N, "0.9.10")); ("c", (2%N, "0.9.10"))]); ("a", ETok (0%N, "0"));
                      ("in1", ESch [("b", (3%N, "0.11.10")); ("c", (2%N, "0.11.10"))])] by (vm_compute; reflexivity) end.
    split; [|split; [|split; [|split; [|split]]]].
    + repeat (apply NoDup_cons; [simpl; intuition congruence|]). apply NoDup_nil.
    + simpl. auto.
    + simpl. intros x [<-|[<-|[<-|[]]]]; simpl; auto.
    + vm_compute. repeat (apply NoDup_cons; [simpl; intuition congruence|]). apply NoDup_nil.
    + simpl. intros x [<-|[<-|[<-|[]]]]; vm_compute; repeat split; congruence.
    + simpl. intros x y [<-|[<-|[<-|[]]]] [<-|[<-|[<-|[]]]] Px Py N; try discriminate Px; try discriminate Py;
        try (exfalso; apply N; reflexivity); vm_compute; reflexivity.
Qed.
(* broadcast of a parent tag and a cartesian product, as the model computes them (not covered by a theorem) *)
Example C02_broadcast_example :
  concat (fst (run (mkouter KDot [IPort "a"; IPort "b"]) init_state
                [("b", (1%N, "0.9")); ("a", (0%N, "0")); ("b", (2%N, "0.10"))])) =
  [[("b", (1%N, "0.9")); ("a", (0%N, "0.9"))]; [("a", (0%N, "0.10")); ("b", (2%N, "0.10"))]].
Proof. vm_compute. reflexivity. Qed.
Example C02_cartesian_example :
  concat (fst (run (mkouter (KCart 1) [IPort "a"; IPort "b"]) init_state
                [("a", (0%N, "0.9")); ("b", (1%N, "0.10")); ("a", (2%N, "0.11"))])) =
  [[("a", (0%N, "0.9.10")); ("b", (1%N, "0.9.10"))]; [("a", (2%N, "0.11.10")); ("b", (1%N, "0.11.10"))]].
Proof. vm_compute. reflexivity. Qed.

Print Assumptions C02_dot_flat_partial.
Print Assumptions C02_order_independent_flat_partial.
Print Assumptions C02_cartesian_partial.
Print Assumptions C02_uniform_depth_groups_unrelated.
Print Assumptions C02_order_independent_cartesian_partial.
Print Assumptions C02_dot_broadcast_partial.
Print Assumptions C02_dot_broadcast_multi_partial.
Print Assumptions C02_broadcast_exactly_one_partial.
Print Assumptions C02_order_independent_broadcast_partial.
Print Assumptions C02_nested_dot_exactly_one_partial.
Print Assumptions C02_nested_cartesian_exactly_one_partial.
Print Assumptions C02_order_independent_nested_partial.
Print Assumptions C02_nested_partial.
Print Assumptions C02_nested_cartesian_partial.
Print Assumptions C02_nested_dot_partial.
Print Assumptions C02_dot_one_tag_partial.
Print Assumptions C02_order_independent_one_tag_partial.
Print Assumptions C02_dot_ancestor_pair_refuted.
Print Assumptions C02_cart_nested_refuted.
Print Assumptions C02_cart_mixed_depth_refuted.
