(* Props/C02.v — Combinators emit exactly the right combinations, whatever the arrival order.
   Only statements here; every proof is [exact <lemma of Comb/Proofs.v>].
   Vocabulary (Comb/Model.v): [run c init_state arr] feeds the arrival list [arr] of (port, (id, tag)) to a fresh
   combinator tree [c] as CombinatorStep.run does and returns, per arrival, the emitted combinations
   (port -> (id, tag) maps) and the exception that ended the run, if any.

   WHAT IS PROVED FOR ALL INPUTS: the dot product over "flat" streams (any number of ports and tags, no tag an
   ancestor of another, each port carrying each tag at most once), for every arrival order; and its one-tag special
   case with an explicit order-independence corollary.  The other statements of the property text (broadcast of
   parent tags, cartesian cross product and composite tags, nesting) are NOT proved; they are decided case by case
   by the check's oracle and tied to the model by the correspondence.
   The three [_refuted] theorems are the input classes where the faithful model (and the code) break the text. *)
From Coq Require Import List Bool NArith Arith Permutation.
From SF Require Import Base.Str Tags.Model Comb.Model Comb.Proofs Comb.Flat.
Import ListNotations.
Local Open Scope string_scope. Local Open Scope list_scope.

(* PARTIAL (no parent/child tags): a dot product over the ports [items] (n of them, distinct) fed ANY arrival list
   [arr] in which every port carries each tag at most once and no two distinct tags are in the ancestor relation.
   [outs_spec items [] arr] is the specification: the arrival x emits something iff it is the n-th token of its tag
   seen so far, and then exactly one combination, made of the n tokens of that tag (one per port), re-tagged
   get_tag of their tags; never an exception.  Hence: exactly one combination per tag present on every port, none
   for the others, at whatever order the tokens arrive. *)
Theorem C02_dot_flat_partial : forall items (arr : list arv),
  wf items arr -> run (c1 items) init_state arr = (outs_spec items [] arr, None).
Proof. exact dot_flat. Qed.

(* PARTIAL (one tag only): a dot product over the ports [items], one token per port, all tagged g, arriving in ANY
   order: nothing is emitted before the last arrival, which emits exactly one combination holding every port's
   token (re-tagged get_tag = g for tags rooted at "0"); no exception. *)
Theorem C02_dot_one_tag_partial : forall g items (arr : list (string * N)),
  arr <> [] -> NoDup (map fst arr) -> length arr = length items ->
  (forall q, In q (map fst arr) -> In q items) ->
  run (c1 items) init_state (map (arrival g) arr) = (repeat [] (length arr - 1) ++ [[Proofs.combo g arr]], None).
Proof. exact dot_one_tag. Qed.

(* PARTIAL (one tag only): any two arrival orders of the same tokens emit the same single combination *)
Theorem C02_order_independent_one_tag_partial : forall g items (arr1 arr2 : list (string * N)),
  Permutation arr1 arr2 ->
  arr1 <> [] -> NoDup (map fst arr1) -> length arr1 = length items ->
  (forall q, In q (map fst arr1) -> In q items) ->
  exists s1 s2,
    run (c1 items) init_state (map (arrival g) arr1) = (repeat [] (length arr1 - 1) ++ [[s1]], None) /\
    run (c1 items) init_state (map (arrival g) arr2) = (repeat [] (length arr2 - 1) ++ [[s2]], None) /\
    Permutation s1 s2.
Proof. exact dot_one_tag_order_independent. Qed.

(* REFUTED: with a port carrying a tag and its ancestor (b: "0" and "0.1", a: "0.1.2") two arrival orders of the same
   tokens emit different combinations (pop() takes the candidate that arrived last) *)
Theorem C02_dot_ancestor_pair_refuted :
  exists c arr1 arr2, Permutation arr1 arr2 /\
    snd (run c init_state arr1) = None /\ snd (run c init_state arr2) = None /\
    ~ Permutation (concat (fst (run c init_state arr1))) (concat (fst (run c init_state arr2))).
Proof. exact dot_ancestor_pair_refuted. Qed.

(* REFUTED: a cartesian combinator whose item is an inner combinator raises AttributeError instead of composing *)
Theorem C02_cart_nested_refuted :
  exists c arr, run c init_state arr = ([[]; []; []], Some AttributeError).
Proof. exact cart_nested_refuted. Qed.

(* REFUTED: a cartesian combinator over tokens of different depth emits a different number of combinations
   under two arrival orders (parent/child propagation between tag groups) *)
Theorem C02_cart_mixed_depth_refuted :
  exists c arr1 arr2, Permutation arr1 arr2 /\
    snd (run c init_state arr1) = None /\ snd (run c init_state arr2) = None /\
    length (concat (fst (run c init_state arr1))) <> length (concat (fst (run c init_state arr2))).
Proof. exact cart_mixed_depth_refuted. Qed.

(* ---- examples ---- *)
(* the hypotheses of the one-tag theorem are met: three ports, arrival c, a, b *)
Example C02_one_tag_example :
  let arr := [("c", 7%N); ("a", 5%N); ("b", 6%N)] in
  NoDup (map fst arr) /\ length arr = length ["a"; "b"; "c"] /\
  run (c1 ["a"; "b"; "c"]) init_state (map (arrival "0.10") arr) =
    ([[]; []; [[("c", (7%N, "0.10")); ("a", (5%N, "0.10")); ("b", (6%N, "0.10"))]]], None).
Proof. split; [repeat constructor; simpl; intuition congruence|]. split; vm_compute; reflexivity. Qed.
(* the hypotheses of the flat theorem are met by two ports, tags 0.9 and 0.10 interleaved, and the specification
   says: (a,b)@0.10 at the third arrival, (a,b)@0.9 at the fourth *)
Example C02_flat_example :
  let arr : list arv := [("a", (0%N, "0.9")); ("b", (1%N, "0.10")); ("a", (2%N, "0.10")); ("b", (3%N, "0.9"))] in
  wf ["a"; "b"] arr /\
  outs_spec ["a"; "b"] [] arr =
    [[]; []; [[("b", (1%N, "0.10")); ("a", (2%N, "0.10"))]]; [[("a", (0%N, "0.9")); ("b", (3%N, "0.9"))]]].
Proof.
  split; [|vm_compute; reflexivity]. split; [|split; [|split]].
  - repeat (apply NoDup_cons; [simpl; intuition congruence|]). apply NoDup_nil.
  - simpl. intros x [<-|[<-|[<-|[<-|[]]]]]; simpl; auto.
  - unfold akey, atag. simpl. repeat (apply NoDup_cons; [simpl; intuition congruence|]). apply NoDup_nil.
  - intros x y Hx Hy. simpl in Hx, Hy.
    destruct Hx as [<-|[<-|[<-|[<-|[]]]]]; destruct Hy as [<-|[<-|[<-|[<-|[]]]]]; intros N;
      try (exfalso; apply N; reflexivity); vm_compute; reflexivity.
Qed.
(* broadcast of a parent tag and a cartesian product, as the model computes them (not covered by a theorem) *)
Example C02_broadcast_example :
  concat (fst (run (mkouter KDot [IPort "a"; IPort "b"]) init_state
                [("b", (1%N, "0.9")); ("a", (0%N, "0")); ("b", (2%N, "0.10"))])) =
  [[("b", (1%N, "0.9")); ("a", (0%N, "0.9"))]; [("a", (0%N, "0.10")); ("b", (2%N, "0.10"))]].
Proof. vm_compute. reflexivity. Qed.
Example C02_cartesian_example :
  concat (fst (run (mkouter (KCart 1) [IPort "a"; IPort "b"]) init_state
                [("a", (0%N, "0.9")); ("b", (1%N, "0.10")); ("a", (2%N, "0.11"))])) =
  [[("a", (0%N, "0.9.10")); ("b", (1%N, "0.9.10"))]; [("a", (2%N, "0.11.10")); ("b", (1%N, "0.11.10"))]].
Proof. vm_compute. reflexivity. Qed.

Print Assumptions C02_dot_flat_partial.
Print Assumptions C02_dot_one_tag_partial.
Print Assumptions C02_order_independent_one_tag_partial.
Print Assumptions C02_dot_ancestor_pair_refuted.
Print Assumptions C02_cart_nested_refuted.
Print Assumptions C02_cart_mixed_depth_refuted.
