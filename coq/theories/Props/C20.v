(* Props/C20.v — Provenance graph operations keep the graph consistent.
   Only statements here; every proof is [exact <lemma of Graph/Proofs*.v>] (or a two-line unpacking).

   Vocabulary (Graph/Proofs.v, Graph/Proofs5.v):
     is_node g u   : u is a key of _successors            sedge g u v : v in _successors[u]
     pedge g u v   : u in _predecessors[v]                WF g : same keys in both dicts and sedge <-> pedge
     Clo Nd E seed prune : the least set containing the seed nodes that are nodes and, when pruning, closed
                   under "p is a node with at least one successor and ALL its successors are in the set"
     spec Nd E op r Nd' E' : what a plain graph (node set Nd, edge relation E) must become, and what must be
                   returned, for each operation (written from the property text)
   [order] is the iteration order of Python sets: any function that permutes its argument. *)
From Coq Require Import List Bool NArith Permutation Lia.
From SF Require Import Graph.Model Graph.Util Graph.Proofs Graph.Proofs2 Graph.Proofs3 Graph.Proofs4 Graph.Proofs5.
Import ListNotations.

Definition set_order (order : list node -> list node) : Prop := forall l, Permutation (order l) l.

(* Successor and predecessor views mirror each other, and have the same keys, after ANY operation
   sequence from the empty graph, for ANY set iteration order. *)
Theorem C20_mirror : forall order, set_order order -> forall ops,
  let g := grun order empty_graph ops in
  (forall u v, In v (successors g u) <-> In u (predecessors g v)) /\
  (forall u, mget (gsucc g) u = None <-> mget (gpred g) u = None) /\
  (forall u v, In v (successors g u) -> contains g u = true /\ contains g v = true).
Proof.
  intros order H ops g. pose proof (reachable_WF order H ops) as W. fold g in W.
  split; [exact (wf_mirror g W)|]. split; [exact (wf_dom g W)|].
  intros u v Hs. split; apply contains_true; [exact (sedge_node_l g u v Hs)|exact (sedge_node_r g u v W Hs)].
Qed.

(* The structure behaves like a plain graph: every operation, on every mirror-consistent graph (hence on
   every reachable one), returns what the plain-graph specification says and leaves a graph whose node set
   and edge relation are the specified ones; consistency is preserved. *)
Theorem C20_refines : forall order, set_order order -> forall g op, WF g ->
  let r := gstep order g op in
  WF (fst r) /\ spec (is_node g) (sedge g) op (snd r) (is_node (fst r)) (sedge (fst r)).
Proof. exact gstep_refines. Qed.

Theorem C20_reachable_consistent : forall order, set_order order -> forall ops,
  WF (grun order empty_graph ops).
Proof. exact reachable_WF. Qed.

(* remove_nodes: the while loop always ends (the model's fuel is never exhausted) ... *)
Theorem C20_remove_terminates : forall order, set_order order -> forall prune g ns,
  snd (remove_loop order (remove_fuel g ns) prune g (rev ns) []) = [].
Proof.
  intros order H prune g ns. apply (remove_loop_done order H).
  unfold remove_fuel. rewrite rev_length. simpl. lia.
Qed.

(* ... and removes exactly the closure: the requested nodes that are present plus, when pruning, every
   ancestor left with no remaining successor; each once; every other node and every edge among the
   remaining nodes is untouched; whatever the iteration order. *)
Theorem C20_remove : forall order, set_order order -> forall g ns prune, WF g ->
  let r := remove_nodes order g ns prune in
  WF (fst r) /\ NoDup (snd r) /\
  (forall x, In x (snd r) <-> Clo (is_node g) (sedge g) (fun x => In x ns) prune x) /\
  (forall u, is_node (fst r) u <-> is_node g u /\ ~ In u (snd r)) /\
  (forall u v, sedge (fst r) u v <-> sedge g u v /\ ~ In u (snd r) /\ ~ In v (snd r)).
Proof. exact remove_nodes_spec. Qed.

Theorem C20_remove_noprune : forall g ns x,
  Clo (is_node g) (sedge g) (fun x => In x ns) false x <-> In x ns /\ is_node g x.
Proof. exact Clo_noprune. Qed.

(* replace: all edges preserved under the renaming old -> new ([un o n] maps new back to old);
   ValueError iff the new node exists (graph unchanged); no-op iff the old node is absent. *)
Theorem C20_replace : forall order, set_order order -> forall g o n, WF g -> is_node g o -> ~ is_node g n ->
  let r := replace order g o n in
  snd r = RetNone /\ WF (fst r) /\
  (forall k, is_node (fst r) k <-> (is_node g k /\ k <> o) \/ k = n) /\
  (forall a b, sedge (fst r) a b <-> a <> o /\ b <> o /\ sedge g (un o n a) (un o n b)).
Proof. exact replace_spec. Qed.

Theorem C20_replace_new_exists : forall order g o n,
  is_node g o -> is_node g n -> replace order g o n = (g, ValueErr).
Proof. exact replace_exists. Qed.

Theorem C20_replace_old_absent : forall order g o n, ~ is_node g o -> replace order g o n = (g, RetNone).
Proof. exact replace_absent. Qed.

(* promote_to_source: exactly the incoming edges of x disappear (E1), and the removed nodes are exactly
   the closure, in the graph without those edges, of the predecessors of x left without successors. *)
Theorem C20_promote : forall order, set_order order -> forall x g, WF g -> is_node g x ->
  let r := promote order g x in
  let E1 := fun u v => sedge g u v /\ v <> x in
  WF (fst r) /\ NoDup (snd r) /\
  (forall y, In y (snd r) <-> Clo (is_node g) E1 (fun p => sedge g p x /\ forall s, ~ E1 p s) true y) /\
  (forall u, is_node (fst r) u <-> is_node g u /\ ~ In u (snd r)) /\
  (forall u v, sedge (fst r) u v <-> E1 u v /\ ~ In u (snd r) /\ ~ In v (snd r)).
Proof. exact promote_spec. Qed.

Theorem C20_promote_absent : forall order x g, ~ is_node g x -> promote order g x = (g, []).
Proof. intros order x g. exact (promote_absent order x g). Qed.

(* ---- non-vacuity: the hypotheses are met by concrete non-trivial graphs ---- *)
Definition ex_ops : list gop :=
  [Add 1 (Some 2); Add 2 (Some 4); Add 1 (Some 3); Add 3 (Some 4); Add 4 (Some 5); Add 0 (Some 1);
   Add 6 (Some 5)]%N.
Definition ex_g := grun (fun l => l) empty_graph ex_ops.

Example C20_set_order_id : set_order (fun l => l).
Proof. intros l. apply Permutation_refl. Qed.
Example C20_set_order_rev : set_order (@rev node).
Proof. intros l. apply Permutation_sym, Permutation_rev. Qed.
Example C20_ex_WF : WF ex_g /\ is_node ex_g 4%N /\ ~ is_node ex_g 9%N.
Proof.
  split; [exact (reachable_WF _ C20_set_order_id ex_ops)|].
  split; [vm_compute; discriminate|vm_compute; intros H; apply H; reflexivity].
Qed.
(* removing 4 with pruning takes the whole diamond and its feeder 0, but neither 5 nor 6 *)
Example C20_ex_remove :
  remove_nodes (fun l => l) ex_g [4%N] true
  = (mkG [(5, []); (6, [5])]%N [(5, [6]); (6, [])]%N, [4; 3; 1; 0; 2]%N)
  /\ get_nodes (fst (remove_nodes (@rev node) ex_g [4%N] true)) = [5; 6]%N.
Proof. split; vm_compute; reflexivity. Qed.
(* promoting 4 cuts 2->4, 3->4 and deletes 2, 3, then 1, then 0 *)
Example C20_ex_promote :
  snd (promote (fun l => l) ex_g 4%N) = [3; 1; 0; 2]%N /\
  successors (fst (promote (fun l => l) ex_g 4%N)) 4%N = [5%N] /\
  predecessors (fst (promote (fun l => l) ex_g 4%N)) 4%N = [].
Proof. repeat split; vm_compute; reflexivity. Qed.
Example C20_ex_replace :
  successors (fst (replace (fun l => l) ex_g 4 9)%N) 2%N = [9%N] /\
  successors (fst (replace (fun l => l) ex_g 4 9)%N) 9%N = [5%N] /\
  replace (fun l => l) ex_g 4%N 5%N = (ex_g, ValueErr).
Proof. repeat split; vm_compute; reflexivity. Qed.

Print Assumptions C20_mirror.
Print Assumptions C20_refines.
Print Assumptions C20_reachable_consistent.
Print Assumptions C20_remove_terminates.
Print Assumptions C20_remove.
Print Assumptions C20_remove_noprune.
Print Assumptions C20_replace.
Print Assumptions C20_replace_new_exists.
Print Assumptions C20_replace_old_absent.
Print Assumptions C20_promote.
Print Assumptions C20_promote_absent.
