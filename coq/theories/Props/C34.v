(* Props/C34.v — Exported run provenance is self-contained and consistent.
   Verified-checker design: the theorems are about the checker [crate_ok] (Crate/Checker.v), which is evaluated
   inside Coq on every crate exported from a real run; the crate generator itself is not modelled.
   Only statements here; every proof is [exact <lemma of Crate/Proofs.v>]. *)
From Coq Require Import List Bool NArith.
From SF Require Import Base.Str Base.Dec Crate.Checker Crate.Spec Crate.Proofs.
Import ListNotations.
Local Open Scope string_scope. Local Open Scope list_scope.

(* the checker accepts only crates satisfying the declarative predicate [wf_crate] (Crate/Spec.v): every element
   of @graph has a string @id; @ids are unique; every non-web reference resolves; archive member names are unique; every File entity records a sha1
   and is in the archive with the recorded checksum/size; every run value is represented; the actions of a step are the records
   of its jobs (what each consumed and produced) *)
Theorem C34_checker_sound : forall g ar vs ss, crate_ok g ar vs ss = true -> wf_crate g ar vs ss.
Proof. exact crate_ok_sound. Qed.

(* ... and it rejects no crate that satisfies it: a rejection by the checker is a real defect of the crate *)
Theorem C34_checker_complete : forall g ar vs ss, wf_crate g ar vs ss -> crate_ok g ar vs ss = true.
Proof. exact crate_ok_complete. Qed.

(* the same for the whole metadata document, which is what the check evaluates on every exported crate: an object
   with an @context whose @graph is an array forming a well-formed crate *)
Theorem C34_document_checker_exact : forall m ar vs ss, doc_ok m ar vs ss = true <-> wf_doc m ar vs ss.
Proof. exact doc_ok_iff. Qed.

(* the executable collection of references is exactly "occurs as a reference object at any depth" *)
Theorem C34_refs_exact : forall j s, In s (vrefs j) <-> VRef j s.
Proof. exact vrefs_spec. Qed.

(* the bounded hasPart search is exactly bounded reachability *)
Theorem C34_reach_exact : forall g n x y, reachb g n x y = true <-> ReachN g n x y.
Proof. exact reachb_spec. Qed.

(* consequences for an accepted crate -------------------------------------------------------------- *)
(* unique identifiers: an @id resolves to exactly one entity *)
Theorem C34_lookup_unique : forall g ar vs ss, wf_crate g ar vs ss ->
  forall i e1 e2, Entity g i e1 -> Entity g i e2 -> e1 = e2.
Proof. exact wf_lookup_unique. Qed.

(* self-contained: a File entity recording checksum h has an archive entry under its @id with digest h *)
Theorem C34_file_present : forall g ar vs ss, wf_crate g ar vs ss ->
  forall e i h, Entity g i e -> HasType e "File" -> get e "sha1" = Some (JStr h) ->
    exists s, In (i, h, s) ar.
Proof. exact wf_file_present. Qed.

(* a represented file value of the run is in the archive, under the @id of a File entity, with the run's
   checksum and size *)
Theorem C34_value_file_in_archive : forall g ar inp p h s,
  Represented g ar (RV inp p (VItem (IFile h s))) ->
  exists y e, Entity g y e /\ HasType e "File" /\ In (y, h, s) ar.
Proof. exact represented_file_in_archive. Qed.

(* consistent at step level: every action orchestrated for a step is the record of one of the step's jobs (its
   object lists what the job consumed - and nothing else when all inputs are known -, its result lists only what
   the job produced: the product of step s10 is never listed under step s1), and every job has such a record *)
Theorem C34_step_actions_are_jobs : forall g ar vs ss, wf_crate g ar vs ss ->
  forall v a, In v ss -> StepAction g (sv_step v) a -> exists j, In j (sv_jobs v) /\ JobOk g ar a j.
Proof. exact wf_step_results. Qed.
Theorem C34_step_jobs_recorded : forall g ar vs ss, wf_crate g ar vs ss ->
  forall v j, In v ss -> In j (sv_jobs v) -> exists a, StepAction g (sv_step v) a /\ JobOk g ar a j.
Proof. exact wf_step_jobs. Qed.

(* non-vacuity: a miniature crate (one File input, one literal input, one File[] output, one Directory input)
   that the checker accepts — so [wf_crate] is satisfiable with every kind of value — and the same crate with a
   file missing from the archive (the "deleted before export" shape), a duplicated @id, a dangling reference *)
Definition ref (s : string) := JObj [("@id", JStr s)].
Definition mini : graph :=
  [ JObj [("@id", JStr "./"); ("@type", JStr "Dataset"); ("mainEntity", ref "wf.cwl");
          ("conformsTo", JArr [ref "https://w3id.org/ro/crate/1.1"]); ("mentions", JArr [ref "#run"])];
    JObj [("@id", JStr "wf.cwl"); ("@type", JArr [JStr "ComputationalWorkflow"; JStr "File"]); ("sha1", JStr "aa");
          ("input", JArr [ref "wf.cwl#f"; ref "wf.cwl#m"; ref "wf.cwl#d"]); ("output", JArr [ref "wf.cwl#o"])];
    JObj [("@id", JStr "wf.cwl#f"); ("@type", JStr "FormalParameter"); ("name", JStr "f")];
    JObj [("@id", JStr "wf.cwl#m"); ("@type", JStr "FormalParameter"); ("name", JStr "m")];
    JObj [("@id", JStr "wf.cwl#d"); ("@type", JStr "FormalParameter"); ("name", JStr "d")];
    JObj [("@id", JStr "wf.cwl#o"); ("@type", JStr "FormalParameter"); ("name", JStr "o")];
    JObj [("@id", JStr "#run"); ("@type", JStr "CreateAction"); ("instrument", ref "wf.cwl");
          ("object", JArr [ref "f1"; ref "#pv"; ref "dd"]); ("result", JArr [ref "#out"])];
    JObj [("@id", JStr "f1"); ("@type", JStr "File"); ("sha1", JStr "f1"); ("contentSize", JStr "6");
          ("exampleOfWork", ref "wf.cwl#f")];
    JObj [("@id", JStr "#pv"); ("@type", JStr "PropertyValue"); ("value", JStr "True");
          ("exampleOfWork", JArr [ref "wf.cwl#m"])];
    JObj [("@id", JStr "dd"); ("@type", JStr "Dataset"); ("hasPart", JArr [ref "dd/sub"]); ("exampleOfWork", ref "wf.cwl#d")];
    JObj [("@id", JStr "dd/sub"); ("@type", JStr "Dataset"); ("hasPart", JArr [ref "dd/sub/f2"])];
    JObj [("@id", JStr "dd/sub/f2"); ("@type", JStr "File"); ("sha1", JStr "f2")];
    JObj [("@id", JStr "#out"); ("@type", JStr "PropertyValue"); ("value", JArr [ref "f1"; ref "g2"]);
          ("exampleOfWork", ref "wf.cwl#o")];
    JObj [("@id", JStr "g2"); ("@type", JStr "File"); ("sha1", JStr "g2")];
    JObj [("@id", JStr "wf.cwl#s1"); ("@type", JStr "HowToStep")];
    JObj [("@id", JStr "#c1"); ("@type", JStr "ControlAction"); ("instrument", ref "wf.cwl#s1"); ("object", JArr [ref "#a1"])];
    JObj [("@id", JStr "#a1"); ("@type", JStr "CreateAction"); ("instrument", ref "wf.cwl#s1");
          ("object", JArr [ref "f1"; ref "#pv"]); ("result", JArr [ref "g2"])] ].
Definition mini_ss : list sv :=
  [ SV "wf.cwl#s1" [Job [VItem (IFile "f1" 6); VItem (ILit ["True"; "true"])] true (Some (VItem (IFile "g2" 3)))] ].
Definition mini_ar : list entry :=
  [("wf.cwl", "aa", 100%N); ("f1", "f1", 6%N); ("dd/", "-", 0%N); ("dd/sub/f2", "f2", 2%N); ("g2", "g2", 3%N)].
Definition mini_vs : list rv :=
  [ RV true "f" (VItem (IFile "f1" 6)); RV true "m" (VItem (ILit ["True"; "true"]));
    RV true "d" (VDir [("f2", 2%N)]); RV false "o" (VList [IFile "f1" 6; IFile "g2" 3]) ].

Example C34_mini_accepted : crate_ok mini mini_ar mini_vs mini_ss = true /\ wf_crate mini mini_ar mini_vs mini_ss.
Proof. assert (H : crate_ok mini mini_ar mini_vs mini_ss = true) by (vm_compute; reflexivity).
       split; [exact H|apply crate_ok_sound; exact H]. Qed.
(* file deleted before export: the entity stays, the entry is gone *)
Example C34_mini_missing_file_rejected :
  crate_ok mini (filter (fun en => negb (String.eqb (en_name en) "dd/sub/f2")) mini_ar) mini_vs mini_ss = false /\
  ~ wf_crate mini (filter (fun en => negb (String.eqb (en_name en) "dd/sub/f2")) mini_ar) mini_vs mini_ss.
Proof. assert (H : crate_ok mini (filter (fun en => negb (String.eqb (en_name en) "dd/sub/f2")) mini_ar) mini_vs mini_ss = false)
         by (vm_compute; reflexivity).
       split; [exact H|]. intro W. apply crate_ok_complete in W. congruence. Qed.
Example C34_mini_wrong_size_rejected :
  crate_ok mini (("f1", "f1", 7%N) :: mini_ar) mini_vs mini_ss = false.
Proof. vm_compute. reflexivity. Qed.
Example C34_mini_duplicate_id_rejected : crate_ok (mini ++ [JObj [("@id", JStr "g2"); ("@type", JStr "Thing")]]) mini_ar mini_vs mini_ss = false.
Proof. vm_compute. reflexivity. Qed.
Example C34_mini_dangling_ref_rejected :
  crate_ok (mini ++ [JObj [("@id", JStr "#x"); ("@type", JStr "Thing"); ("about", ref "nowhere")]]) mini_ar mini_vs mini_ss = false /\
  crate_ok (mini ++ [JObj [("@id", JStr "#x"); ("@type", JStr "Thing"); ("about", ref "https://example.org/")]]) mini_ar mini_vs mini_ss = true.
Proof. vm_compute. split; reflexivity. Qed.
Example C34_mini_value_missing_rejected :
  crate_ok mini mini_ar (RV false "o" (VList [IFile "g2" 3; IFile "f1" 6]) :: mini_vs) mini_ss = false.
Proof. vm_compute. reflexivity. Qed.

(* a step's action that also lists the product of another step (the s1 / s10 confusion), an action that lacks a
   consumed input, a job without any action: all rejected *)
Example C34_mini_foreign_step_result_rejected :
  crate_ok (mini ++ [JObj [("@id", JStr "#c2"); ("@type", JStr "ControlAction"); ("instrument", ref "wf.cwl#s1"); ("object", JArr [ref "#a2"])];
                     JObj [("@id", JStr "#a2"); ("@type", JStr "CreateAction"); ("object", JArr [ref "f1"; ref "#pv"]);
                           ("result", JArr [ref "g2"; ref "f1"])]])
           mini_ar mini_vs mini_ss = false.
Proof. vm_compute. reflexivity. Qed.
Example C34_mini_step_input_missing_rejected :
  crate_ok mini mini_ar mini_vs
    [ SV "wf.cwl#s1" [Job [VItem (IFile "f1" 6); VItem (ILit ["other"])] false (Some (VItem (IFile "g2" 3)))] ] = false /\
  crate_ok mini mini_ar mini_vs
    [ SV "wf.cwl#s1" [Job [VItem (IFile "f1" 6)] true None] ] = false /\
  crate_ok mini mini_ar mini_vs
    [ SV "wf.cwl#s1" [Job [VItem (IFile "f1" 6)] false None] ] = true.
Proof. vm_compute. repeat split; reflexivity. Qed.
Example C34_mini_job_without_action_rejected :
  crate_ok mini mini_ar mini_vs
    [ SV "wf.cwl#s1" [Job [VItem (IFile "f1" 6)] false None; Job [VItem (IFile "g2" 3)] false None] ] = false.
Proof. vm_compute. reflexivity. Qed.

(* the document level, a File entity without checksum, a list of directories *)
Example C34_mini_document :
  doc_ok (JObj [("@context", JStr "https://w3id.org/ro/crate/1.1/context"); ("@graph", JArr mini)]) mini_ar mini_vs mini_ss = true /\
  doc_ok (JObj [("@graph", JArr mini)]) mini_ar mini_vs mini_ss = false /\
  doc_ok (JObj [("@context", JNull); ("@graph", JObj [])]) mini_ar mini_vs mini_ss = false.
Proof. vm_compute. repeat split; reflexivity. Qed.
Example C34_mini_file_without_sha1_rejected :
  crate_ok (mini ++ [JObj [("@id", JStr "h3"); ("@type", JStr "File")]]) (("h3", "h3", 1%N) :: mini_ar) mini_vs mini_ss = false /\
  crate_ok (mini ++ [JObj [("@id", JStr "h3"); ("@type", JStr "File"); ("sha1", JStr "h3")]]) (("h3", "h3", 1%N) :: mini_ar) mini_vs mini_ss = true.
Proof. vm_compute. split; reflexivity. Qed.
Example C34_mini_directory_list :
  crate_ok (mini ++ [JObj [("@id", JStr "#dl"); ("@type", JStr "PropertyValue"); ("value", JArr [ref "dd"; ref "dd/sub"]);
                           ("exampleOfWork", ref "wf.cwl#o")]]) mini_ar mini_vs
    [ SV "wf.cwl#s1" [Job [VList [IDir [("f2", 2%N)]; IDir [("f2", 2%N)]]] false None] ] = false /\
  item_ok mini mini_ar (ref "dd") (IDir [("f2", 2%N)]) = true /\ item_ok mini mini_ar (ref "dd") (IDir [("f2", 3%N)]) = false /\
  item_ok mini mini_ar (ref "f1") (IDir []) = false.
Proof. vm_compute. repeat split; reflexivity. Qed.

(* a member name occurring twice in the archive (the directory written once per path) is rejected *)
Example C34_mini_duplicate_member_rejected : crate_ok mini (("dd/", "-", 0%N) :: mini_ar) mini_vs mini_ss = false.
Proof. vm_compute. reflexivity. Qed.
(* records (fields carried by the elements of the value array) and Files with secondaryFiles (a Collection) *)
Definition rc : graph :=
  [ JObj [("@id", JStr "#r"); ("@type", JStr "PropertyValue");
          ("value", JArr [JObj [("@id", JStr "f1"); ("@type", JStr "File")]; JObj [("@id", JStr "#rs"); ("@type", JStr "PropertyValue")]])];
    JObj [("@id", JStr "#rs"); ("@type", JStr "PropertyValue"); ("value", JStr "0")];
    JObj [("@id", JStr "f1"); ("@type", JStr "File"); ("sha1", JStr "f1")];
    JObj [("@id", JStr "g2"); ("@type", JStr "File"); ("sha1", JStr "g2")];
    JObj [("@id", JStr "#c"); ("@type", JStr "Collection"); ("mainEntity", ref "f1"); ("hasPart", JArr [ref "f1"; ref "g2"])] ].
Example C34_record_and_collection :
  carries rc mini_ar "#r" (VRecord [IFile "f1" 6; ILit ["0"]]) = true /\
  carries rc mini_ar "#r" (VRecord [IFile "f1" 6]) = false /\
  carries rc mini_ar "#r" (VRecord [IFile "f1" 6; ILit ["0"]; ILit ["x"]]) = false /\
  carries rc mini_ar "#c" (VColl "f1" 6 [("g2", 3%N)]) = true /\
  carries rc mini_ar "#c" (VColl "g2" 3 [("g2", 3%N)]) = false /\
  carries rc mini_ar "#c" (VColl "f1" 6 [("dd/sub/f2", 2%N)]) = false.
Proof. vm_compute. repeat split; reflexivity. Qed.

Print Assumptions C34_checker_sound.
Print Assumptions C34_checker_complete.
Print Assumptions C34_document_checker_exact.
Print Assumptions C34_refs_exact.
Print Assumptions C34_reach_exact.
Print Assumptions C34_lookup_unique.
Print Assumptions C34_file_present.
Print Assumptions C34_value_file_in_archive.
Print Assumptions C34_step_actions_are_jobs.
Print Assumptions C34_step_jobs_recorded.
