(* Net/Contracts2.v — converse of gather_terminates: a GatherStep that has terminated has consumed the termination
   token of both its ports (it never terminates early). *)
From Coq Require Import List Bool NArith.
From SF Require Import Base.Str Tags.Model Gather.Model Net.Contracts.
Import ListNotations.

Lemma gstep_closes depth s a :
  (sopen (gather_step depth s a) = false -> sopen s = false \/ exists st, a = OnTerm SizeP st) /\
  (eopen (gather_step depth s a) = false -> eopen s = false \/ exists st, a = OnTerm ElemP st).
Proof.
  destruct s as [d so eo gs gf]. destruct a as [tg n|x|p st]; unfold gather_step; simpl.
  - destruct so; simpl; split; intros H; auto.
  - destruct eo; simpl; split; intros H; auto.
  - destruct p; destruct so; destruct eo; simpl;
      try destruct (finish d (reduce_statuses [gs; st])) as [d' fin]; simpl; split; intros H; auto;
      try discriminate; right; eexists; reflexivity.
Qed.

Lemma gfold_closes depth : forall arr s,
  (sopen (fold_left (gather_step depth) arr s) = false -> sopen s = false \/ exists st, In (OnTerm SizeP st) arr) /\
  (eopen (fold_left (gather_step depth) arr s) = false -> eopen s = false \/ exists st, In (OnTerm ElemP st) arr).
Proof.
  induction arr as [|a r IH]; intros s; simpl; [split; auto|].
  destruct (IH (gather_step depth s a)) as [S E]. destruct (gstep_closes depth s a) as [S1 E1]. split; intros H.
  - destruct (S H) as [H1|[st Hin]]; [|right; exists st; right; exact Hin].
    destruct (S1 H1) as [H2|[st ->]]; [left; exact H2|right; exists st; left; reflexivity].
  - destruct (E H) as [H1|[st Hin]]; [|right; exists st; right; exact Hin].
    destruct (E1 H1) as [H2|[st ->]]; [left; exact H2|right; exists st; left; reflexivity].
Qed.

Theorem gather_terminates_only_after_both : forall depth arr,
  gfinal (gather_run depth arr) <> None ->
  (exists s1, In (OnTerm SizeP s1) arr) /\ (exists s2, In (OnTerm ElemP s2) arr).
Proof.
  intros depth arr F. unfold gather_run in *.
  destruct (gather_fold_facts depth arr ginit ginv_init) as [I _]. destruct (proj1 I F) as [So Eo].
  destruct (gfold_closes depth arr ginit) as [S E]. split.
  - destruct (S So) as [H|H]; [discriminate|exact H].
  - destruct (E Eo) as [H|H]; [discriminate|exact H].
Qed.
