(* Net/MixedProofs.v — networks of log machines (round machines read sequentially, merge-style steps): invariants,
   progress, "a stuck network is a terminated network", no read past a termination token, accounting. *)
From Coq Require Import List Bool Arith Lia.
From SF Require Import Net.Model Net.Util Net.MixedModel.
Import ListNotations.

Section MixedProofs.
  Variable T : Type.
  Variable spec : Type.
  Variable s_ins : spec -> list src.
  Variable s_nout : spec -> nat.
  Variable outs : spec -> log T -> list (list (mtok T)).
  Variable done : spec -> log T -> bool.
  Variable accept : spec -> log T -> nat -> bool.
  Variable win : list (list (mtok T)).
  Variable specs : list spec.
  Hypothesis HC : log_contract T spec s_ins s_nout outs done accept.
  Hypothesis HW : mwf T spec s_ins s_nout win specs.

  Notation cont := (mcontent T spec outs win specs).
  Notation step := (mstep T spec s_ins outs done accept win specs).
  Notation exe := (mexec T spec s_ins outs done accept win specs).
  Notation tok := (mtok T).

  (* ---------------------------------------------------------------- list facts *)
  Lemma extm_refl (a : list tok) : ext_m T a a.
  Proof. exists []. rewrite app_nil_r. reflexivity. Qed.

  Lemma firstn_ext (a c : list tok) n : n <= length a -> firstn n (a ++ c) = firstn n a.
  Proof. intros H. rewrite firstn_app. replace (n - length a) with 0 by lia. simpl. apply app_nil_r. Qed.

  Lemma firstn_S_nth (a : list tok) n d : n < length a -> firstn (S n) a = firstn n a ++ [nth n a d].
  Proof.
    revert n; induction a as [|x a IH]; intros [|n] H; simpl in *; try lia; auto.
    f_equal. apply IH. lia.
  Qed.

  Lemma proj_app j (l1 l2 : log T) : proj T j (l1 ++ l2) = proj T j l1 ++ proj T j l2.
  Proof. unfold proj. rewrite filter_app, map_app. reflexivity. Qed.
  Lemma cnt_app j (l1 l2 : log T) : cnt T j (l1 ++ l2) = cnt T j l1 + cnt T j l2.
  Proof. unfold cnt. rewrite filter_app, app_length. reflexivity. Qed.
  Lemma proj_single j j0 (tk : tok) : proj T j [(j0, tk)] = if Nat.eqb j0 j then [tk] else [].
  Proof. unfold proj, on_port. simpl. destruct (Nat.eqb j0 j); reflexivity. Qed.
  Lemma cnt_single j j0 (tk : tok) : cnt T j [(j0, tk)] = if Nat.eqb j0 j then 1 else 0.
  Proof. unfold cnt, on_port. simpl. destruct (Nat.eqb j0 j); reflexivity. Qed.
  Lemma cnt_proj j (l : log T) : length (proj T j l) = cnt T j l.
  Proof. unfold proj, cnt. apply map_length. Qed.

  Lemma existsb_nth_m (f : tok -> bool) l d : existsb f l = true -> exists r, r < length l /\ f (nth r l d) = true.
  Proof.
    induction l as [|x l IH]; simpl; [discriminate|]. intros H. apply orb_true_iff in H. destruct H as [H|H].
    - exists 0. split; auto. lia.
    - destruct (IH H) as [r [Hr Hf]]. exists (S r). split; auto. lia.
  Qed.

  (* ---------------------------------------------------------------- invariant: a log is made of input prefixes *)
  Definition minv (st : mstate T) : Prop :=
    length st = length specs /\
    forall i sp l j p, nth_error specs i = Some sp -> nth_error st i = Some l -> nth_error (s_ins sp) j = Some p ->
      proj T j l = firstn (cnt T j l) (cont st p) /\
      existsb (is_e T) (removelast (proj T j l)) = false.        (* it never read past a termination token *)

  Lemma minv_init : minv (minit T spec specs).
  Proof.
    split; [apply map_length|]. intros i sp l j p Hsp Hl Hp.
    assert (l = []).
    { apply nth_error_In in Hl. unfold minit in Hl. apply in_map_iff in Hl. destruct Hl as [x [Hx _]]. auto. }
    subst. simpl. split; reflexivity.
  Qed.

  Lemma step_inv c st st' : step st c = Some st' ->
    exists i j sp l p, c = (i, j) /\ nth_error specs i = Some sp /\ nth_error st i = Some l /\
      nth_error (s_ins sp) j = Some p /\ done sp l = false /\ accept sp l j = true /\
      cnt T j l < length (cont st p) /\
      st' = upd i (l ++ [(j, nth (cnt T j l) (cont st p) (E WAITING))]) st.
  Proof.
    destruct c as [i j]. unfold mstep.
    destruct (nth_error specs i) as [sp|] eqn:E1; [|discriminate].
    destruct (nth_error st i) as [l|] eqn:E2; [|discriminate].
    destruct (nth_error (s_ins sp) j) as [p|] eqn:E3; [|discriminate].
    destruct (negb (done sp l) && accept sp l j && Nat.ltb (cnt T j l) (length (cont st p))) eqn:Hb; [|discriminate].
    intros H. apply andb_true_iff in Hb. destruct Hb as [Hb H3].
    apply andb_true_iff in Hb. destruct Hb as [H1 H2]. apply negb_true_iff in H1. apply Nat.ltb_lt in H3.
    exists i, j, sp, l, p.
    split; [reflexivity|]. split; [exact E1|]. split; [exact E2|]. split; [exact E3|].
    split; [exact H1|]. split; [exact H2|]. split; [exact H3|]. inversion H. reflexivity.
  Qed.

  (* contents only grow, and inputs of the fired step do not change *)
  Lemma cont_grows st i sp l j t p : nth_error specs i = Some sp -> nth_error st i = Some l ->
    done sp l = false -> accept sp l j = true ->
    ext_m T (cont st p) (cont (upd i (l ++ [(j, t)]) st) p).
  Proof.
    intros Hsp Hl Hnd Hacc. destruct p as [k|s jj]; simpl; [apply extm_refl|].
    destruct (nth_error specs s) as [sps|] eqn:Hs; [|apply extm_refl].
    destruct (Nat.eq_dec i s) as [->|Hne].
    - rewrite nth_error_upd_same by (eapply nth_error_Some_lt; eauto). rewrite Hl.
      assert (sps = sp) by congruence. subst. destruct HC as [C1 _]. apply C1; auto.
    - rewrite nth_error_upd_other by auto. apply extm_refl.
  Qed.

  Lemma cont_same st i x p : match p with SOut s _ => s <> i | WIn _ => True end -> cont (upd i x st) p = cont st p.
  Proof.
    destruct p as [k|s j]; simpl; auto. intros H. rewrite nth_error_upd_other by auto. reflexivity.
  Qed.

  Lemma input_not_self i sp p : nth_error specs i = Some sp -> In p (s_ins sp) ->
    match p with SOut s _ => s <> i | WIn _ => True end.
  Proof.
    intros Hsp Hp. destruct HW as [_ W]. specialize (W i sp Hsp p Hp). destruct p; simpl in *; auto. lia.
  Qed.

  Lemma removelast_snoc {A} (l : list A) x : removelast (l ++ [x]) = l.
  Proof. apply removelast_last. Qed.

  Lemma minv_step st c st' : minv st -> step st c = Some st' -> minv st'.
  Proof.
    intros [Hlen I] Hs.
    destruct (step_inv _ _ _ Hs) as [i [j0 [sp [l [p0 [-> [Hsp [Hl [Hp0 [Hnd [Hacc [Hlt ->]]]]]]]]]]]].
    assert (Hi : i < length st) by (eapply nth_error_Some_lt; eauto).
    set (tk := nth (cnt T j0 l) (cont st p0) (E WAITING)).
    split; [rewrite upd_length; exact Hlen|].
    intros k spk lk j p Hspk Hlk Hp.
    destruct (Nat.eq_dec i k) as [<-|Hne].
    - rewrite nth_error_upd_same in Hlk by auto. inversion Hlk; subst lk.
      assert (spk = sp) by congruence. subst spk.
      assert (Hns : cont (upd i (l ++ [(j0, tk)]) st) p = cont st p).
      { apply cont_same. eapply input_not_self; eauto. eapply nth_error_In; eauto. }
      rewrite Hns. destruct (I _ _ _ _ _ Hsp Hl Hp) as [I1 I2].
      rewrite proj_app, cnt_app, proj_single, cnt_single.
      destruct (Nat.eqb j0 j) eqn:Ej; simpl.
      + apply Nat.eqb_eq in Ej. subst j0. assert (p0 = p) by congruence. subst p0.
        rewrite Nat.add_1_r. split.
        * rewrite (firstn_S_nth _ _ (E WAITING)) by exact Hlt. rewrite <- I1. reflexivity.
        * rewrite removelast_snoc. destruct HC as [_ [_ [_ [_ C5]]]]. apply (C5 sp l j Hacc).
      + rewrite Nat.add_0_r, app_nil_r. split; auto.
    - rewrite nth_error_upd_other in Hlk by auto.
      destruct (I _ _ _ _ _ Hspk Hlk Hp) as [I1 I2]. split; auto.
      destruct (cont_grows st i sp l j0 tk p Hsp Hl Hnd Hacc) as [extra ->].
      rewrite firstn_ext; auto.
      assert (length (proj T j lk) = cnt T j lk) by apply cnt_proj.
      rewrite I1 in H. rewrite firstn_length in H. lia.
  Qed.

  Theorem reachable_inv : forall ch st st', minv st -> exe st ch = Some st' -> minv st'.
  Proof.
    induction ch as [|c r IH]; intros st st' I H; simpl in H.
    - inversion H; subst. exact I.
    - destruct (step st c) as [st1|] eqn:Hs; [|discriminate]. eapply IH; [eapply minv_step; eauto|exact H].
  Qed.

  (* ---------------------------------------------------------------- progress *)
  Definition has_e (l : list tok) : Prop := existsb (is_e T) l = true.

  Lemma done_out_has_e st s sp l j : nth_error specs s = Some sp -> nth_error st s = Some l ->
    done sp l = true -> j < s_nout sp -> has_e (cont st (SOut s j)).
  Proof.
    intros Hsp Hl Hd Hj. simpl. rewrite Hsp, Hl. destruct HC as [_ [C2 [C3 _]]].
    assert (Hin : In (nth j (outs sp l) []) (outs sp l)) by (apply nth_In; rewrite C2; exact Hj).
    destruct (C3 sp l _ Hd Hin) as [d [s0 [-> _]]]. unfold has_e. rewrite existsb_app. simpl. apply orb_true_r.
  Qed.

  (* the first step that has not terminated can always take an arrival *)
  Lemma least_undone_enabled st k sp l : minv st ->
    nth_error specs k = Some sp -> nth_error st k = Some l -> done sp l = false ->
    (forall i spi li, i < k -> nth_error specs i = Some spi -> nth_error st i = Some li -> done spi li = true) ->
    exists j st', step st (k, j) = Some st'.
  Proof.
    intros [Hlen I] Hsp Hl Hnd Hprev.
    destruct HC as [C1 [C2 [C3 [C4 C5]]]].
    destruct (C4 sp l Hnd) as [j [Hj Hacc]].
    destruct (nth_error (s_ins sp) j) as [p|] eqn:Hp; [|apply nth_error_None in Hp; lia].
    assert (Hin : In p (s_ins sp)) by (eapply nth_error_In; eauto).
    assert (He : has_e (cont st p)).
    { destruct HW as [W1 W2]. specialize (W2 k sp Hsp p Hin). destruct p as [q|s jj]; simpl in W2.
      - simpl. apply W1. exact W2.
      - destruct W2 as [Hs [sps [Hsps Hjj]]].
        destruct (nth_error st s) as [ls|] eqn:Hls; [|apply nth_error_None in Hls; apply nth_error_Some_lt in Hsps; lia].
        eapply done_out_has_e; eauto. }
    destruct (I _ _ _ _ _ Hsp Hl Hp) as [I1 _].
    assert (Hlt : cnt T j l < length (cont st p)).
    { destruct (Nat.lt_ge_cases (cnt T j l) (length (cont st p))) as [H|H]; [exact H|exfalso].
      rewrite firstn_all2 in I1 by exact H.
      pose proof (C5 sp l j Hacc) as Hc. unfold port_closed in Hc. rewrite I1 in Hc. unfold has_e in He. congruence. }
    exists j. unfold mstep. rewrite Hsp, Hl, Hp, Hnd, Hacc. simpl.
    apply Nat.ltb_lt in Hlt. rewrite Hlt. eauto.
  Qed.

  (* a network in which nothing can move has every step terminated (no deadlock) ... *)
  Theorem stuck_all_done st : minv st -> (forall c, step st c = None) -> all_done T spec done specs st.
  Proof.
    intros I Hstuck. unfold all_done.
    assert (G : forall n i sp l, i < n -> nth_error specs i = Some sp -> nth_error st i = Some l -> done sp l = true).
    { induction n as [|n IH]; intros i sp l Hi Hsp Hl; [lia|].
      destruct (Nat.eq_dec i n) as [->|Hne]; [|apply (IH i); auto; lia].
      destruct (done sp l) eqn:Hd; [reflexivity|exfalso].
      destruct (least_undone_enabled st n sp l I Hsp Hl Hd) as [j [st' Hs]].
      - intros i0 spi li Hlt. apply IH. exact Hlt.
      - rewrite Hstuck in Hs. discriminate. }
    intros i sp l Hsp Hl. apply (G (S i) i); auto.
  Qed.

  (* ... and then every output port carries its data followed by exactly one termination token *)
  Theorem all_done_closed st : all_done T spec done specs st ->
    forall i sp l o, nth_error specs i = Some sp -> nth_error st i = Some l -> In o (outs sp l) ->
      exists d s, o = d ++ [E s] /\ term_free_m T d.
  Proof.
    intros Hd i sp l o Hsp Hl Ho. destruct HC as [_ [_ [C3 _]]]. eapply C3; eauto.
  Qed.

  (* progress, as a dichotomy *)
  Theorem progress st : minv st -> all_done T spec done specs st \/ exists c st', step st c = Some st'.
  Proof.
    intros I.
    assert (G : forall n, (forall i sp l, i < n -> nth_error specs i = Some sp -> nth_error st i = Some l -> done sp l = true)
                          \/ exists c st', step st c = Some st').
    { induction n as [|n [IH|IH]]; [left; intros; lia| |right; exact IH].
      destruct (nth_error specs n) as [sp|] eqn:Hsp.
      - destruct (nth_error st n) as [l|] eqn:Hl.
        + destruct (done sp l) eqn:Hd.
          * left. intros i spi li Hi Hspi Hli. destruct (Nat.eq_dec i n) as [->|Hne]; [congruence|apply (IH i); auto; lia].
          * right. destruct (least_undone_enabled st n sp l I Hsp Hl Hd IH) as [j [st' Hs]]. eauto.
        + left. intros i spi li Hi Hspi Hli. destruct (Nat.eq_dec i n) as [->|Hne]; [congruence|apply (IH i); auto; lia].
      - left. intros i spi li Hi Hspi Hli. destruct (Nat.eq_dec i n) as [->|Hne]; [congruence|apply (IH i); auto; lia]. }
    destruct (G (length specs)) as [H|H]; [left|right; exact H].
    intros i sp l Hsp Hl. apply (H i); auto. eapply nth_error_Some_lt; eauto.
  Qed.

  (* ---------------------------------------------------------------- accounting: one transition = one arrival *)
  Definition total (st : mstate T) : nat := list_sum (map (@length _) st).

  Lemma total_upd : forall (st : mstate T) i l x, nth_error st i = Some l ->
    total (upd i (l ++ [x]) st) = S (total st).
  Proof.
    unfold total. induction st as [|y st IH]; intros [|i] l x H; simpl in *; try discriminate.
    - inversion H; subst. rewrite app_length. simpl. lia.
    - rewrite (IH i l x H). lia.
  Qed.

  Theorem accounting : forall ch st st', exe st ch = Some st' -> total st' = total st + length ch.
  Proof.
    induction ch as [|c r IH]; intros st st' H; simpl in H.
    - inversion H. simpl. lia.
    - destruct (step st c) as [st1|] eqn:Hs; [|discriminate].
      destruct (step_inv _ _ _ Hs) as [i [j [sp [l [p [_ [_ [Hl [_ [_ [_ [_ ->]]]]]]]]]]]].
      rewrite (IH _ _ H), (total_upd _ _ _ _ Hl). simpl. lia.
  Qed.

  (* ---------------------------------------------------------------- what a terminated step has computed *)
  (* its outputs are [outs] of a log whose projection on every input is a prefix of that input's history, read
     no further than its first termination token: a legal arrival order of (prefixes of) its inputs *)
  Theorem final_is_behaviour : forall ch st i sp l,
    exe (minit T spec specs) ch = Some st -> nth_error specs i = Some sp -> nth_error st i = Some l ->
    (forall j o, nth j (outs sp l) [] = o -> cont st (SOut i j) = o) /\
    forall j p, nth_error (s_ins sp) j = Some p ->
      proj T j l = firstn (cnt T j l) (cont st p) /\ existsb (is_e T) (removelast (proj T j l)) = false.
  Proof.
    intros ch st i sp l H Hsp Hl.
    pose proof (reachable_inv ch _ _ minv_init H) as [_ I]. split.
    - intros j o <-. simpl. rewrite Hsp, Hl. reflexivity.
    - intros j p Hp. eapply I; eauto.
  Qed.
  Lemma total_init : total (minit T spec specs) = 0.
  Proof.
    unfold total, minit.
    assert (G : forall l : list spec, list_sum (map (@length _) (map (fun _ : spec => @nil (nat * tok)) l)) = 0).
    { induction l; simpl; auto. }
    apply G.
  Qed.

  (* everything about an arbitrary execution (any interleaving of arrivals) of a well-formed network of log machines *)
  Theorem mixed_net : forall ch st, exe (minit T spec specs) ch = Some st ->
    (all_done T spec done specs st \/ exists c st', step st c = Some st') /\
    ((forall c, step st c = None) ->
       all_done T spec done specs st /\
       forall i sp l o, nth_error specs i = Some sp -> nth_error st i = Some l -> In o (outs sp l) ->
         exists d s, o = d ++ [E s] /\ term_free_m T d) /\
    (forall i sp l j p, nth_error specs i = Some sp -> nth_error st i = Some l -> nth_error (s_ins sp) j = Some p ->
       proj T j l = firstn (cnt T j l) (cont st p) /\ existsb (is_e T) (removelast (proj T j l)) = false) /\
    total st = length ch.
  Proof.
    intros ch st H. pose proof (reachable_inv ch _ _ minv_init H) as I.
    split; [apply progress; exact I|]. split; [|split].
    - intros Hs. pose proof (stuck_all_done st I Hs) as Hd. split; [exact Hd|apply all_done_closed; exact Hd].
    - destruct I as [_ I]. exact I.
    - rewrite (accounting _ _ _ H), total_init. reflexivity.
  Qed.
End MixedProofs.
