(* Net/Proofs2.v — determinacy (C05).
   (a) operational, for round machines: any two maximal executions of the same network end in the SAME state
       (no hypothesis on the round function, none on the graph): consequence of the diamond property.
   (b) denotational, for arbitrary (also merge-style) processes: if every process is order-insensitive — the
       bags of its outputs are determined by the bags of its inputs — then in an acyclic network any two
       complete behaviours carry the same bag on every port. *)
From Coq Require Import List Bool Arith Lia ZArith Permutation.
From SF Require Import Base.Str Net.Model Net.Util Net.Proofs.
Import ListNotations.
Local Open Scope list_scope.

Section Determinate.
  Variable L : Type.
  Variable spec : Type.
  Variable s_ins : spec -> list src.
  Variable fire : spec -> L -> list (list tok) -> list tok -> L * list (list tok) * option status.
  Variable win : list (list tok).
  Variable specs : list spec.

  Notation nst := (nstep L spec s_ins fire win specs).
  Notation exe := (exec L spec s_ins fire win specs).

  Theorem maximal_executions_agree : forall st0 ch1 ch2 st1 st2,
    exe st0 ch1 = Some st1 -> exe st0 ch2 = Some st2 ->
    (forall i, nst st1 i = None) -> (forall i, nst st2 i = None) ->
    st1 = st2 /\ length ch1 = length ch2.
  Proof.
    intros st0 ch1 ch2 st1 st2 H1 H2 Q1 Q2.
    rewrite exec_run in H1, H2.
    destruct (maximal_unique (nstate L) nst (net_diamond L spec s_ins fire win specs)
                st0 ch1 st1 ch2 st2 H1 Q1 H2 Q2) as [E Hl].
    split; [symmetry; exact E|symmetry; exact Hl].
  Qed.

  Corollary port_histories_agree : forall st0 ch1 ch2 st1 st2 p,
    exe st0 ch1 = Some st1 -> exe st0 ch2 = Some st2 ->
    (forall i, nst st1 i = None) -> (forall i, nst st2 i = None) ->
    content L win st1 p = content L win st2 p.
  Proof.
    intros st0 ch1 ch2 st1 st2 p H1 H2 Q1 Q2.
    destruct (maximal_executions_agree st0 ch1 ch2 st1 st2 H1 H2 Q1 Q2) as [-> _]. reflexivity.
  Qed.
End Determinate.

(* the (tag |-> value) reading of a port history *)
Fixpoint out_map (l : list tok) : list (string * Z) :=
  match l with
  | [] => []
  | Tok g v :: r => (g, v) :: out_map r
  | Term _ :: r => out_map r
  end.

(* ---------------------------------------------------------------- (b) composition of order-insensitive processes *)
Section Bags.
  Variable nsteps : nat.
  Variable ins : nat -> list src.
  (* Beh s inputs outputs : "outputs" are complete output histories the process s can produce, under some
     arrival interleaving, from the complete input histories "inputs" *)
  Variable Beh : nat -> list (list tok) -> list (list tok) -> Prop.
  Hypothesis topo : forall s p, s < nsteps -> In p (ins s) ->
    match p with SOut s' _ => s' < s | WIn _ => True end.
  Hypothesis insensitive : forall s i1 i2 o1 o2, s < nsteps ->
    Forall2 (@Permutation tok) i1 i2 -> Beh s i1 o1 -> Beh s i2 o2 -> Forall2 (@Permutation tok) o1 o2.

  Definition hist (W : nat -> list tok) (O : nat -> list (list tok)) (p : src) : list tok :=
    match p with WIn k => W k | SOut s j => nth j (O s) [] end.

  Variable W1 W2 : nat -> list tok.
  Variable O1 O2 : nat -> list (list tok).
  Hypothesis Weq : forall k, Permutation (W1 k) (W2 k).
  Hypothesis B1 : forall s, s < nsteps -> Beh s (map (hist W1 O1) (ins s)) (O1 s).
  Hypothesis B2 : forall s, s < nsteps -> Beh s (map (hist W2 O2) (ins s)) (O2 s).

  Lemma Forall2_nth_perm : forall (a b : list (list tok)) j,
    Forall2 (@Permutation tok) a b -> Permutation (nth j a []) (nth j b []).
  Proof.
    intros a b j H. revert j. induction H as [|x y a b Hxy _ IH]; intros [|j]; simpl; auto.
  Qed.

  Theorem bags_determinate : forall s, s < nsteps -> Forall2 (@Permutation tok) (O1 s) (O2 s).
  Proof.
    intros s. induction s as [s IH] using lt_wf_ind. intros Hs.
    apply (insensitive s (map (hist W1 O1) (ins s)) (map (hist W2 O2) (ins s))); auto.
    assert (Hin : forall p, In p (ins s) -> Permutation (hist W1 O1 p) (hist W2 O2 p)).
    { intros p Hp. pose proof (topo s p Hs Hp) as Ht. destruct p as [k|s' j]; simpl.
      - apply Weq.
      - apply Forall2_nth_perm. apply IH; auto. lia. }
    induction (ins s) as [|p r IHr]; simpl; constructor.
    - apply Hin. left. reflexivity.
    - apply IHr. intros q Hq. apply Hin. right. exact Hq.
  Qed.

  Corollary port_bags_agree : forall p,
    match p with SOut s _ => s < nsteps | WIn _ => True end ->
    Permutation (hist W1 O1 p) (hist W2 O2 p).
  Proof.
    intros [k|s j] H; simpl; [apply Weq|]. apply Forall2_nth_perm. apply bags_determinate. exact H.
  Qed.
End Bags.

(* the shape hypothesis is needed: with unequal tag sets the round-based grouping depends on the ORDER of the
   tokens inside a port (ports: [0.0; 0.1] and [0.1]  versus  [0.1; 0.0] and [0.1]) *)
Definition shape_specs : list tgspec := [mkT (KXf 0%Z []) [WIn 0; WIn 1] 1].
Definition shape_win_a : list (list tok) :=
  [[Tok "0.0" 1; Tok "0.1" 2; Term COMPLETED]; [Tok "0.1" 10; Term COMPLETED]]%Z.
Definition shape_win_b : list (list tok) :=
  [[Tok "0.1" 2; Tok "0.0" 1; Term COMPLETED]; [Tok "0.1" 10; Term COMPLETED]]%Z.
Lemma shape_needed :
  Forall2 (@Permutation tok) shape_win_a shape_win_b /\
  map (fun x => out_map (nth 0 (souts x) [])) (tg_run shape_win_a shape_specs 10) = [[]] /\
  map (fun x => out_map (nth 0 (souts x) [])) (tg_run shape_win_b shape_specs 10) = [[("0.1"%string, 12%Z)]].
Proof.
  split; [|split; vm_compute; reflexivity].
  constructor; [|constructor; [apply Permutation_refl|constructor]].
  apply perm_swap.
Qed.
