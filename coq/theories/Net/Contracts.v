(* Net/Contracts.v — contracts of the merge-style steps, as corollaries of the step models proved elsewhere
   (Gather: C01, Comb: C02, Loop: C06).  These steps are not round machines; what the network theorems need from
   them is (C04) "whatever the interleaving of complete input histories, the step terminates, exactly once" and
   (C05) "the bag of outputs is determined by the bags of inputs".  The statements are in each model's own
   token type; embedding them into Net.Model.tok histories (the [Beh] of C05_bags_determinate_partial) is not
   done here. *)
From Coq Require Import List Bool NArith ZArith Permutation.
From SF Require Import Base.Str Tags.Model Gather.Model Gather.Proofs Loop.Model Loop.Proofs.
Import ListNotations.

(* ---------------------------------------------------------------- GatherStep terminates, once, for every arrival list *)
Definition ginv (s : gstate) : Prop :=
  (gfinal s <> None <-> (sopen s = false /\ eopen s = false)).

Lemma ginv_init : ginv ginit.
Proof. unfold ginv, ginit; simpl. split; [congruence|intros [H _]; discriminate]. Qed.

Ltac gfacts I :=
  unfold ginv in *; simpl in *; repeat split; intros; subst; simpl in *;
  try congruence; try discriminate; try tauto;
  try (exfalso; match goal with H : _ /\ _ |- _ => destruct H; discriminate end);
  try (exfalso; destruct I as [I1 I2];
       match goal with H : _ <> None |- _ => destruct (I1 H); discriminate end).

Lemma gather_step_facts depth s a : ginv s ->
  let s' := gather_step depth s a in
  ginv s' /\ (sopen s = false -> sopen s' = false) /\ (eopen s = false -> eopen s' = false) /\
  (forall st, a = OnTerm SizeP st -> sopen s' = false) /\ (forall st, a = OnTerm ElemP st -> eopen s' = false) /\
  (gfinal s <> None -> s' = s).
Proof.
  intros I. destruct s as [d so eo gs gf].
  destruct a as [tg n|x|p st]; unfold gather_step; simpl.
  - destruct so; simpl; gfacts I.
  - destruct eo; simpl; gfacts I.
  - destruct p; destruct so; destruct eo; simpl;
      try destruct (finish d (Gather.Model.reduce_statuses [gs; st])) as [d' fin]; gfacts I.
Qed.

Lemma gather_fold_facts depth : forall arr s, ginv s ->
  let s' := fold_left (gather_step depth) arr s in
  ginv s' /\ (sopen s = false -> sopen s' = false) /\ (eopen s = false -> eopen s' = false) /\
  ((exists st, In (OnTerm SizeP st) arr) -> sopen s' = false) /\
  ((exists st, In (OnTerm ElemP st) arr) -> eopen s' = false).
Proof.
  induction arr as [|a r IH]; intros s I; simpl.
  - split; [exact I|]. split; [auto|]. split; [auto|]. split; intros [st H]; destruct H.
  - destruct (gather_step_facts depth s a I) as [I' [S1 [E1 [S2 [E2 _]]]]].
    destruct (IH _ I') as [J [S3 [E3 [S4 E4]]]].
    split; [exact J|]. split; [auto|]. split; [auto|]. split.
    + intros [st [Heq|Hin]]; [apply S3; apply (S2 st Heq)|apply S4; eauto].
    + intros [st [Heq|Hin]]; [apply E3; apply (E2 st Heq)|apply E4; eauto].
Qed.

(* C04 contract of GatherStep: ANY arrival list containing the termination token of both ports — whatever the
   interleaving, whatever else arrives — leaves the step terminated; and a terminated step ignores every later
   arrival (its outputs and final status are fixed: it terminates exactly once). *)
Theorem gather_terminates : forall depth arr s1 s2,
  In (OnTerm SizeP s1) arr -> In (OnTerm ElemP s2) arr ->
  gfinal (gather_run depth arr) <> None /\
  forall more, gather_run depth (arr ++ more) = gather_run depth arr.
Proof.
  intros depth arr s1 s2 H1 H2. unfold gather_run.
  destruct (gather_fold_facts depth arr ginit ginv_init) as [I [_ [_ [S E]]]].
  assert (F : gfinal (fold_left (gather_step depth) arr ginit) <> None).
  { apply I. split; [apply S; eauto|apply E; eauto]. }
  split; [exact F|]. intros more. rewrite fold_left_app.
  set (s := fold_left (gather_step depth) arr ginit) in *. clearbody s.
  induction more as [|a r IH]; simpl; auto.
  destruct (gather_step_facts depth s a I) as [_ [_ [_ [_ [_ Same]]]]]. rewrite (Same F). exact IH.
Qed.

(* C05 contract of GatherStep (order-insensitivity), from C01: two legal complete arrival orders of the same
   scattered instances give permutation-equal outputs and the same final status *)
Theorem gather_order_insensitive : forall (insts : list inst) l1 l2 p1 p2 m1 m2 q1 q2,
  Forall inst_ok insts -> NoDup (map ikey insts) ->
  Permutation (l1 ++ l2) (all_arrivals insts) -> p1 <> p2 -> (forall a, In a l2 -> port_of a <> p1) ->
  Permutation (m1 ++ m2) (all_arrivals insts) -> q1 <> q2 -> (forall a, In a m2 -> port_of a <> q1) ->
  let s := gather_run 1 (l1 ++ OnTerm p1 Completed :: l2 ++ [OnTerm p2 Completed]) in
  let s' := gather_run 1 (m1 ++ OnTerm q1 Completed :: m2 ++ [OnTerm q2 Completed]) in
  Permutation (gout (gd s)) (gout (gd s')) /\ gfinal s = gfinal s'.
Proof.
  intros insts l1 l2 p1 p2 m1 m2 q1 q2 Hok Hnd Hp Hne Hl Hq Hne' Hm.
  destruct (gather_many_perm insts l1 l2 p1 p2 Hok Hnd Hp Hne Hl) as [A1 A2].
  destruct (gather_many_perm insts m1 m2 q1 q2 Hok Hnd Hq Hne' Hm) as [B1 B2].
  split; [eapply Permutation_trans; [exact A1|apply Permutation_sym; exact B1]|congruence].
Qed.

(* C05 contract of LoopOutputStep, from C06: two arrival orders of the same loop instances *)
Theorem loop_output_order_insensitive : forall (pol : policy) (insts : list inst) (arr1 arr2 : list larr),
  Forall inst_ok insts -> NoDup (map ikey insts) ->
  Permutation arr1 (all_larr insts) -> Permutation arr2 (all_larr insts) ->
  Permutation (lout (loop_run pol (arr1 ++ [LTerm Completed])))
              (lout (loop_run pol (arr2 ++ [LTerm Completed]))) /\
  lfinal (loop_run pol (arr1 ++ [LTerm Completed])) =
  lfinal (loop_run pol (arr2 ++ [LTerm Completed])) /\
  lfinal (loop_run pol (arr1 ++ [LTerm Completed])) <> None.
Proof.
  intros pol insts arr1 arr2 Hok Hnd H1 H2.
  destruct (loop_step_thm pol insts arr1 Hok Hnd H1) as [_ [_ [A B]]].
  destruct (loop_step_thm pol insts arr2 Hok Hnd H2) as [_ [_ [A' B']]].
  split; [eapply Permutation_trans; [exact A|apply Permutation_sym; exact A']|].
  split; [congruence|]. rewrite B. destruct insts; discriminate.
Qed.
