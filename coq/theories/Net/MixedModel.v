(* Net/MixedModel.v — networks of *log machines*: the common shape of round machines and merge-style steps.
   Definitions only.

   ANCHORS (in addition to Net/Model.v):
     streamflow.workflow.step.GatherStep.run            (asyncio.wait(FIRST_COMPLETED) over two ports)
     streamflow.workflow.step.ScatterStep.run           (one get at a time)
     streamflow.workflow.step.CombinatorStep.run / LoopOutputStep.run   (same shape; not instantiated here)

   A step is described by what it has consumed so far: its *log*, the list of arrivals (input index, token) in
   the order it took them from its private consumer queues.  Everything else is a function of the log:
     outs sp log   : the complete history of every output port (data, then the TerminationToken once terminated)
     done sp log   : the step has terminated (BaseStep.terminate ran)
     accept sp log j : the step is currently waiting on input j
                       merge-style step (asyncio.wait over all open ports): j is any port whose TerminationToken
                       it has not consumed;  sequential step (one `await port.get()` at a time): j is the port it reads next
   One transition = one arrival: step i takes the next unread token of an accepted input j.  Between two arrivals
   the real step touches only its own state and appends to its own output ports, so an arrival is atomic.
   The token type T of data tokens is a parameter (Gather/Model.v's nested list tokens instantiate it). *)
From Coq Require Import List Bool Arith.
From SF Require Import Net.Model.
Import ListNotations.

Section Mixed.
  Variable T : Type.
  Inductive mtok := D (x : T) | E (s : status).
  Definition is_e (t : mtok) : bool := match t with E _ => true | D _ => false end.

  Definition log := list (nat * mtok).
  Definition on_port (j : nat) (a : nat * mtok) : bool := Nat.eqb (fst a) j.
  Definition proj (j : nat) (l : log) : list mtok := map snd (filter (on_port j) l).
  Definition cnt (j : nat) (l : log) : nat := length (filter (on_port j) l).
  Definition port_closed (j : nat) (l : log) : bool := existsb is_e (proj j l).

  Variable spec : Type.
  Variable s_ins : spec -> list src.
  Variable s_nout : spec -> nat.
  Variable outs : spec -> log -> list (list mtok).
  Variable done : spec -> log -> bool.
  Variable accept : spec -> log -> nat -> bool.

  Definition mstate := list log.

  Definition mcontent (win : list (list mtok)) (specs : list spec) (st : mstate) (p : src) : list mtok :=
    match p with
    | WIn k => nth k win []
    | SOut s j => match nth_error specs s, nth_error st s with
                  | Some sp, Some l => nth j (outs sp l) []
                  | _, _ => []
                  end
    end.

  (* the scheduler picks (step i, input j) *)
  Definition mstep (win : list (list mtok)) (specs : list spec) (st : mstate) (c : nat * nat) : option mstate :=
    let (i, j) := c in
    match nth_error specs i, nth_error st i with
    | Some sp, Some l =>
        match nth_error (s_ins sp) j with
        | Some p =>
            if negb (done sp l) && accept sp l j && Nat.ltb (cnt j l) (length (mcontent win specs st p))
            then Some (upd i (l ++ [(j, nth (cnt j l) (mcontent win specs st p) (E WAITING))]) st)
            else None
        | None => None
        end
    | _, _ => None
    end.

  Fixpoint mexec (win : list (list mtok)) (specs : list spec) (st : mstate) (ch : list (nat * nat)) : option mstate :=
    match ch with
    | [] => Some st
    | c :: r => match mstep win specs st c with Some st' => mexec win specs st' r | None => None end
    end.

  Definition minit (specs : list spec) : mstate := map (fun _ => []) specs.

  Definition ext_m (a b : list mtok) : Prop := exists c, b = a ++ c.
  Definition term_free_m (l : list mtok) : Prop := existsb is_e l = false.

  (* what a log machine must honour *)
  Definition log_contract : Prop :=
    (forall sp l j t k, done sp l = false -> accept sp l j = true ->
        ext_m (nth k (outs sp l) []) (nth k (outs sp (l ++ [(j, t)])) [])) /\              (* outputs only grow *)
    (forall sp l, length (outs sp l) = s_nout sp) /\
    (forall sp l o, done sp l = true -> In o (outs sp l) ->
        exists d s, o = d ++ [E s] /\ term_free_m d) /\                                     (* terminate(): one token, last *)
    (forall sp l, done sp l = false -> exists j, j < length (s_ins sp) /\ accept sp l j = true) /\   (* it waits on something *)
    (forall sp l j, accept sp l j = true -> port_closed j l = false).                       (* never on a terminated port *)

  Definition msrc_ok (nwin : nat) (specs : list spec) (i : nat) (p : src) : Prop :=
    match p with
    | WIn k => k < nwin
    | SOut s j => s < i /\ (exists sp, nth_error specs s = Some sp /\ j < s_nout sp)
    end.
  Definition mwf (win : list (list mtok)) (specs : list spec) : Prop :=
    (forall k, k < length win -> existsb is_e (nth k win []) = true) /\
    (forall i sp, nth_error specs i = Some sp -> forall p, In p (s_ins sp) -> msrc_ok (length win) specs i p).

  Definition all_done (specs : list spec) (st : mstate) : Prop :=
    forall i sp l, nth_error specs i = Some sp -> nth_error st i = Some l -> done sp l = true.
End Mixed.

Arguments D {T}. Arguments E {T}.
