(* Net/MixedProofs5.v — whatever the interleaving, a log is a permutation of its projections taken port by port:
   the bridge from "any order of arrivals" to the [Permutation arr ...] hypotheses of the step models (C01, C02, C29). *)
From Coq Require Import List Bool Arith Lia Permutation.
From SF Require Import Net.Model Net.Util Net.MixedModel Net.MixedProofs.
Import ListNotations.

Section LogPerm.
  Variable T : Type.
  Notation tok := (mtok T).

  Lemma partition_perm {A} (f : A -> bool) l : Permutation l (filter f l ++ filter (fun x => negb (f x)) l).
  Proof.
    induction l as [|a l IH]; simpl; [constructor|]. destruct (f a); simpl.
    - constructor. exact IH.
    - apply Permutation_cons_app. exact IH.
  Qed.

  Lemma filter_filter_imp {A} (f g : A -> bool) l : (forall x, f x = true -> g x = true) ->
    filter f (filter g l) = filter f l.
  Proof.
    intros H. induction l as [|a l IH]; simpl; auto. destruct (g a) eqn:G; simpl.
    - destruct (f a); [f_equal|]; exact IH.
    - destruct (f a) eqn:F; [rewrite (H a F) in G; discriminate|exact IH].
  Qed.

  Lemma filter_port_pair j (l : log T) : filter (on_port T j) l = map (fun x => (j, x)) (proj T j l).
  Proof.
    unfold proj. induction l as [|[k x] l IH]; simpl; auto. unfold on_port in *. simpl.
    destruct (Nat.eqb k j) eqn:E; simpl; [apply Nat.eqb_eq in E; subst; f_equal; exact IH|exact IH].
  Qed.

  Lemma ports_partition : forall n (l : log T), (forall a, In a l -> fst a < n) ->
    Permutation l (flat_map (fun j => filter (on_port T j) l) (seq 0 n)).
  Proof.
    induction n as [|n IH]; intros l H.
    - destruct l as [|a l]; [constructor|]. exfalso. specialize (H a (or_introl eq_refl)). lia.
    - rewrite seq_S, flat_map_app. simpl. rewrite app_nil_r.
      eapply Permutation_trans; [apply (partition_perm (fun a => Nat.ltb (fst a) n))|].
      apply Permutation_app.
      + eapply Permutation_trans; [apply IH|].
        * intros a Ha. apply filter_In in Ha. destruct Ha as [_ Ha]. apply Nat.ltb_lt in Ha. exact Ha.
        * assert (E : forall j, In j (seq 0 n) ->
                        filter (on_port T j) (filter (fun a => Nat.ltb (fst a) n) l) = filter (on_port T j) l).
          { intros j Hj. apply in_seq in Hj. apply filter_filter_imp. intros x Hx. unfold on_port in Hx.
            apply Nat.eqb_eq in Hx. apply Nat.ltb_lt. lia. }
          clear -E. induction (seq 0 n) as [|j s IHs]; simpl; [constructor|].
          rewrite E by (left; reflexivity). apply Permutation_app; [apply Permutation_refl|].
          apply IHs. intros k Hk. apply E. right. exact Hk.
      + assert (E : filter (fun x => negb (Nat.ltb (fst x) n)) l = filter (on_port T n) l).
        { clear IH. induction l as [|a l IHl]; simpl; auto.
          assert (Ha : fst a < S n) by (apply H; left; reflexivity).
          assert (IHl' : filter (fun x => negb (Nat.ltb (fst x) n)) l = filter (on_port T n) l)
            by (apply IHl; intros b Hb; apply H; right; exact Hb).
          unfold on_port at 1. destruct (Nat.ltb (fst a) n) eqn:L; simpl.
          - apply Nat.ltb_lt in L. replace (Nat.eqb (fst a) n) with false by (symmetry; apply Nat.eqb_neq; lia). exact IHl'.
          - apply Nat.ltb_ge in L. replace (Nat.eqb (fst a) n) with true by (symmetry; apply Nat.eqb_eq; lia).
            f_equal. exact IHl'. }
        rewrite E. apply Permutation_refl.
  Qed.

  (* a log whose entries name ports < n is a permutation of its projections, port by port *)
  Theorem log_perm n (l : log T) : (forall a, In a l -> fst a < n) ->
    Permutation l (flat_map (fun j => map (fun x => (j, x)) (proj T j l)) (seq 0 n)).
  Proof.
    intros H. eapply Permutation_trans; [apply (ports_partition n l H)|].
    induction (seq 0 n) as [|j s IH]; simpl; [constructor|]. rewrite filter_port_pair.
    apply Permutation_app; [apply Permutation_refl|exact IH].
  Qed.

  (* two logs over the same ports with equal projections are permutations of each other *)
  Corollary logs_perm n (l1 l2 : log T) : (forall a, In a l1 -> fst a < n) -> (forall a, In a l2 -> fst a < n) ->
    (forall j, j < n -> proj T j l1 = proj T j l2) -> Permutation l1 l2.
  Proof.
    intros H1 H2 E. eapply Permutation_trans; [apply (log_perm n l1 H1)|].
    eapply Permutation_trans; [|apply Permutation_sym; apply (log_perm n l2 H2)].
    assert (G : forall s, (forall j, In j s -> j < n) ->
              flat_map (fun j => map (fun x => (j, x)) (proj T j l1)) s =
              flat_map (fun j => map (fun x => (j, x)) (proj T j l2)) s).
    { induction s as [|j s IH]; intros Hs; simpl; auto. rewrite (E j) by (apply Hs; left; reflexivity).
      f_equal. apply IH. intros k Hk. apply Hs. right. exact Hk. }
    rewrite G; [apply Permutation_refl|]. intros j Hj. apply in_seq in Hj. lia.
  Qed.
End LogPerm.
