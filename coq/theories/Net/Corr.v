(* Net/Corr.v — correspondence cases for Net/Model.v (C04 and C05 checks). *)
From Coq Require Import List Bool Arith NArith ZArith.
From SF Require Import Base.Str Base.Corr.
From SF Require Export Net.Model.   (* cases.v files name its constructors *)
Import ListNotations.

Definition status_of_code (c : Z) : option status :=
  match c with
  | 0 => Some WAITING | 1 => Some FIREABLE | 2 => Some RUNNING | 3 => Some SKIPPED | 4 => Some COMPLETED
  | 5 => Some FAILED | 6 => Some CANCELLED | 7 => Some ROLLBACK | 8 => Some RECOVERY | 9 => Some RECOVERED
  | _ => None
  end%Z.

(* an executor event as observed: which function ran, _closed and every step's (terminated, status code) before
   and after (steps in a fixed order) *)
Record xobs := mkXO { xo_ev : xevent; xo_c0 : bool; xo_pre : list (bool * Z); xo_c1 : bool; xo_post : list (bool * Z) }.

Inductive ccase :=
(* _reduce_statuses(values) where a value is a status code, or any other int (no `case` matches) *)
| CReduce (vals : list Z) (r : Z)
(* _get_status(status, some output port empty) *)
| CGetStatus (s : Z) (any_empty : bool) (r : Z)
(* a whole run of a network of tag-grouping steps.
   failrun=false: final status and complete output histories of every step must equal the model's (any schedule);
   failrun=true : a failure happened, the executor's close() may have CANCELLED steps at arbitrary moments:
                  every status is the model's or CANCELLED, and the executor must have raised *)
| CNet (win : list (list tok)) (specs : list tgspec) (fuel : nat) (failrun : bool)
       (obs : list (Z * list (list tok))) (raised : bool)
(* executor closing logic: events, then the tail of run() *)
| CExec (evs : list xobs) (failed_out raised : bool) (at_start at_return : list (bool * Z))
(* C05: the data tokens on the given workflow output ports, as bags, for every variant run (other schedule,
   other order of the injected tokens): each must be a permutation of the model's *)
| COut (win : list (list tok)) (specs : list tgspec) (fuel : nat) (outs : list src)
       (obs : list (list (list tok)))
| CBoth (a b : ccase).

Definition sterm_code (x : sstate imap) : Z :=
  match sterm x with Some s => status_code s | None => (-1)%Z end.

Definition check_step (failrun : bool) (x : sstate imap) (o : Z * list (list tok)) : bool :=
  if failrun then Z.eqb (fst o) (sterm_code x) || Z.eqb (fst o) 6
  else Z.eqb (fst o) (sterm_code x) && list_eqb (list_eqb tok_eqb) (souts x) (snd o).

Fixpoint check_steps (failrun : bool) (xs : list (sstate imap)) (os : list (Z * list (list tok))) : bool :=
  match xs, os with
  | [], [] => true
  | x :: xs', o :: os' => check_step failrun x o && check_steps failrun xs' os'
  | _, _ => false
  end.

Fixpoint remove_tok (t : tok) (l : list tok) : option (list tok) :=
  match l with
  | [] => None
  | u :: r => if tok_eqb t u then Some r else
              match remove_tok t r with Some r' => Some (u :: r') | None => None end
  end.
Fixpoint perm_eqb (a b : list tok) : bool :=
  match a with
  | [] => match b with [] => true | _ => false end
  | t :: r => match remove_tok t b with Some b' => perm_eqb r b' | None => false end
  end.
Definition data_of (l : list tok) : list tok := filter (fun t => negb (is_term t)) l.

Definition bad_code (c : Z) : bool := Z.eqb c 5 || Z.eqb c 6.

Definition mk_steps (l : list (bool * Z)) : list xstep :=
  map (fun p => mkXS (fst p) (match status_of_code (snd p) with Some st => st | None => WAITING end)) l.
Definition terminal_code (c : Z) : bool := Z.eqb c 3 || Z.eqb c 4 || Z.eqb c 5 || Z.eqb c 6.

(* model step m, observed before p and after q.  A step that was terminated keeps its state; a step the model
   terminates is observed terminated with a terminal status (CANCELLED, or its own if it terminated by itself while
   close() was suspended); otherwise it may only have progressed by itself *)
Fixpoint check_post (ms : list xstep) (pre post : list (bool * Z)) : bool :=
  match ms, pre, post with
  | [], [], [] => true
  | m :: ms', p :: pre', q :: post' =>
      (if fst p then Bool.eqb (fst q) true && Z.eqb (snd q) (snd p) else true) &&
      (if xs_term m then fst q && terminal_code (snd q) else true) &&
      check_post ms' pre' post'
  | _, _, _ => false
  end.

Definition check_xobs (o : xobs) : bool :=
  let x1 := x_step x_cancel (mkX (xo_c0 o) (mk_steps (xo_pre o))) (xo_ev o) in
  Bool.eqb (closed x1) (xo_c1 o) && check_post (xsteps x1) (xo_pre o) (xo_post o).

Fixpoint check_case (c : ccase) : bool :=
  match c with
  | CReduce vals r => Z.eqb (status_code (reduce_o (map status_of_code vals))) r
  | CGetStatus s e r =>
      match status_of_code s with
      | Some st => Z.eqb (status_code (get_status st e)) r
      | None => false
      end
  | CNet win specs fuel failrun obs raised =>
      let fin := tg_run win specs fuel in
      check_steps failrun fin obs &&
      (* the model itself must be quiescent with every step terminated: fuel was enough *)
      forallb (fun x => match sterm x with Some _ => true | None => false end) fin &&
      Bool.eqb raised (existsb (fun x => bad_code (sterm_code x)) fin || (failrun && existsb (fun o => bad_code (fst o)) obs))
  | CExec evs failed_out raised at_start at_return =>
      forallb check_xobs evs &&
      (* the status check of run(), as coded, on the statuses observed when it returned *)
      Bool.eqb raised (existsb (fun p => bad_code (snd p)) at_return) &&
      (let x0 := mkX false (mk_steps at_start) in
       let r := x_run_tail x_cancel failed_out x0 in
       (* the model's verdict from the state in which the closing began: exact when no step was still running,
          otherwise the observed raise must be one the model predicts *)
       (if Nat.eqb (unterminated x0) 0 then Bool.eqb (fst r) raised else implb raised (fst r)) &&
       forallb (fun q => fst q) at_return)
  | COut win specs fuel outs obs =>
      let fin := tg_run win specs fuel in
      let model := map (fun p => data_of (content imap win fin p)) outs in
      forallb (fun x => match sterm x with Some _ => true | None => false end) fin &&
      forallb (fun o => list_eqb perm_eqb model o) obs
  | CBoth a b => check_case a && check_case b
  end.
