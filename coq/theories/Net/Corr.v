(* Net/Corr.v — correspondence cases for Net/Model.v (C04 and C05 checks). *)
From Coq Require Import List Bool Arith NArith ZArith.
From SF Require Import Base.Str Base.Corr.
From SF Require Export Net.Model.   (* cases.v files name its constructors *)
Import ListNotations.

Definition status_of_code (c : Z) : option status :=
  match c with
  | 0 => Some WAITING | 1 => Some FIREABLE | 2 => Some RUNNING | 3 => Some SKIPPED | 4 => Some COMPLETED
  | 5 => Some FAILED | 6 => Some CANCELLED | 7 => Some ROLLBACK | 8 => Some RECOVERY | 9 => Some RECOVERED
  | _ => None
  end%Z.

(* an executor event as observed: which function ran, (_closed, #unterminated steps) before and after *)
Record xobs := mkXO { xo_ev : xevent; xo_c0 : bool; xo_u0 : nat; xo_c1 : bool; xo_u1 : nat }.

Inductive ccase :=
(* _reduce_statuses(values) where a value is a status code, or any other int (no `case` matches) *)
| CReduce (vals : list Z) (r : Z)
(* _get_status(status, some output port empty) *)
| CGetStatus (s : Z) (any_empty : bool) (r : Z)
(* a whole run of a network of tag-grouping steps.
   failrun=false: final status and complete output histories of every step must equal the model's (any schedule);
   failrun=true : a failure happened, the executor's close() may have CANCELLED steps at arbitrary moments:
                  every status is the model's or CANCELLED, and the executor must have raised *)
| CNet (win : list (list tok)) (specs : list tgspec) (fuel : nat) (failrun : bool)
       (obs : list (Z * list (list tok))) (raised : bool)
(* executor closing logic: events, then the tail of run() *)
| CExec (evs : list xobs) (failed_out any_bad raised : bool) (u_start u_return : nat)
(* C05: the data tokens on the given workflow output ports, as bags, for every variant run (other schedule,
   other order of the injected tokens): each must be a permutation of the model's *)
| COut (win : list (list tok)) (specs : list tgspec) (fuel : nat) (outs : list src)
       (obs : list (list (list tok)))
| CBoth (a b : ccase).

Definition sterm_code (x : sstate imap) : Z :=
  match sterm x with Some s => status_code s | None => (-1)%Z end.

Definition check_step (failrun : bool) (x : sstate imap) (o : Z * list (list tok)) : bool :=
  if failrun then Z.eqb (fst o) (sterm_code x) || Z.eqb (fst o) 6
  else Z.eqb (fst o) (sterm_code x) && list_eqb (list_eqb tok_eqb) (souts x) (snd o).

Fixpoint check_steps (failrun : bool) (xs : list (sstate imap)) (os : list (Z * list (list tok))) : bool :=
  match xs, os with
  | [], [] => true
  | x :: xs', o :: os' => check_step failrun x o && check_steps failrun xs' os'
  | _, _ => false
  end.

Fixpoint remove_tok (t : tok) (l : list tok) : option (list tok) :=
  match l with
  | [] => None
  | u :: r => if tok_eqb t u then Some r else
              match remove_tok t r with Some r' => Some (u :: r') | None => None end
  end.
Fixpoint perm_eqb (a b : list tok) : bool :=
  match a with
  | [] => match b with [] => true | _ => false end
  | t :: r => match remove_tok t b with Some b' => perm_eqb r b' | None => false end
  end.
Definition data_of (l : list tok) : list tok := filter (fun t => negb (is_term t)) l.

Definition bad_code (c : Z) : bool := Z.eqb c 5 || Z.eqb c 6.

Definition check_xobs (o : xobs) : bool :=
  let x1 := x_step x_cancel (mkX (xo_c0 o) (xo_u0 o)) (xo_ev o) in
  Bool.eqb (closed x1) (xo_c1 o) &&
  (if Nat.eqb (unterminated x1) 0 then Nat.eqb (xo_u1 o) 0 else Nat.leb (xo_u1 o) (xo_u0 o)).

Fixpoint check_case (c : ccase) : bool :=
  match c with
  | CReduce vals r => Z.eqb (status_code (reduce_o (map status_of_code vals))) r
  | CGetStatus s e r =>
      match status_of_code s with
      | Some st => Z.eqb (status_code (get_status st e)) r
      | None => false
      end
  | CNet win specs fuel failrun obs raised =>
      let fin := tg_run win specs fuel in
      check_steps failrun fin obs &&
      (* the model itself must be quiescent with every step terminated: fuel was enough *)
      forallb (fun x => match sterm x with Some _ => true | None => false end) fin &&
      Bool.eqb raised (existsb (fun x => bad_code (sterm_code x)) fin || (failrun && existsb (fun o => bad_code (fst o)) obs))
  | CExec evs failed_out any_bad raised u0 u1 =>
      forallb check_xobs evs &&
      (let r := x_run_tail x_cancel failed_out any_bad (mkX false u0) in
       Bool.eqb (fst r) raised && (if Nat.eqb (unterminated (snd r)) 0 then Nat.eqb u1 0 else true))
  | COut win specs fuel outs obs =>
      let fin := tg_run win specs fuel in
      let model := map (fun p => data_of (content imap win fin p)) outs in
      forallb (fun x => match sterm x with Some _ => true | None => false end) fin &&
      forallb (fun o => list_eqb perm_eqb model o) obs
  | CBoth a b => check_case a && check_case b
  end.
