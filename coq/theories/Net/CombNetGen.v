(* Net/CombNetGen.v — ANY combinator tree c with a shape predicate W (closed under permutation and prefix, on which
   Comb.Model.run raises nothing) as a log machine inside a network, fed by n closed histories (generic version of
   Net/CombNet.v, instantiated with the cartesian product in Net/CombNetCart.v):
   whatever the interleaving of arrivals, it never raises, and once terminated it has combined a PERMUTATION of the
   full arrival list — which is the hypothesis shape of C02's and C29's theorems. *)
From Coq Require Import List Bool Arith NArith Lia Permutation.
From SF Require Import Base.Str Net.Model Net.Util Net.MixedModel Net.MixedProofs Net.MixedProofs2 Net.MixedProofs4
                       Net.MixedProofs5 Net.MixedComb Net.MixedCombProofs.
From SF Require Comb.Model Comb.Proofs Comb.Flat.
Import ListNotations.
Local Open Scope string_scope. Local Open Scope list_scope.

Lemma nth_map_default {A B} (f : A -> B) : forall l j dA dB, j < length l -> nth j (map f l) dB = f (nth j l dA).
Proof. induction l as [|x l IH]; intros [|j] dA dB H; simpl in *; try lia; auto. apply IH. lia. Qed.

Lemma nth_error_map_seq : forall n a j, j < n -> nth_error (map WIn (seq a n)) j = Some (WIn (a + j)).
Proof.
  induction n as [|n IH]; intros a [|j] H; simpl; try lia.
  - f_equal. f_equal. lia.
  - rewrite IH by lia. f_equal. f_equal. lia.
Qed.

Section CombNet.
  Variable items : list string.
  Variable tree : Comb.Model.outerc.
  Variable W : list (string * ctok) -> Prop.
  Hypothesis W_perm : forall a b, Permutation a b -> W a -> W b.
  Hypothesis W_prefix : forall a b, W (a ++ b) -> W a.
  Hypothesis W_run : forall arr, W arr -> snd (Comb.Model.run tree Comb.Model.init_state arr) = None.
  Variable cols : list (list ctok).              (* column j = the data tokens input port j delivers, in order *)
  Hypothesis Hlen : length cols = length items.
  Let n := length items.

  Definition cn_spec : cspec := mkC tree items (map WIn (seq 0 n)).
  Definition cn_win : list (list cmtok) := map (fun c => map D c ++ [E COMPLETED]) cols.
  Definition cn_specs : list cspec := [cn_spec].
  (* the full arrival list, port after port *)
  Definition cn_full : list (string * ctok) :=
    flat_map (fun j => map (fun x => (nth j items "", x)) (nth j cols [])) (seq 0 n).
  Hypothesis Hwf : W cn_full.

  Notation exe := (mexec ctok cspec cs_ins cs_outs cs_done cs_accept cn_win cn_specs).
  Notation canon := (flat_map (fun j => map (fun x : cmtok => (j, x)) (nth j cn_win [])) (seq 0 n)).

  Lemma cn_win_nth j : j < n -> nth j cn_win [] = map D (nth j cols []) ++ [E COMPLETED].
  Proof. intros Hj. unfold cn_win. apply (nth_map_default (fun c => map D c ++ [@E ctok COMPLETED])). rewrite Hlen. exact Hj. Qed.

  Lemma cn_wf_net : mwf ctok cspec cs_ins cs_nout cn_win cn_specs.
  Proof.
    split.
    - intros k Hk. assert (Hk' : k < n) by (unfold cn_win in Hk; rewrite map_length, Hlen in Hk; exact Hk).
      rewrite (cn_win_nth k Hk'), existsb_app. simpl. apply orb_true_r.
    - intros i sp Hsp p Hp. destruct i as [|i]; [|destruct i; discriminate]. inversion Hsp; subst. simpl in Hp.
      apply in_map_iff in Hp. destruct Hp as [k [<- Hk]]. apply in_seq in Hk. simpl.
      unfold cn_win. rewrite map_length, Hlen. fold n. lia.
  Qed.

  Lemma arrivals_app nm (a b : log ctok) : arrivals nm (a ++ b) = arrivals nm a ++ arrivals nm b.
  Proof. unfold arrivals. apply flat_map_app. Qed.

  Lemma arrivals_block j (c : list ctok) :
    arrivals items (map (fun x : cmtok => (j, x)) (map D c ++ [E COMPLETED])) = map (fun x => (nth j items "", x)) c.
  Proof.
    unfold arrivals. rewrite map_app, flat_map_app. simpl. rewrite app_nil_r.
    induction c as [|x c IH]; simpl; auto. f_equal. exact IH.
  Qed.

  Lemma arrivals_canon : arrivals items canon = cn_full.
  Proof.
    unfold cn_full. assert (G : forall s, (forall j, In j s -> j < n) ->
      arrivals items (flat_map (fun j => map (fun x : cmtok => (j, x)) (nth j cn_win [])) s) =
      flat_map (fun j => map (fun x => (nth j items "", x)) (nth j cols [])) s).
    { induction s as [|j s IH]; intros Hs; simpl; auto. rewrite arrivals_app, IH by (intros k Hk; apply Hs; right; exact Hk).
      f_equal. rewrite cn_win_nth by (apply Hs; left; reflexivity). apply arrivals_block. }
    apply G. intros j Hj. apply in_seq in Hj. lia.
  Qed.

  Lemma proj_pair_map k j (b : list cmtok) :
    proj ctok j (map (fun x => (k, x)) b) = if Nat.eqb k j then b else [].
  Proof.
    unfold proj. induction b as [|x b IH]; simpl; [destruct (Nat.eqb k j); reflexivity|].
    unfold on_port at 1. simpl. destruct (Nat.eqb k j) eqn:E; simpl; rewrite IH; reflexivity.
  Qed.

  Lemma proj_blocks (B : nat -> list cmtok) j : forall s, NoDup s ->
    proj ctok j (flat_map (fun k => map (fun x => (k, x)) (B k)) s) = if in_dec Nat.eq_dec j s then B j else [].
  Proof.
    induction s as [|k s IH]; intros ND; simpl; [reflexivity|]. inversion ND as [|? ? Hk ND']; subst.
    rewrite (proj_app ctok), proj_pair_map, (IH ND').
    destruct (Nat.eq_dec k j) as [->|Hne].
    - rewrite Nat.eqb_refl. destruct (in_dec Nat.eq_dec j s); [contradiction|apply app_nil_r].
    - replace (Nat.eqb k j) with false by (symmetry; apply Nat.eqb_neq; exact Hne). simpl.
      destruct (in_dec Nat.eq_dec j s); reflexivity.
  Qed.

  (* in EVERY reachable state the combinator has raised nothing *)
  Theorem cn_never_raises : forall ch l, exe (minit ctok cspec cn_specs) ch = Some [l] ->
    W (arrivals items l) /\ snd (crun cn_spec l) = None.
  Proof.
    intros ch l H.
    pose proof (reachable_inv ctok cspec cs_ins cs_nout cs_outs cs_done cs_accept cn_win cn_specs cs_contract cn_wf_net
                  ch _ _ (minv_init ctok cspec cs_ins cs_outs cn_win cn_specs) H) as [_ I].
    pose proof (reachable_ports_ok ctok cspec cs_ins cs_outs cs_done cs_accept cn_win cn_specs ch _ H) as P.
    assert (Hport : forall a, In a l -> fst a < n).
    { intros a Ha. specialize (P 0 cn_spec l eq_refl eq_refl a Ha). simpl in P. rewrite map_length, seq_length in P. exact P. }
    set (B := fun j => skipn (cnt ctok j l) (nth j cn_win [])).
    set (rest := flat_map (fun j => map (fun x : cmtok => (j, x)) (B j)) (seq 0 n)).
    assert (Hproj : forall j, j < n -> proj ctok j (l ++ rest) = nth j cn_win []).
    { intros j Hj. rewrite (proj_app ctok). unfold rest. rewrite (proj_blocks B j) by apply seq_NoDup.
      destruct (in_dec Nat.eq_dec j (seq 0 n)) as [_|Hn]; [|exfalso; apply Hn; apply in_seq; lia].
      destruct (I 0 cn_spec l j (WIn j) eq_refl eq_refl) as [I1 _].
      { simpl. apply (nth_error_map_seq n 0 j Hj). }
      simpl in I1. rewrite I1. unfold B. apply firstn_skipn. }
    assert (Pfull : Permutation (l ++ rest) canon).
    { eapply Permutation_trans; [apply (log_perm ctok n)|].
      - intros a Ha. apply in_app_or in Ha. destruct Ha as [Ha|Ha]; [apply Hport; exact Ha|].
        unfold rest in Ha. apply in_flat_map in Ha. destruct Ha as [j [Hj Ha]]. apply in_map_iff in Ha.
        destruct Ha as [x [<- _]]. simpl. apply in_seq in Hj. lia.
      - assert (G : forall s, (forall j, In j s -> j < n) ->
                  flat_map (fun j => map (fun x : cmtok => (j, x)) (proj ctok j (l ++ rest))) s =
                  flat_map (fun j => map (fun x : cmtok => (j, x)) (nth j cn_win [])) s).
        { induction s as [|j s IH]; intros Hs; simpl; auto. rewrite Hproj by (apply Hs; left; reflexivity).
          f_equal. apply IH. intros k Hk. apply Hs. right. exact Hk. }
        rewrite G; [apply Permutation_refl|]. intros j Hj. apply in_seq in Hj. lia. }
    assert (Wfull : W (arrivals items (l ++ rest))).
    { apply (W_perm cn_full); [|exact Hwf]. rewrite <- arrivals_canon.
      apply Permutation_sym. unfold arrivals. apply Permutation_flat_map. exact Pfull. }
    rewrite arrivals_app in Wfull. apply W_prefix in Wfull. split; [exact Wfull|].
    unfold crun. simpl. exact (W_run _ Wfull).
  Qed.
  (* once terminated — in whatever order the arrivals were taken — it has combined a permutation of the full
     arrival list, without raising, and emitted what C02's specification says for that order *)
  Theorem cn_done_perm : forall ch l, exe (minit ctok cspec cn_specs) ch = Some [l] ->
    all_done ctok cspec cs_done cn_specs [l] ->
    Permutation (arrivals items l) cn_full /\ snd (crun cn_spec l) = None.
  Proof.
    intros ch l H AD. destruct (cn_never_raises ch l H) as [Wl R].
    pose proof (reachable_inv ctok cspec cs_ins cs_nout cs_outs cs_done cs_accept cn_win cn_specs cs_contract cn_wf_net
                  ch _ _ (minv_init ctok cspec cs_ins cs_outs cn_win cn_specs) H) as [_ I].
    pose proof (reachable_ports_ok ctok cspec cs_ins cs_outs cs_done cs_accept cn_win cn_specs ch _ H) as P.
    assert (Hport : forall a, In a l -> fst a < n).
    { intros a Ha. specialize (P 0 cn_spec l eq_refl eq_refl a Ha). simpl in P. rewrite map_length, seq_length in P. exact P. }
    pose proof (AD 0 cn_spec l eq_refl eq_refl) as Hd. unfold cs_done, raised in Hd. rewrite R in Hd. simpl in Hd.
    unfold all_closed in Hd. simpl in Hd. rewrite map_length, seq_length in Hd. rewrite forallb_forall in Hd.
    assert (Hproj : forall j, j < n -> proj ctok j l = nth j cn_win []).
    { intros j Hj. destruct (I 0 cn_spec l j (WIn j) eq_refl eq_refl (nth_error_map_seq n 0 j Hj)) as [I1 _].
      simpl in I1. assert (Hc : port_closed ctok j l = true) by (apply Hd; apply in_seq; lia).
      unfold port_closed in Hc. rewrite I1 in Hc |- *. rewrite (cn_win_nth j Hj) in Hc |- *.
      apply (firstn_closed ctok); [|exact Hc]. unfold term_free_m. clear. induction (nth j cols []); simpl; auto. }
    assert (Pl : Permutation l canon).
    { eapply Permutation_trans; [apply (log_perm ctok n l Hport)|].
      assert (G : forall s, (forall j, In j s -> j < n) ->
                flat_map (fun j => map (fun x : cmtok => (j, x)) (proj ctok j l)) s =
                flat_map (fun j => map (fun x : cmtok => (j, x)) (nth j cn_win [])) s).
      { induction s as [|j s IH]; intros Hs; simpl; auto. rewrite Hproj by (apply Hs; left; reflexivity).
        f_equal. apply IH. intros k Hk. apply Hs. right. exact Hk. }
      rewrite G; [apply Permutation_refl|]. intros j Hj. apply in_seq in Hj. lia. }
    split; [|exact R].
    rewrite <- arrivals_canon. unfold arrivals. apply Permutation_flat_map. exact Pl.
  Qed.

End CombNet.
