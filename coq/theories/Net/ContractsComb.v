(* Net/ContractsComb.v — the C05 contract (order-insensitivity) of the combinators, restated from C02's lemmas.
   Kept in its own file because Comb.* and Net.Model share names.  The statements are the [*_stmt] definitions. *)
From Coq Require Import List Ascii Bool NArith Arith Permutation.
From SF Require Import Base.Str Tags.Model Comb.Model Comb.Proofs Comb.Flat Comb.Cart.
Import ListNotations.

(* flat dot product over distinct ports [items]: for any two arrival orders of the same tokens (every port carries
   each tag at most once, no two tags in the ancestor relation: [wf]), no exception and equal bags of combinations *)
Definition dot_flat_contract_stmt : Prop :=
  forall items (arr1 arr2 : list arv),
  wf items arr1 -> Permutation arr1 arr2 ->
  snd (run (c1 items) init_state arr1) = None /\ snd (run (c1 items) init_state arr2) = None /\
  bag_eq (concat (fst (run (c1 items) init_state arr1))) (concat (fst (run (c1 items) init_state arr2))).
Lemma dot_flat_contract : dot_flat_contract_stmt.
Proof. exact dot_flat_order_independent. Qed.

(* cartesian product of depth d >= 1 over distinct ports [items]: for any two arrival orders ([wfc]: each tag at
   most once per port, groups unrelated), no exception and permutation-equal emissions — in particular the
   composite tag suffix follows PORT order, not arrival order *)
Definition cartesian_contract_stmt : Prop :=
  forall items d (Hd : d <> 0) (arr1 arr2 : list arv),
  items <> [] -> wfc items d arr1 -> Permutation arr1 arr2 ->
  snd (run (cc items d) init_state arr1) = None /\ snd (run (cc items d) init_state arr2) = None /\
  Permutation (concat (fst (run (cc items d) init_state arr1))) (concat (fst (run (cc items d) init_state arr2))).
Lemma cartesian_contract : cartesian_contract_stmt.
Proof. exact cart_order_independent. Qed.
