(* Net/CombNet2.v — hypothesis (c) of C05_mixed_bags_partial for the flat dot product, literally: in the network of
   Net/CombNet.v any two fully terminated executions carry permutation-equal histories on every OUTPUT PORT of the
   combinator (data tokens up to order, same termination token). *)
From Coq Require Import List Bool Arith NArith Lia Permutation.
From SF Require Import Base.Str Net.Model Net.Util Net.MixedModel Net.MixedProofs Net.MixedProofs2 Net.MixedProofs4
                       Net.MixedProofs5 Net.MixedComb Net.MixedCombProofs Net.CombNet.
From SF Require Comb.Model Comb.Proofs Comb.Flat.
Import ListNotations.
Local Open Scope string_scope. Local Open Scope list_scope.

Lemma slook_perm nm : forall (a b : list (string * ctok)), NoDup (map fst a) -> Permutation a b -> slook nm a = slook nm b.
Proof.
  intros a b ND P. revert ND. induction P as [|[k v] a b P IH|[k1 v1] [k2 v2] a|a b c P1 IH1 P2 IH2]; intros ND; simpl.
  - reflexivity.
  - inversion ND; subst. destruct (String.eqb k nm); [reflexivity|apply IH; assumption].
  - inversion ND as [|? ? Hn ND']; subst. simpl in Hn.
    destruct (String.eqb k2 nm) eqn:E2; destruct (String.eqb k1 nm) eqn:E1; try reflexivity.
    apply String.eqb_eq in E1. apply String.eqb_eq in E2. subst. exfalso. apply Hn. left. reflexivity.
  - rewrite IH1 by exact ND. apply IH2. eapply Permutation_NoDup; [apply Permutation_map; exact P1|exact ND].
Qed.

Section Ports.
  Variable items : list string.
  Variable cols : list (list ctok).
  Hypothesis Hlen : length cols = length items.
  Hypothesis Hne : items <> [].
  Hypothesis Hwf : Comb.Flat.wf items (cn_full items cols).

  Notation exe := (mexec ctok cspec cs_ins cs_outs cs_done cs_accept (cn_win cols) (cn_specs items)).
  Notation sp := (cn_spec items).

  Lemma schema_keys_nodup arr : Comb.Flat.wf items arr ->
    forall s, In s (concat (Comb.Flat.outs_spec items [] arr)) -> NoDup (map fst s).
  Proof.
    intros W s Hs. pose proof (Permutation_in s (Comb.Flat.outs_done items arr W) Hs) as Hd.
    unfold Comb.Flat.done in Hd. apply in_map_iff in Hd. destruct Hd as [g [<- _]].
    unfold Comb.Flat.combo, Comb.Model.retag. rewrite !map_map. simpl.
    apply Comb.Flat.sel_ports_nodup. destruct W as [_ [_ [W3 _]]]. exact W3.
  Qed.

  Definition pick (nm : string) (sch : list (string * ctok)) : list cmtok :=
    match slook nm sch with Some t => [D t] | None => [] end.

  Lemma pick_bag nm (a b : list Comb.Model.schema) :
    (forall s, In s a -> NoDup (map fst s)) -> Comb.Flat.bag_eq a b ->
    Permutation (flat_map (pick nm) a) (flat_map (pick nm) b).
  Proof.
    intros ND [a' [b' [Pa [Pb F]]]].
    eapply Permutation_trans; [apply Permutation_flat_map; exact Pa|].
    eapply Permutation_trans; [|apply Permutation_flat_map; apply Permutation_sym; exact Pb].
    assert (ND' : forall s, In s a' -> NoDup (map fst s)).
    { intros s Hs. apply ND. eapply Permutation_in; [apply Permutation_sym; exact Pa|exact Hs]. }
    clear -F ND'. induction F as [|x y a' b' Hxy _ IH]; simpl; [constructor|].
    unfold pick at 1 3. rewrite (slook_perm nm x y (ND' x (or_introl eq_refl)) Hxy).
    apply Permutation_app; [apply Permutation_refl|]. apply IH. intros s Hs. apply ND'. right. exact Hs.
  Qed.

  (* the status a terminated combinator ends with does not depend on the order either: every termination token it
     consumed is COMPLETED *)
  Lemma cstatus_completed : forall (l : log ctok) st,
    (forall a, In a l -> match snd a with E s => s = COMPLETED | D _ => True end) ->
    (st = SKIPPED \/ st = COMPLETED) -> l <> [] -> cstatus st l = COMPLETED.
  Proof.
    induction l as [|[j [x|s]] l IH]; intros st Ha Hst Hn; [congruence| |].
    - simpl. destruct l as [|b l']; [reflexivity|]. apply IH; [intros a H; apply Ha; right; exact H|right; reflexivity|discriminate].
    - simpl. assert (s = COMPLETED) by (apply (Ha (j, E s)); left; reflexivity). subst s.
      assert (E1 : reduce_o [Some st; Some COMPLETED] = COMPLETED) by (destruct Hst as [->| ->]; reflexivity).
      rewrite E1. destruct l as [|b l']; [reflexivity|].
      apply IH; [intros a H; apply Ha; right; exact H|right; reflexivity|discriminate].
  Qed.

  Theorem cn_ports_determinate : forall ch1 ch2 l1 l2,
    exe (minit ctok cspec (cn_specs items)) ch1 = Some [l1] -> exe (minit ctok cspec (cn_specs items)) ch2 = Some [l2] ->
    all_done ctok cspec cs_done (cn_specs items) [l1] -> all_done ctok cspec cs_done (cn_specs items) [l2] ->
    forall k, Permutation (nth k (cs_outs sp l1) []) (nth k (cs_outs sp l2) []).
  Proof.
    intros ch1 ch2 l1 l2 H1 H2 D1 D2.
    destruct (cn_done_perm items cols Hlen Hwf ch1 l1 H1 D1) as [P1 [R1 F1]].
    destruct (cn_done_perm items cols Hlen Hwf ch2 l2 H2 D2) as [P2 [R2 F2]].
    destruct (cn_never_raises items cols Hlen Hwf ch1 l1 H1) as [W1 _].
    pose proof (cn_bag_determinate items cols Hlen Hwf ch1 ch2 l1 l2 H1 H2 D1 D2) as B.
    assert (Hd : forall nm, Permutation (hist_data sp l1 nm) (hist_data sp l2 nm)).
    { intros nm. unfold hist_data. apply pick_bag; [|exact B].
      rewrite F1. apply schema_keys_nodup. exact W1. }
    assert (Hfin : final_tok sp l1 = final_tok sp l2).
    { unfold final_tok, raised. rewrite R1, R2.
      assert (Hs : forall ch l, exe (minit ctok cspec (cn_specs items)) ch = Some [l] ->
                     all_done ctok cspec cs_done (cn_specs items) [l] -> cstatus SKIPPED l = COMPLETED).
      { clear -Hlen Hwf Hne. intros ch l H AD.
        pose proof (reachable_inv ctok cspec cs_ins cs_nout cs_outs cs_done cs_accept (cn_win cols) (cn_specs items)
                      cs_contract (cn_wf_net items cols Hlen) ch _ _
                      (minv_init ctok cspec cs_ins cs_outs (cn_win cols) (cn_specs items)) H) as [_ I].
        pose proof (reachable_ports_ok ctok cspec cs_ins cs_outs cs_done cs_accept (cn_win cols) (cn_specs items) ch _ H) as P.
        destruct (cn_never_raises items cols Hlen Hwf ch l H) as [_ R].
        apply cstatus_completed; [|left; reflexivity|].
        - intros [j t] Ha. simpl. destruct t as [x|s]; [trivial|].
          assert (Hj : j < length items).
          { specialize (P 0 (cn_spec items) l eq_refl eq_refl (j, E s) Ha). simpl in P.
            rewrite map_length, seq_length in P. exact P. }
          destruct (I 0 (cn_spec items) l j (WIn j) eq_refl eq_refl (nth_error_map_seq (length items) 0 j Hj)) as [I1 _].
          pose proof (in_proj ctok l (j, E s) Ha) as Hin. simpl in Hin. rewrite I1 in Hin.
          assert (Hin' : In (E s) (mcontent ctok cspec cs_outs (cn_win cols) (cn_specs items) [l] (WIn j))).
          { clear -Hin. revert Hin. generalize (cnt ctok j l). intros c. revert c.
            induction (mcontent ctok cspec cs_outs (cn_win cols) (cn_specs items) [l] (WIn j)) as [|y r IHr]; intros [|c] H;
              simpl in H; try destruct H; [left; assumption|right; eapply IHr; eauto]. }
          simpl in Hin'. rewrite (cn_win_nth items cols Hlen j Hj) in Hin'. apply in_app_or in Hin'.
          destruct Hin' as [Hm|[Hm|[]]]; [apply in_map_iff in Hm; destruct Hm as [? [Hm _]]; discriminate|inversion Hm; reflexivity].
        - intros ->. pose proof (AD 0 (cn_spec items) [] eq_refl eq_refl) as Hd. unfold cs_done, raised in Hd.
          simpl in Hd. unfold all_closed in Hd. simpl in Hd. rewrite map_length, seq_length in Hd.
          destruct (length items) as [|m] eqn:El; [destruct items; [congruence|discriminate]|]. simpl in Hd. discriminate. }
      rewrite (Hs ch1 l1 H1 D1), (Hs ch2 l2 H2 D2). f_equal. f_equal.
      assert (He : forall nm, match hist_data sp l1 nm with [] => true | _ => false end =
                              match hist_data sp l2 nm with [] => true | _ => false end).
      { intros nm. pose proof (Hd nm) as Pn. destruct (hist_data sp l1 nm); destruct (hist_data sp l2 nm); auto.
        - apply Permutation_nil in Pn. discriminate.
        - apply Permutation_sym, Permutation_nil in Pn. discriminate. }
      clear -He. induction (c_names sp) as [|nm r IH]; simpl; auto. rewrite (He nm), IH. reflexivity. }
    intros k. unfold cs_outs. rewrite (D1 0 sp l1 eq_refl eq_refl), (D2 0 sp l2 eq_refl eq_refl), Hfin.
    clear -Hd. revert k. induction (c_names sp) as [|nm r IH]; intros [|k]; simpl; auto.
    apply Permutation_app; [apply Hd|apply Permutation_refl].
  Qed.
End Ports.
