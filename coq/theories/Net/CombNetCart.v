(* Net/CombNetCart.v — the cartesian-product CombinatorStep (depth d >= 1, any lengths) as a log machine in a network:
   never raises, and any two fully terminated executions carry permutation-equal histories on every output port
   (hypothesis (c) of C05_mixed_bags_partial for the cartesian product). *)
From Coq Require Import List Bool Arith NArith Lia Permutation.
From SF Require Import Base.Str Net.Model Net.Util Net.MixedModel Net.MixedProofs Net.MixedProofs4 Net.MixedComb
                       Net.MixedCombProofs.
From SF Require Comb.Model Comb.Proofs Comb.Flat Comb.Cart Net.CombNetGen Net.CombNet2.
Import ListNotations.
Local Open Scope string_scope. Local Open Scope list_scope.

Module Gn := Net.CombNetGen.

Section Cart.
  Variable items : list string.
  Variable d : nat.
  Variable cols : list (list ctok).
  Hypothesis Hd : d <> 0.
  Hypothesis Hne : items <> [].
  Hypothesis Hlen : length cols = length items.
  Hypothesis Hwf : Comb.Cart.wfc items d (Gn.cn_full items cols).

  Notation tree := (Comb.Cart.cc items d).
  Notation W := (Comb.Cart.wfc items d).
  Notation sp := (Gn.cn_spec items tree).
  Notation specs := (Gn.cn_specs items tree).
  Notation exe := (mexec ctok cspec cs_ins cs_outs cs_done cs_accept (Gn.cn_win cols) specs).

  Lemma W_run : forall arr, W arr -> snd (Comb.Model.run tree Comb.Model.init_state arr) = None.
  Proof. intros arr Wa. destruct (Comb.Cart.cart_full items d Hd arr Hne Wa) as [R _]. rewrite R. reflexivity. Qed.

  Definition c_never_raises :=
    Gn.cn_never_raises items tree W (Comb.Cart.wfc_perm items d) (Comb.Cart.wfc_prefix items d) W_run cols Hlen Hwf.
  Definition c_done_perm :=
    Gn.cn_done_perm items tree W (Comb.Cart.wfc_perm items d) (Comb.Cart.wfc_prefix items d) W_run cols Hlen Hwf.

  Lemma status_completed : forall ch l, exe (minit ctok cspec specs) ch = Some [l] ->
    all_done ctok cspec cs_done specs [l] -> cstatus SKIPPED l = COMPLETED.
  Proof.
    intros ch l H AD.
    pose proof (reachable_inv ctok cspec cs_ins cs_nout cs_outs cs_done cs_accept (Gn.cn_win cols) specs
                  cs_contract (Gn.cn_wf_net items tree cols Hlen) ch _ _
                  (minv_init ctok cspec cs_ins cs_outs (Gn.cn_win cols) specs) H) as [_ I].
    pose proof (reachable_ports_ok ctok cspec cs_ins cs_outs cs_done cs_accept (Gn.cn_win cols) specs ch _ H) as P.
    destruct (c_never_raises ch l H) as [_ R].
    apply Net.CombNet2.cstatus_completed; [|left; reflexivity|].
    - intros [j t] Ha. simpl. destruct t as [x|s]; [trivial|].
      assert (Hj : j < length items).
      { specialize (P 0 sp l eq_refl eq_refl (j, E s) Ha). simpl in P. rewrite map_length, seq_length in P. exact P. }
      destruct (I 0 sp l j (WIn j) eq_refl eq_refl (Gn.nth_error_map_seq (length items) 0 j Hj)) as [I1 _].
      pose proof (in_proj ctok l (j, E s) Ha) as Hin. simpl in Hin. rewrite I1 in Hin.
      assert (Hin' : In (E s) (mcontent ctok cspec cs_outs (Gn.cn_win cols) specs [l] (WIn j))).
      { clear -Hin. revert Hin. generalize (cnt ctok j l). intros c. revert c.
        induction (mcontent ctok cspec cs_outs (Gn.cn_win cols) specs [l] (WIn j)) as [|y r IHr]; intros [|c] H;
          simpl in H; try destruct H; [left; assumption|right; eapply IHr; eauto]. }
      simpl in Hin'. rewrite (Gn.cn_win_nth items cols Hlen j Hj) in Hin'. apply in_app_or in Hin'.
      destruct Hin' as [Hm|[Hm|[]]]; [apply in_map_iff in Hm; destruct Hm as [? [Hm _]]; discriminate|inversion Hm; reflexivity].
    - intros ->. pose proof (AD 0 sp [] eq_refl eq_refl) as Hdn. unfold cs_done, raised in Hdn.
      simpl in Hdn. unfold all_closed in Hdn. simpl in Hdn. rewrite map_length, seq_length in Hdn.
      destruct (length items) as [|m] eqn:El; [destruct items; [congruence|discriminate]|]. simpl in Hdn.
      destruct (snd (Comb.Model.run tree Comb.Model.init_state [])); discriminate.
  Qed.

  Theorem cart_ports_determinate : forall ch1 ch2 l1 l2,
    exe (minit ctok cspec specs) ch1 = Some [l1] -> exe (minit ctok cspec specs) ch2 = Some [l2] ->
    all_done ctok cspec cs_done specs [l1] -> all_done ctok cspec cs_done specs [l2] ->
    snd (crun sp l1) = None /\ snd (crun sp l2) = None /\
    forall k, Permutation (nth k (cs_outs sp l1) []) (nth k (cs_outs sp l2) []).
  Proof.
    intros ch1 ch2 l1 l2 H1 H2 D1 D2.
    destruct (c_done_perm ch1 l1 H1 D1) as [P1 R1]. destruct (c_done_perm ch2 l2 H2 D2) as [P2 R2].
    destruct (c_never_raises ch1 l1 H1) as [W1 _].
    assert (Pa : Permutation (arrivals items l1) (arrivals items l2))
      by (eapply Permutation_trans; [exact P1|apply Permutation_sym; exact P2]).
    destruct (Comb.Cart.cart_order_independent items d Hd (arrivals items l1) (arrivals items l2) Hne W1 Pa) as [_ [_ B]].
    split; [exact R1|]. split; [exact R2|].
    assert (Hh : forall nm, Permutation (hist_data sp l1 nm) (hist_data sp l2 nm)).
    { intros nm. unfold hist_data. apply Permutation_flat_map. exact B. }
    assert (Hfin : final_tok sp l1 = final_tok sp l2).
    { unfold final_tok, raised. rewrite R1, R2, (status_completed ch1 l1 H1 D1), (status_completed ch2 l2 H2 D2).
      f_equal. f_equal.
      assert (He : forall nm, match hist_data sp l1 nm with [] => true | _ => false end =
                              match hist_data sp l2 nm with [] => true | _ => false end).
      { intros nm. pose proof (Hh nm) as Pn. destruct (hist_data sp l1 nm); destruct (hist_data sp l2 nm); auto.
        - apply Permutation_nil in Pn. discriminate.
        - apply Permutation_sym, Permutation_nil in Pn. discriminate. }
      clear -He. induction (c_names sp) as [|nm r IH]; simpl; auto. rewrite (He nm), IH. reflexivity. }
    intros k. unfold cs_outs. rewrite (D1 0 sp l1 eq_refl eq_refl), (D2 0 sp l2 eq_refl eq_refl), Hfin.
    clear -Hh. revert k. induction (c_names sp) as [|nm r IH]; intros [|k]; simpl; auto.
    apply Permutation_app; [apply Hh|apply Permutation_refl].
  Qed.
End Cart.
