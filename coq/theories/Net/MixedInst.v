(* Net/MixedInst.v — log machines for ScatterStep, a one-input element-wise Transformer and GatherStep, over the
   nested list tokens of Gather/Model.v.  Definitions only.

   ANCHORS: streamflow.workflow.step.ScatterStep.run / _scatter, streamflow.workflow.step.Transformer.run (one input
   port), streamflow.workflow.step.GatherStep.run (through Gather.Model.gather_run, the model proved in C01).

   GatherStep: input 0 is the size port, input 1 the data port.  Its log is translated into the arrival list of
   Gather.Model (a size token is a Tok whose payload is the decimal length, as ScatterStep emits it; a size token
   with another payload is outside the model and ignored) and everything is read off [gather_run]. *)
From Coq Require Import List Bool Arith NArith.
From SF Require Import Base.Str Base.Dec Net.Model Net.MixedModel.
From SF Require Gather.Model.
Import ListNotations.

Notation gtok := Gather.Model.tok.
Notation gmtok := (mtok gtok).

Definition st_in (s : status) : Gather.Model.status :=
  match s with
  | SKIPPED => Gather.Model.Skipped | COMPLETED => Gather.Model.Completed | FAILED => Gather.Model.Failed
  | CANCELLED => Gather.Model.Cancelled | RECOVERED => Gather.Model.Recovered | _ => Gather.Model.OtherStatus
  end.
Definition st_out (s : Gather.Model.status) : status :=
  match s with
  | Gather.Model.Skipped => SKIPPED | Gather.Model.Completed => COMPLETED | Gather.Model.Failed => FAILED
  | Gather.Model.Cancelled => CANCELLED | Gather.Model.Recovered => RECOVERED | Gather.Model.OtherStatus => COMPLETED
  end.

Inductive mspec :=
| MXf (f : gtok -> gtok) (i : src)                 (* Transformer with one input port, element-wise *)
| MScatter (i : src)                               (* outputs: 0 = elements, 1 = size *)
| MGather (depth : nat) (psize pelem : src).

Definition ms_ins (sp : mspec) : list src :=
  match sp with MXf _ i => [i] | MScatter i => [i] | MGather _ a b => [a; b] end.
Definition ms_nout (sp : mspec) : nat :=
  match sp with MXf _ _ => 1 | MScatter _ => 2 | MGather _ _ _ => 1 end.

(* the status a step terminates with: _get_status(_reduce_statuses([s]), some output port empty) *)
Definition end_status (s : status) (any_empty : bool) : status := get_status (reduce_o [Some s]) any_empty.

(* Transformer: every data token is transformed; the first termination token ends the step *)
Fixpoint xf_hist (f : gtok -> gtok) (seen : bool) (l : list gmtok) : list gmtok :=
  match l with
  | [] => []
  | D x :: r => D (f x) :: xf_hist f true r
  | E s :: _ => [E (end_status s (negb seen))]
  end.

(* ScatterStep: a ListToken is scattered (elements t.i, then the size token); anything else raises
   WorkflowDefinitionException, which nothing catches in ScatterStep.run: the executor's _handle_exception closes
   the workflow; here the step's ports are terminated CANCELLED (what close() does to it) *)
Definition size_tok (t : string) (vs : list gtok) : gtok := Gather.Model.Tok t (dec (N.of_nat (length vs))).
Fixpoint sc_elems (ne ns : bool) (l : list gmtok) : list gmtok :=
  match l with
  | [] => []
  | D (Gather.Model.ListTok t vs) :: r =>
      map D (Gather.Model.scatter_elems t vs) ++
      sc_elems (ne || match vs with [] => false | _ => true end) true r
  | D (Gather.Model.Tok _ _) :: _ => [E CANCELLED]
  | E s :: _ => [E (end_status s (negb ne || negb ns))]
  end.
Fixpoint sc_sizes (ne ns : bool) (l : list gmtok) : list gmtok :=
  match l with
  | [] => []
  | D (Gather.Model.ListTok t vs) :: r =>
      D (size_tok t vs) :: sc_sizes (ne || match vs with [] => false | _ => true end) true r
  | D (Gather.Model.Tok _ _) :: _ => [E CANCELLED]
  | E s :: _ => [E (end_status s (negb ne || negb ns))]
  end.

(* GatherStep through Gather.Model *)
Definition to_garr (a : nat * gmtok) : list Gather.Model.garr :=
  match a with
  | (O, D (Gather.Model.Tok tg v)) =>
      match undec v with Some n => [Gather.Model.OnSize tg n] | None => [] end
  | (O, D (Gather.Model.ListTok _ _)) => []
  | (O, E s) => [Gather.Model.OnTerm Gather.Model.SizeP (st_in s)]
  | (S _, D x) => [Gather.Model.OnElem x]
  | (S _, E s) => [Gather.Model.OnTerm Gather.Model.ElemP (st_in s)]
  end.
Definition g_run (depth : nat) (l : log gtok) : Gather.Model.gstate :=
  Gather.Model.gather_run depth (flat_map to_garr l).
Definition g_hist (s : Gather.Model.gstate) : list gmtok :=
  map D (Gather.Model.gout (Gather.Model.gd s)) ++
  match Gather.Model.gfinal s with Some st => [E (st_out st)] | None => [] end.

Definition ms_outs (sp : mspec) (l : log gtok) : list (list gmtok) :=
  match sp with
  | MXf f _ => [xf_hist f false (proj gtok 0 l)]
  | MScatter _ => [sc_elems false false (proj gtok 0 l); sc_sizes false false (proj gtok 0 l)]
  | MGather d _ _ => [g_hist (g_run d l)]
  end.
Definition ms_done (sp : mspec) (l : log gtok) : bool :=
  match sp with
  | MXf _ _ => port_closed gtok 0 l
  | MScatter _ => existsb (fun t => match t with D (Gather.Model.ListTok _ _) => false | _ => true end) (proj gtok 0 l)
  | MGather d _ _ => match Gather.Model.gfinal (g_run d l) with Some _ => true | None => false end
  end.
(* what the step waits on: its single port while not terminated; for the gather, any port still open *)
Definition ms_accept (sp : mspec) (l : log gtok) (j : nat) : bool :=
  match sp with
  | MXf _ _ => Nat.eqb j 0 && negb (ms_done sp l)
  | MScatter _ => Nat.eqb j 0 && negb (ms_done sp l)
  | MGather _ _ _ => Nat.ltb j 2 && negb (port_closed gtok j l)
  end.
