(* Net/MixedProofs4.v — more invariants of networks of log machines (log entries name existing inputs), and the
   shape of a log over two ports that has consumed both termination tokens. *)
From Coq Require Import List Bool Arith Lia.
From SF Require Import Net.Model Net.Util Net.MixedModel Net.MixedProofs.
Import ListNotations.

Section Ports.
  Variable T : Type.
  Variable spec : Type.
  Variable s_ins : spec -> list src.
  Variable outs : spec -> log T -> list (list (mtok T)).
  Variable done : spec -> log T -> bool.
  Variable accept : spec -> log T -> nat -> bool.
  Variable win : list (list (mtok T)).
  Variable specs : list spec.

  Notation step := (mstep T spec s_ins outs done accept win specs).
  Notation exe := (mexec T spec s_ins outs done accept win specs).

  Definition ports_ok (st : mstate T) : Prop :=
    forall i sp l, nth_error specs i = Some sp -> nth_error st i = Some l ->
      forall a, In a l -> fst a < length (s_ins sp).

  Lemma ports_ok_step st c st' : ports_ok st -> step st c = Some st' -> ports_ok st'.
  Proof.
    intros P Hs.
    destruct (step_inv T spec s_ins outs done accept win specs _ _ _ Hs)
      as [i [j [sp [l [p [-> [Hsp [Hl [Hp [_ [_ [_ ->]]]]]]]]]]]].
    assert (Hi : i < length st) by (eapply nth_error_Some_lt; eauto).
    intros k spk lk Hspk Hlk a Ha. destruct (Nat.eq_dec i k) as [<-|Hne].
    - rewrite nth_error_upd_same in Hlk by auto. inversion Hlk; subst lk. assert (spk = sp) by congruence. subst.
      apply in_app_or in Ha. destruct Ha as [Ha|[<-|[]]]; [eapply P; eauto|]. simpl.
      apply nth_error_Some. congruence.
    - rewrite nth_error_upd_other in Hlk by auto. eapply P; eauto.
  Qed.

  Theorem reachable_ports_ok : forall ch st, exe (minit T spec specs) ch = Some st -> ports_ok st.
  Proof.
    assert (G : forall ch st st', ports_ok st -> exe st ch = Some st' -> ports_ok st').
    { induction ch as [|c r IH]; intros st st' P H; simpl in H.
      - inversion H; subst. exact P.
      - destruct (step st c) as [st1|] eqn:Hs; [|discriminate]. eapply IH; [eapply ports_ok_step; eauto|exact H]. }
    intros ch st H. apply (G ch _ _) in H; auto.
    intros i sp l _ Hl a Ha. apply nth_error_In in Hl. unfold minit in Hl. apply in_map_iff in Hl.
    destruct Hl as [x [<- _]]. destruct Ha.
  Qed.
End Ports.

Section TwoPorts.
  Variable T : Type.
  Notation tok := (mtok T).

  Lemma in_proj (l : log T) a : In a l -> In (snd a) (proj T (fst a) l).
  Proof.
    intros H. unfold proj. apply in_map. apply filter_In. split; auto. unfold on_port. apply Nat.eqb_refl.
  Qed.

  Lemma proj_snoc j (l : log T) y : proj T j (l ++ [y]) = if Nat.eqb (fst y) j then proj T j l ++ [snd y] else proj T j l.
  Proof.
    rewrite (proj_app T). destruct y as [k t]. rewrite (proj_single T). simpl.
    destruct (Nat.eqb k j); [reflexivity|apply app_nil_r].
  Qed.

  (* splitting a log at the last entry of port j *)
  Lemma proj_snoc_split j : forall (l : log T) d t, proj T j l = d ++ [t] ->
    exists la lb, l = la ++ (j, t) :: lb /\ proj T j la = d /\ (forall a, In a lb -> fst a <> j).
  Proof.
    induction l as [|y l IH] using rev_ind; intros d t H.
    - destruct d; discriminate.
    - rewrite proj_snoc in H. destruct (Nat.eqb (fst y) j) eqn:Ey.
      + apply app_inj_tail in H. destruct H as [Hd Ht]. apply Nat.eqb_eq in Ey.
        exists l, []. destruct y as [k u]. simpl in *. subst. split; [reflexivity|]. split; [reflexivity|intros a []].
      + destruct (IH d t H) as [la [lb [-> [Hd Hlb]]]]. exists la, (lb ++ [y]).
        split; [rewrite <- app_assoc; reflexivity|]. split; [exact Hd|].
        intros a Ha. apply in_app_or in Ha. destruct Ha as [Ha|[<-|[]]]; [apply Hlb; exact Ha|].
        apply Nat.eqb_neq. exact Ey.
  Qed.

  (* a log over the two ports p <> q that has consumed the closed histories dp ++ [E sp] and dq ++ [E sq], ending
     with port q's termination token *)
  Lemma two_port_shape p q (l : log T) dp sp dq sq :
    p <> q -> (forall a, In a l -> fst a = p \/ fst a = q) ->
    proj T p l = dp ++ [E sp] -> proj T q l = dq ++ [E sq] ->
    term_free_m T dp -> term_free_m T dq ->
    (exists l0 t, l = l0 ++ [(q, t)]) ->
    exists la lb, l = la ++ (p, E sp) :: lb ++ [(q, E sq)] /\
      (forall a, In a lb -> fst a <> p) /\
      (forall a, In a (la ++ lb) -> is_e T (snd a) = false) /\
      proj T p (la ++ lb) = dp /\ proj T q (la ++ lb) = dq.
  Proof.
    intros Hpq Hports Hp Hq Fp Fq [l0 [t ->]].
    rewrite proj_snoc in Hp, Hq. simpl in Hp, Hq. rewrite Nat.eqb_refl in Hq.
    assert (Eqp : Nat.eqb q p = false) by (apply Nat.eqb_neq; auto). rewrite Eqp in Hp.
    apply app_inj_tail in Hq. destruct Hq as [Hq Ht]. subst t.
    destruct (proj_snoc_split p l0 dp (E sp) Hp) as [la [lb [-> [Hla Hlb]]]].
    exists la, lb. split; [rewrite <- app_assoc; reflexivity|]. split; [exact Hlb|].
    assert (Pp : proj T p (la ++ lb) = dp).
    { rewrite (proj_app T), Hla. assert (proj T p lb = []).
      { unfold proj. clear -Hlb. induction lb as [|a lb IH]; simpl; auto. unfold on_port at 1.
        destruct (Nat.eqb (fst a) p) eqn:E1; [apply Nat.eqb_eq in E1; exfalso; apply (Hlb a); [left; reflexivity|exact E1]|].
        apply IH. intros b Hb. apply Hlb. right. exact Hb. }
      rewrite H. apply app_nil_r. }
    assert (Pq : proj T q (la ++ lb) = dq).
    { rewrite <- Hq. change ((p, E sp) :: lb) with ([(p, E sp)] ++ lb).
      rewrite !(proj_app T), (proj_single T).
      assert (Epq : Nat.eqb p q = false) by (apply Nat.eqb_neq; auto). rewrite Epq. reflexivity. }
    split; [|split; [exact Pp|exact Pq]].
    intros a Ha. destruct (is_e T (snd a)) eqn:Ea; [exfalso|reflexivity].
    assert (Hin0 : In a ((la ++ (p, E sp) :: lb) ++ [(q, E sq)])).
    { apply in_or_app. left. apply in_app_or in Ha. apply in_or_app. destruct Ha; [left|right; right]; auto. }
    pose proof (in_proj (la ++ lb) a Ha) as Hin.
    destruct (Hports a Hin0) as [E1|E1]; rewrite E1 in Hin.
    - rewrite Pp in Hin. unfold term_free_m in Fp.
      assert (existsb (is_e T) dp = true) by (apply existsb_exists; eauto). congruence.
    - rewrite Pq in Hin. assert (existsb (is_e T) dq = true) by (apply existsb_exists; eauto).
      unfold term_free_m in Fq. congruence.
  Qed.
End TwoPorts.
