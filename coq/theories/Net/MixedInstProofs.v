(* Net/MixedInstProofs.v — ScatterStep, one-input Transformer and GatherStep honour the log-machine contract;
   hence networks built from them need no contract hypothesis. *)
From Coq Require Import List Bool Arith NArith Lia.
From SF Require Import Base.Str Base.Dec Net.Model Net.Util Net.MixedModel Net.MixedProofs Net.MixedInst.
From SF Require Gather.Model Net.Contracts.
Import ListNotations.

Notation tfree := (term_free_m gtok).
Notation extg := (ext_m gtok).

Lemma extg_refl a : extg a a.
Proof. exists []. rewrite app_nil_r. reflexivity. Qed.
Lemma extg_nil a : extg [] a.
Proof. exists a. reflexivity. Qed.
Lemma extg_cons x a b : extg a b -> extg (x :: a) (x :: b).
Proof. intros [c ->]. exists c. reflexivity. Qed.
Lemma extg_app p a b : extg a b -> extg (p ++ a) (p ++ b).
Proof. intros [c ->]. exists c. rewrite app_assoc. reflexivity. Qed.
Lemma extg_trans a b c : extg a b -> extg b c -> extg a c.
Proof. intros [x ->] [y ->]. exists (x ++ y). rewrite app_assoc. reflexivity. Qed.

Lemma tfree_mapD (l : list gtok) : tfree (map D l).
Proof. unfold term_free_m. induction l; simpl; auto. Qed.
Lemma tfree_app a b : tfree a -> tfree b -> tfree (a ++ b).
Proof. unfold term_free_m. intros Ha Hb. rewrite existsb_app, Ha, Hb. reflexivity. Qed.
Lemma tfree_cons x a : is_e gtok x = false -> tfree a -> tfree (x :: a).
Proof. unfold term_free_m. simpl. intros -> ->. reflexivity. Qed.

Definition closedh (h : list gmtok) : Prop := exists d s, h = d ++ [E s] /\ tfree d.
Lemma closedh_cons x h : is_e gtok x = false -> closedh h -> closedh (x :: h).
Proof. intros Hx [d [s [-> Hd]]]. exists (x :: d), s. split; [reflexivity|apply tfree_cons; auto]. Qed.
Lemma closedh_app p h : tfree p -> closedh h -> closedh (p ++ h).
Proof. intros Hp [d [s [-> Hd]]]. exists (p ++ d), s. split; [rewrite app_assoc; reflexivity|apply tfree_app; auto]. Qed.
Lemma closedh_single s : closedh [E s].
Proof. exists [], s. split; reflexivity. Qed.

(* ---------------------------------------------------------------- Transformer *)
Lemma xf_mono f : forall l a seen, extg (xf_hist f seen l) (xf_hist f seen (l ++ a)).
Proof.
  induction l as [|[x|s] l IH]; intros a seen; simpl; [apply extg_nil| |apply extg_refl].
  apply extg_cons. apply IH.
Qed.
Lemma xf_closed f : forall l seen, existsb (is_e gtok) l = true -> closedh (xf_hist f seen l).
Proof.
  induction l as [|[x|s] l IH]; intros seen H; simpl in *; [discriminate| |apply closedh_single].
  apply closedh_cons; [reflexivity|apply IH; exact H].
Qed.

(* ---------------------------------------------------------------- ScatterStep *)
Definition not_list (t : gmtok) : bool := match t with D (Gather.Model.ListTok _ _) => false | _ => true end.

Lemma sce_mono : forall l a ne ns, extg (sc_elems ne ns l) (sc_elems ne ns (l ++ a)).
Proof.
  induction l as [|[[t v|t vs]|s] l IH]; intros a ne ns; simpl; try apply extg_nil; try apply extg_refl.
  apply extg_app. apply IH.
Qed.
Lemma scs_mono : forall l a ne ns, extg (sc_sizes ne ns l) (sc_sizes ne ns (l ++ a)).
Proof.
  induction l as [|[[t v|t vs]|s] l IH]; intros a ne ns; simpl; try apply extg_nil; try apply extg_refl.
  apply extg_cons. apply IH.
Qed.
Lemma sce_closed : forall l ne ns, existsb not_list l = true -> closedh (sc_elems ne ns l).
Proof.
  induction l as [|[[t v|t vs]|s] l IH]; intros ne ns H; simpl in *; try discriminate; try apply closedh_single.
  apply closedh_app; [apply tfree_mapD|apply IH; exact H].
Qed.
Lemma scs_closed : forall l ne ns, existsb not_list l = true -> closedh (sc_sizes ne ns l).
Proof.
  induction l as [|[[t v|t vs]|s] l IH]; intros ne ns H; simpl in *; try discriminate; try apply closedh_single.
  apply closedh_cons; [reflexivity|apply IH; exact H].
Qed.
Lemma is_e_not_list l : existsb (is_e gtok) l = true -> existsb not_list l = true.
Proof.
  induction l as [|x l IH]; simpl; [auto|]. intros H. apply orb_true_iff in H. apply orb_true_iff.
  destruct H as [H|H]; [left; destruct x as [[|]|]; auto; discriminate|right; auto].
Qed.

(* ---------------------------------------------------------------- GatherStep *)
Import Gather.Model.

Lemma forced_ext : forall keys d,
  exists extra, gout (fold_left (fun acc key =>
        {| size_map := aset key (N.of_nat (length (aget_def [] key (token_map acc)))) (size_map acc);
           token_map := token_map acc; done_keys := done_keys acc;
           gout := gout acc ++ [ListTok key (sort_toks (aget_def [] key (token_map acc)))] |}) keys d)
      = gout d ++ extra.
Proof.
  induction keys as [|k r IH]; intros d; simpl.
  - exists []. rewrite app_nil_r. reflexivity.
  - destruct (IH {| size_map := aset k (N.of_nat (length (aget_def [] k (token_map d)))) (size_map d);
                    token_map := token_map d; done_keys := done_keys d;
                    gout := gout d ++ [ListTok k (sort_toks (aget_def [] k (token_map d)))] |}) as [e He].
    rewrite He. simpl. eexists. rewrite <- app_assoc. reflexivity.
Qed.

Lemma data_step_ext depth d a : exists extra, gout (data_step depth d a) = gout d ++ extra.
Proof.
  destruct a as [tg n|x|p st]; simpl.
  - match goal with |- context [if ?c then _ else _] => destruct c end; simpl;
      [eexists; reflexivity|exists []; rewrite app_nil_r; reflexivity].
  - destruct (aget (drop_last_s depth (tag_of x)) (size_map d)) as [n|]; simpl;
      [match goal with |- context [if ?c then _ else _] => destruct c end; simpl|];
      try (eexists; reflexivity); exists []; rewrite app_nil_r; reflexivity.
  - exists []. rewrite app_nil_r. reflexivity.
Qed.

Lemma gstep_ext depth s a : exists extra, gout (gd (gather_step depth s a)) = gout (gd s) ++ extra.
Proof.
  unfold gather_step. destruct (negb (port_open s (port_of a))); [exists []; rewrite app_nil_r; reflexivity|].
  destruct a as [tg n|x|p st].
  { destruct (data_step_ext depth (gd s) (OnSize tg n)) as [e He]. exists e. simpl. simpl in He. exact He. }
  { destruct (data_step_ext depth (gd s) (OnElem x)) as [e He]. exists e. simpl. simpl in He. exact He. }
  simpl.
  match goal with |- context [if ?c then _ else _] => destruct c end; simpl;
    [exists []; rewrite app_nil_r; reflexivity|].
  unfold finish. destruct (reduce_statuses [gstatus s; st]); simpl;
    try apply forced_ext; exists []; rewrite app_nil_r; reflexivity.
Qed.

Lemma ghist_step depth s a : Net.Contracts.ginv s -> extg (g_hist s) (g_hist (gather_step depth s a)).
Proof.
  intros I. destruct (Net.Contracts.gather_step_facts depth s a I) as [_ [_ [_ [_ [_ Same]]]]].
  unfold g_hist. destruct (gfinal s) as [st|] eqn:Hf.
  - rewrite Same by congruence. rewrite Hf. apply extg_refl.
  - destruct (gstep_ext depth s a) as [e ->]. rewrite map_app, app_nil_r, <- app_assoc.
    eexists. reflexivity.
Qed.

Lemma ghist_fold depth : forall more s, Net.Contracts.ginv s ->
  extg (g_hist s) (g_hist (fold_left (gather_step depth) more s)).
Proof.
  induction more as [|a r IH]; intros s I; simpl; [apply extg_refl|].
  destruct (Net.Contracts.gather_step_facts depth s a I) as [I' _].
  eapply extg_trans; [apply ghist_step; exact I|apply IH; exact I'].
Qed.

Lemma grun_inv depth arr : Net.Contracts.ginv (fold_left (gather_step depth) arr ginit).
Proof. destruct (Net.Contracts.gather_fold_facts depth arr ginit Net.Contracts.ginv_init) as [I _]. exact I. Qed.

Lemma closed_in_log j (l : log gtok) : port_closed gtok j l = true -> exists s, In (j, E s) l.
Proof.
  unfold port_closed, proj. intros H. apply existsb_exists in H. destruct H as [x [Hin He]].
  apply in_map_iff in Hin. destruct Hin as [[j' t] [Hs Hf]]. simpl in Hs. subst t.
  apply filter_In in Hf. destruct Hf as [Hl Hp]. unfold on_port in Hp. simpl in Hp. apply Nat.eqb_eq in Hp. subst j'.
  destruct x as [y|s]; [discriminate|]. exists s. exact Hl.
Qed.

(* ---------------------------------------------------------------- the contract *)
Theorem ms_contract : log_contract gtok mspec ms_ins ms_nout ms_outs ms_done ms_accept.
Proof.
  split; [|split; [|split; [|split]]].
  - (* outputs only grow *)
    intros sp l j0 t j _ _. set (a := [(j0, t)]). destruct sp as [f i|i|d ps pe]; simpl.
    + destruct j as [|[|j]]; simpl; try apply extg_refl. rewrite (proj_app gtok). apply xf_mono.
    + destruct j as [|[|[|j]]]; simpl; try apply extg_refl; rewrite (proj_app gtok); [apply sce_mono|apply scs_mono].
    + destruct j as [|[|j]]; simpl; try apply extg_refl.
      unfold g_run, gather_run. rewrite flat_map_app, fold_left_app. apply ghist_fold. apply grun_inv.
  - intros sp l. destruct sp; reflexivity.
  - (* terminate(): data, then one termination token *)
    intros sp l o Hd Ho. destruct sp as [f i|i|d ps pe]; simpl in *.
    + destruct Ho as [<-|[]]. apply xf_closed. exact Hd.
    + destruct Ho as [<-|[<-|[]]]; [apply sce_closed|apply scs_closed]; exact Hd.
    + destruct Ho as [<-|[]]. unfold g_hist. destruct (gfinal (g_run d l)) as [st|]; [|discriminate].
      exists (map D (gout (gd (g_run d l)))), (st_out st). split; [reflexivity|apply tfree_mapD].
  - (* a step that has not terminated waits on some port *)
    intros sp l Hd. destruct sp as [f i|i|d ps pe]; simpl in *.
    + exists 0. split; [lia|]. rewrite Hd. reflexivity.
    + exists 0. split; [lia|]. rewrite Hd. reflexivity.
    + destruct (port_closed gtok 0 l) eqn:H0; [|exists 0; split; [lia|rewrite H0; reflexivity]].
      destruct (port_closed gtok 1 l) eqn:H1; [|exists 1; split; [lia|rewrite H1; reflexivity]].
      exfalso. destruct (closed_in_log 0 l H0) as [s0 Hs0]. destruct (closed_in_log 1 l H1) as [s1 Hs1].
      assert (A0 : In (OnTerm SizeP (st_in s0)) (flat_map to_garr l)).
      { apply in_flat_map. exists (0, E s0). split; [exact Hs0|left; reflexivity]. }
      assert (A1 : In (OnTerm ElemP (st_in s1)) (flat_map to_garr l)).
      { apply in_flat_map. exists (1, E s1). split; [exact Hs1|left; reflexivity]. }
      destruct (Net.Contracts.gather_terminates d _ _ _ A0 A1) as [F _].
      unfold g_run in Hd. destruct (gfinal (gather_run d (flat_map to_garr l))); [discriminate|congruence].
  - (* never on a terminated port *)
    intros sp l j H. destruct sp as [f i|i|d ps pe]; simpl in *.
    + apply andb_true_iff in H. destruct H as [Hj Hn]. apply Nat.eqb_eq in Hj. subst. apply negb_true_iff in Hn. exact Hn.
    + apply andb_true_iff in H. destruct H as [Hj Hn]. apply Nat.eqb_eq in Hj. subst. apply negb_true_iff in Hn.
      unfold port_closed. destruct (existsb (is_e gtok) (proj gtok 0 l)) eqn:E0; [|reflexivity].
      apply is_e_not_list in E0. unfold not_list in E0. congruence.
    + apply andb_true_iff in H. destruct H as [_ Hn]. apply negb_true_iff in Hn. exact Hn.
Qed.
