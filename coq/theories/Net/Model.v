(* Net/Model.v — network of steps over single-writer ports, and the executor's closing logic (C04, C05).
   Definitions only.

   ANCHORS:
     streamflow.workflow.step._reduce_statuses
     streamflow.workflow.step._group_by_tag
     streamflow.workflow.step.BaseStep._get_inputs      (one token from every input port = one round)
     streamflow.workflow.step.BaseStep._get_status
     streamflow.workflow.step.BaseStep.terminate        (one TerminationToken on every output port, idempotent)
     streamflow.workflow.step.Transformer.run
     streamflow.workflow.step.ConditionalStep.run
     streamflow.core.workflow.Port.put / Port.get       (token_list + per-consumer FIFO replaying token_list)
     streamflow.workflow.executor.StreamFlowExecutor._cancel / close / _wait_outputs / run

   Abstraction (justified in design/notes/C04.md): a step built on _get_inputs consumes tokens in *rounds* (one
   token from each of its private consumer queues, asyncio.gather); between rounds it touches only its own
   state and appends to its own output ports.  A round is therefore one atomic transition, enabled when every
   input port holds a token the step has not read yet.  A consumer queue = the port's token_list + a read
   cursor; since every round takes exactly one token from each input, the cursor of all inputs of a step is
   its round counter.  Steps that merge inputs with asyncio.wait(FIRST_COMPLETED) (CombinatorStep, GatherStep,
   LoopCombinatorStep) are NOT of this shape: they enter the network theorems only through the abstract
   [fire] contract of the Section below. *)
From Coq Require Import List Bool Arith NArith ZArith.
From SF Require Import Base.Str.
Import ListNotations.
Local Open Scope string_scope. Local Open Scope list_scope.

(* ---------------------------------------------------------------- statuses *)
Inductive status := WAITING | FIREABLE | RUNNING | SKIPPED | COMPLETED | FAILED | CANCELLED
                  | ROLLBACK | RECOVERY | RECOVERED.

Definition status_code (s : status) : Z :=
  match s with WAITING => 0 | FIREABLE => 1 | RUNNING => 2 | SKIPPED => 3 | COMPLETED => 4 | FAILED => 5
             | CANCELLED => 6 | ROLLBACK => 7 | RECOVERY => 8 | RECOVERED => 9 end%Z.
Definition status_eqb (a b : status) : bool := Z.eqb (status_code a) (status_code b).

(* _reduce_statuses.  The list elements are whatever `t.value` is: for a data token that is not a Status
   (None here) no `case` matches.  Status is an IntEnum, so an int value 3/5/6/9 DOES match (see tok_status). *)
Fixpoint reduce_go (l : list (option status)) (nsk : nat) (rcv : bool) (len : nat) : status :=
  match l with
  | [] => if rcv then RECOVERED else if Nat.eqb nsk len then SKIPPED else COMPLETED
  | Some FAILED :: _ => FAILED
  | Some CANCELLED :: _ => CANCELLED
  | Some SKIPPED :: t => reduce_go t (S nsk) rcv len
  | Some RECOVERED :: t => reduce_go t nsk true len
  | _ :: t => reduce_go t nsk rcv len
  end.
Definition reduce_o (l : list (option status)) : status := reduce_go l 0 false (length l).
Definition reduce_statuses (l : list status) : status := reduce_o (map Some l).

(* BaseStep._get_status: any_empty = some output port has an empty token_list at that moment *)
Definition get_status (s : status) (any_empty : bool) : status :=
  match s with
  | FAILED => FAILED
  | RECOVERED => COMPLETED
  | _ => if any_empty then SKIPPED else s
  end.

Definition terminal (s : status) : bool :=
  match s with SKIPPED | COMPLETED | FAILED | CANCELLED => true | _ => false end.

(* ---------------------------------------------------------------- tokens *)
Inductive tok := Tok (tag : string) (v : Z) | Term (s : status).

Definition is_term (t : tok) : bool := match t with Term _ => true | _ => false end.
Definition status_of_Z (v : Z) : option status :=
  if Z.eqb v 3 then Some SKIPPED else if Z.eqb v 5 then Some FAILED
  else if Z.eqb v 6 then Some CANCELLED else if Z.eqb v 9 then Some RECOVERED else None.
Definition tok_status (t : tok) : option status :=
  match t with Term s => Some s | Tok _ v => status_of_Z v end.
Definition tok_val (t : tok) : Z := match t with Tok _ v => v | Term _ => 0%Z end.
Definition tok_tag (t : tok) : string := match t with Tok g _ => g | Term _ => "" end.

Definition tok_eqb (a b : tok) : bool :=
  match a, b with
  | Tok g v, Tok g' v' => String.eqb g g' && Z.eqb v v'
  | Term s, Term s' => status_eqb s s'
  | _, _ => false
  end.

(* ---------------------------------------------------------------- tag-grouping round (Transformer / ConditionalStep) *)
Inductive kind :=
| KXf (add : Z) (fail : list string)          (* value = add + sum of the tag's inputs; raises on listed tags *)
| KCond (md rm : Z) (fwd : list nat) (skip : bool).
   (* (sum mod md = rm) ? forward input fwd[j] on output j : (skip ? a null token (value 0) on every output : nothing) *)

Definition imap := list (string * list (nat * tok)).     (* inputs_map: tag -> (input index -> token), dicts *)

Fixpoint set_inner (i : nat) (t : tok) (m : list (nat * tok)) : list (nat * tok) :=
  match m with
  | [] => [(i, t)]
  | (j, u) :: r => if Nat.eqb i j then (j, t) :: r else (j, u) :: set_inner i t r
  end.
Fixpoint group_one (i : nat) (t : tok) (m : imap) : imap :=
  match m with
  | [] => [(tok_tag t, [(i, t)])]
  | (g, inner) :: r => if String.eqb g (tok_tag t) then (g, set_inner i t inner) :: r
                       else (g, inner) :: group_one i t r
  end.
(* _group_by_tag(inputs, inputs_map): inputs is a dict in input-port order *)
Fixpoint group_by_tag (i : nat) (heads : list tok) (m : imap) : imap :=
  match heads with
  | [] => m
  | t :: r => group_by_tag (S i) r (group_one i t m)
  end.

Fixpoint remove_key (g : string) (m : imap) : imap :=
  match m with
  | [] => []
  | (g', x) :: r => if String.eqb g g' then r else (g', x) :: remove_key g r
  end.
Fixpoint lookup_key (g : string) (m : imap) : option (list (nat * tok)) :=
  match m with
  | [] => None
  | (g', x) :: r => if String.eqb g g' then Some x else lookup_key g r
  end.
Fixpoint mem_str (g : string) (l : list string) : bool :=
  match l with [] => false | x :: r => String.eqb g x || mem_str g r end.

Definition sum_vals (inner : list (nat * tok)) : Z := fold_right (fun p a => (tok_val (snd p) + a)%Z) 0%Z inner.
Fixpoint inner_get (i : nat) (inner : list (nat * tok)) : option tok :=
  match inner with [] => None | (j, t) :: r => if Nat.eqb i j then Some t else inner_get i r end.

(* what one complete tag emits on each of the nout outputs; None = the step raises *)
Definition emit_tag (k : kind) (nout : nat) (g : string) (inner : list (nat * tok)) : option (list (list tok)) :=
  match k with
  | KXf add fail =>
      if mem_str g fail then None
      else Some (repeat [Tok g (add + sum_vals inner)%Z] nout)
  | KCond md rm fwd skip =>
      if Z.eqb (Z.modulo (sum_vals inner) md) rm
      then Some (map (fun i => match inner_get i inner with
                                | Some (Tok g' v) => [Tok g' v]
                                | _ => []      (* unreachable: only data tokens of complete groups are stored *)
                                end) fwd)
      else Some (repeat (if skip then [Tok g 0%Z] else []) nout)
  end.

Fixpoint zip_app (a b : list (list tok)) : list (list tok) :=
  match a, b with
  | x :: a', y :: b' => (x ++ y) :: zip_app a' b'
  | _, [] => a
  | [], _ => b
  end.

(* `for tag in list(inputs_map.keys()): if len(inputs_map[tag]) == len(input_ports): ...` ; the bool says
   whether an exception left the loop *)
Fixpoint process_tags (k : kind) (nin nout : nat) (keys : list string) (m : imap) (acc : list (list tok))
  : imap * list (list tok) * bool :=
  match keys with
  | [] => (m, acc, false)
  | g :: r =>
      match lookup_key g m with
      | Some inner =>
          if Nat.eqb (length inner) nin then
            match emit_tag k nout g inner with
            | None => (remove_key g m, acc, true)
            | Some o => process_tags k nin nout r (remove_key g m) (zip_app acc o)
            end
          else process_tags k nin nout r m acc
      | None => process_tags k nin nout r m acc
      end
  end.

Definition any_empty (outs : list (list tok)) : bool := existsb (fun l => match l with [] => true | _ => false end) outs.

(* one round of Transformer.run / ConditionalStep.run.
   own_outs = what the step has put on its output ports so far (for _get_status' emptiness test).
   Result: new inputs_map, data tokens appended to each output port, Some status if the step terminates. *)
Definition tg_fire (k : kind) (nin nout : nat) (m : imap) (own_outs : list (list tok)) (heads : list tok)
  : imap * list (list tok) * option status :=
  if existsb is_term heads then
    (m, repeat [] nout, Some (get_status (reduce_o (map tok_status heads)) (any_empty own_outs)))
  else
    let m1 := group_by_tag 0 heads m in
    match process_tags k nin nout (map fst m1) m1 (repeat [] nout) with
    | (m2, o, true) => (m2, o, Some FAILED)            (* except Exception: terminate(FAILED) *)
    | (m2, o, false) => (m2, o, None)
    end.

(* ---------------------------------------------------------------- the network, generic in the round function *)
Inductive src := WIn (k : nat) | SOut (s : nat) (j : nat).    (* a port = a workflow input or output j of step s *)

Record sstate (L : Type) := mkS { rounds : nat; loc : L; sterm : option status; souts : list (list tok) }.
Arguments mkS {L}. Arguments rounds {L}. Arguments loc {L}. Arguments sterm {L}. Arguments souts {L}.

Fixpoint upd {A} (n : nat) (x : A) (l : list A) : list A :=
  match l, n with
  | [], _ => []
  | _ :: t, O => x :: t
  | y :: t, S k => y :: upd k x t
  end.

Section Net.
  Variable L : Type.
  Variable spec : Type.
  Variable s_ins : spec -> list src.
  Variable s_nout : spec -> nat.
  (* fire sp local own_outs heads = (local', data appended per output, Some st if the step terminates now) *)
  Variable fire : spec -> L -> list (list tok) -> list tok -> L * list (list tok) * option status.
  Variable init_loc : spec -> L.

  Definition nstate := list (sstate L).

  Definition content (win : list (list tok)) (st : nstate) (p : src) : list tok :=
    match p with
    | WIn k => nth k win []
    | SOut s j => match nth_error st s with Some x => nth j (souts x) [] | None => [] end
    end.

  Definition enabled (win : list (list tok)) (st : nstate) (sp : spec) (x : sstate L) : bool :=
    match sterm x with
    | Some _ => false
    | None => forallb (fun p => Nat.ltb (rounds x) (length (content win st p))) (s_ins sp)
    end.

  (* BaseStep.terminate: a TerminationToken on every output port *)
  Definition add_term (t : option status) (o : list (list tok)) : list (list tok) :=
    match t with Some s => map (fun l => l ++ [Term s]) o | None => o end.

  Definition fired (win : list (list tok)) (st : nstate) (sp : spec) (x : sstate L) : sstate L :=
    let heads := map (fun p => nth (rounds x) (content win st p) (Term WAITING)) (s_ins sp) in
    match fire sp (loc x) (souts x) heads with
    | (l', o, t) => mkS (S (rounds x)) l' t (add_term t (zip_app (souts x) o))
    end.

  (* the scheduler picks step i; None if it is not enabled *)
  Definition nstep (win : list (list tok)) (specs : list spec) (st : nstate) (i : nat) : option nstate :=
    match nth_error specs i, nth_error st i with
    | Some sp, Some x => if enabled win st sp x then Some (upd i (fired win st sp x) st) else None
    | _, _ => None
    end.

  Definition init_state (specs : list spec) : nstate :=
    map (fun sp => mkS 0 (init_loc sp) None (repeat [] (s_nout sp))) specs.

  (* an execution = the list of scheduling choices, every one of them enabled *)
  Fixpoint exec (win : list (list tok)) (specs : list spec) (st : nstate) (ch : list nat) : option nstate :=
    match ch with
    | [] => Some st
    | i :: r => match nstep win specs st i with Some st' => exec win specs st' r | None => None end
    end.

  Definition quiescent (win : list (list tok)) (specs : list spec) (st : nstate) : Prop :=
    forall i, nstep win specs st i = None.

  Definition all_terminated (st : nstate) : Prop := forall x, In x st -> sterm x <> None.

  (* executable scheduler used by the correspondence: fire the lowest-numbered enabled step, fuel times *)
  Fixpoint first_enabled (win : list (list tok)) (specs : list spec) (st : nstate) (i n : nat) : option nat :=
    match n with
    | O => None
    | S n' => match nstep win specs st i with Some _ => Some i | None => first_enabled win specs st (S i) n' end
    end.
  Fixpoint run_canon (win : list (list tok)) (specs : list spec) (fuel : nat) (st : nstate) : nstate :=
    match fuel with
    | O => st
    | S f => match first_enabled win specs st 0 (length specs) with
             | Some i => match nstep win specs st i with Some st' => run_canon win specs f st' | None => st end
             | None => st
             end
    end.

  (* well-formed: inputs of step i come from workflow inputs or from steps before it (the list is a topological
     order of the DAG); a port has a single writer by construction of [src] *)
  Definition src_ok (nwin : nat) (specs : list spec) (i : nat) (p : src) : Prop :=
    match p with
    | WIn k => k < nwin
    | SOut s j => s < i /\ (exists sp, nth_error specs s = Some sp /\ j < s_nout sp)
    end.
  Definition wf_net (win : list (list tok)) (specs : list spec) : Prop :=
    (forall k, k < length win -> existsb is_term (nth k win []) = true) /\
    (forall i sp, nth_error specs i = Some sp -> s_ins sp <> [] /\ forall p, In p (s_ins sp) -> src_ok (length win) specs i p).

  (* the contract a round function must honour for the termination theorem *)
  Definition fire_contract : Prop :=
    forall sp l own heads l' o t, fire sp l own heads = (l', o, t) ->
      (existsb is_term heads = true -> t <> None) /\
      length o = s_nout sp /\ (forall d, In d o -> existsb is_term d = false).
End Net.

(* ---------------------------------------------------------------- the concrete network of tag-grouping steps *)
Record tgspec := mkT { t_kind : kind; t_ins : list src; t_nx : nat }.
(* number of output ports: a conditional step has one per forwarded input *)
Definition t_nout (sp : tgspec) : nat :=
  match t_kind sp with KCond _ _ fwd _ => length fwd | KXf _ _ => t_nx sp end.

Definition tg_fire_spec (sp : tgspec) (m : imap) (own : list (list tok)) (heads : list tok) :=
  tg_fire (t_kind sp) (length (t_ins sp)) (t_nout sp) m own heads.

Definition tg_init (specs : list tgspec) : nstate imap := init_state imap tgspec t_nout (fun _ => []) specs.
Definition tg_run (win : list (list tok)) (specs : list tgspec) (fuel : nat) : nstate imap :=
  run_canon imap tgspec t_ins tg_fire_spec win specs fuel (tg_init specs).

(* ---------------------------------------------------------------- executor closing logic *)
(* State: _closed, and for every step its `terminated` flag and its `status`.
   _closing is never assigned an Event anywhere in the code, so the `_closing is not None` arms are dead.
   NOT modelled (named in the notes): the branch of _wait_outputs that re-opens the executor when a workflow output
   port appears that has neither a task nor a termination (executor.py "Check if new output ports have been
   created": only reachable when ports are added while running, i.e. by recovery), and the path of run() for a
   workflow without output ports (it awaits the gather of self.executions). *)
Record xstep := mkXS { xs_term : bool; xs_status : status }.
Record xstate := mkX { closed : bool; xsteps : list xstep }.

Definition xs_bad (s : xstep) : bool := match xs_status s with FAILED | CANCELLED => true | _ => false end.
Definition unterminated (x : xstate) : nat := length (filter (fun s => negb (xs_term s)) (xsteps x)).

(* StreamFlowExecutor.close: terminate(CANCELLED) on every step that is not terminated (BaseStep.terminate sets
   terminated and status), then _closed = True *)
Definition x_close (x : xstate) : xstate :=
  if closed x then x
  else mkX true (map (fun s => if xs_term s then s else mkXS true CANCELLED) (xsteps x)).
(* StreamFlowExecutor._cancel, as repaired by the fix: commit 7a62372 (cancel output tasks, then close()).
   The pre-fix code was [x_cancel_prefix] below: it only set _closed. *)
Definition x_cancel (x : xstate) : xstate := if closed x then x else x_close x.
Definition x_cancel_prefix (x : xstate) : xstate := if closed x then x else mkX true (xsteps x).

Inductive xevent := XCancel | XClose.
Definition x_step (cancel : xstate -> xstate) (x : xstate) (e : xevent) : xstate :=
  match e with XCancel => cancel x | XClose => x_close x end.

(* What run() does once the output loop ends.
   failed_out = an output port delivered a FAILED/CANCELLED TerminationToken (-> _cancel); otherwise the last output
   port terminated normally (-> close()).  Then: `for step in steps: if step.status in [FAILED, CANCELLED]: raise`,
   read off the STATE; the exception handler calls close() again.  Result: (raised, final state). *)
Definition x_run_tail (cancel : xstate -> xstate) (failed_out : bool) (x : xstate) : bool * xstate :=
  let x1 := if failed_out then cancel x else x_close x in
  if existsb xs_bad (xsteps x1) then (true, x_close x1) else (false, x1).

(* the executor's view of a network state: terminated = the step has emitted its termination tokens *)
Definition xs_of_sterm (t : option status) : xstep :=
  match t with Some s => mkXS true s | None => mkXS false WAITING end.
