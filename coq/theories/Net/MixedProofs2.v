(* Net/MixedProofs2.v — determinacy for networks of log machines (C05): if every machine terminates only after
   every input delivered its termination token and is order-insensitive (logs with permutation-equal projections
   give permutation-equal outputs), any two terminated executions carry permutation-equal histories on every port. *)
From Coq Require Import List Bool Arith Lia Permutation.
From SF Require Import Net.Model Net.Util Net.MixedModel Net.MixedProofs.
Import ListNotations.

Section MixedBags.
  Variable T : Type.
  Variable spec : Type.
  Variable s_ins : spec -> list src.
  Variable s_nout : spec -> nat.
  Variable outs : spec -> log T -> list (list (mtok T)).
  Variable done : spec -> log T -> bool.
  Variable accept : spec -> log T -> nat -> bool.
  Variable win : list (list (mtok T)).
  Variable specs : list spec.
  Hypothesis HC : log_contract T spec s_ins s_nout outs done accept.
  Hypothesis HW : mwf T spec s_ins s_nout win specs.
  (* workflow inputs are closed histories: data, then one termination token *)
  Hypothesis Hwin : forall k, k < length win -> exists d s, nth k win [] = d ++ [E s] /\ term_free_m T d.
  (* [Good]: any property of the logs that occur in reachable states of THIS network (an invariant of mstep); the two
     machine hypotheses are asked of such logs only — asked of all logs they are false for real machines (a
     ScatterStep that met a non-list token, a combinator that raised, terminate before their ports did) *)
  Variable Good : spec -> log T -> Prop.
  Hypothesis HGood : forall ch st i sp l,
    mexec T spec s_ins outs done accept win specs (minit T spec specs) ch = Some st ->
    nth_error specs i = Some sp -> nth_error st i = Some l -> Good sp l.
  (* (b) a machine terminates only once it has consumed the termination token of every input *)
  Hypothesis Hall : forall sp l, Good sp l -> done sp l = true ->
    forall j, j < length (s_ins sp) -> port_closed T j l = true.
  (* (c) order-insensitivity *)
  Hypothesis Hins : forall sp l1 l2, Good sp l1 -> Good sp l2 -> done sp l1 = true -> done sp l2 = true ->
    (forall j, j < length (s_ins sp) -> Permutation (proj T j l1) (proj T j l2)) ->
    forall j, Permutation (nth j (outs sp l1) []) (nth j (outs sp l2) []).

  Notation cont := (mcontent T spec outs win specs).
  Notation exe := (mexec T spec s_ins outs done accept win specs).

  Lemma firstn_closed (d : list (mtok T)) s c :
    term_free_m T d -> existsb (is_e T) (firstn c (d ++ [E s])) = true -> firstn c (d ++ [E s]) = d ++ [E s].
  Proof.
    intros Hd He. destruct (Nat.le_gt_cases c (length d)) as [Hle|Hgt].
    - exfalso. rewrite firstn_app in He. replace (c - length d) with 0 in He by lia. simpl in He.
      rewrite app_nil_r in He. unfold term_free_m in Hd.
      assert (existsb (is_e T) (firstn c d) = false).
      { clear He. revert c Hle. induction d as [|x d IH]; intros [|c] H; simpl in *; auto; try lia.
        apply orb_false_iff in Hd. destruct Hd as [Hx Hd']. rewrite Hx. simpl. apply IH; auto. lia. }
      congruence.
    - apply firstn_all2. rewrite app_length. simpl. lia.
  Qed.

  (* a terminated step has consumed the whole (closed) history of each of its inputs *)
  Lemma consumed_all st i sp l j p d s :
    minv T spec s_ins outs win specs st -> nth_error specs i = Some sp -> nth_error st i = Some l ->
    nth_error (s_ins sp) j = Some p -> Good sp l -> done sp l = true -> cont st p = d ++ [E s] -> term_free_m T d ->
    proj T j l = cont st p.
  Proof.
    intros [_ I] Hsp Hl Hp Hg Hd Hc Hf. destruct (I _ _ _ _ _ Hsp Hl Hp) as [I1 _].
    assert (Hj : j < length (s_ins sp)) by (apply nth_error_Some; congruence).
    pose proof (Hall sp l Hg Hd j Hj) as Hcl. unfold port_closed in Hcl. rewrite I1 in Hcl |- *. rewrite Hc in Hcl |- *.
    apply firstn_closed; auto.
  Qed.

  Theorem mixed_bags : forall ch1 ch2 st1 st2,
    exe (minit T spec specs) ch1 = Some st1 -> exe (minit T spec specs) ch2 = Some st2 ->
    all_done T spec done specs st1 -> all_done T spec done specs st2 ->
    forall p, match p with SOut s _ => s < length specs | WIn k => k < length win end ->
      Permutation (cont st1 p) (cont st2 p).
  Proof.
    intros ch1 ch2 st1 st2 H1 H2 D1 D2.
    pose proof (reachable_inv T spec s_ins s_nout outs done accept win specs HC HW ch1 _ _
                  (minv_init T spec s_ins outs win specs) H1) as I1.
    pose proof (reachable_inv T spec s_ins s_nout outs done accept win specs HC HW ch2 _ _
                  (minv_init T spec s_ins outs win specs) H2) as I2.
    assert (G : forall n i sp l1 l2, i < n -> nth_error specs i = Some sp -> nth_error st1 i = Some l1 ->
                nth_error st2 i = Some l2 -> forall j, Permutation (nth j (outs sp l1) []) (nth j (outs sp l2) [])).
    { induction n as [|n IH]; intros i sp l1 l2 Hi Hsp Hl1 Hl2; [lia|].
      destruct (Nat.eq_dec i n) as [->|Hne]; [|apply (IH i); auto; lia].
      apply Hins; [eapply (HGood ch1); eauto|eapply (HGood ch2); eauto|eapply D1; eauto|eapply D2; eauto|].
      intros j Hj. destruct (nth_error (s_ins sp) j) as [p|] eqn:Hp; [|apply nth_error_None in Hp; lia].
      assert (Hin : In p (s_ins sp)) by (eapply nth_error_In; eauto).
      destruct HW as [_ W2]. pose proof (W2 n sp Hsp p Hin) as Hok.
      destruct HC as [_ [_ [C3 _]]].
      destruct p as [k|s jj]; simpl in Hok.
      - destruct (Hwin k Hok) as [d [s0 [Hk Hf]]].
        rewrite (consumed_all st1 n sp l1 j (WIn k) d s0 I1 Hsp Hl1 Hp (HGood ch1 _ _ _ _ H1 Hsp Hl1) (D1 _ _ _ Hsp Hl1) Hk Hf).
        rewrite (consumed_all st2 n sp l2 j (WIn k) d s0 I2 Hsp Hl2 Hp (HGood ch2 _ _ _ _ H2 Hsp Hl2) (D2 _ _ _ Hsp Hl2) Hk Hf).
        apply Permutation_refl.
      - destruct Hok as [Hs [sps [Hsps Hjj]]].
        destruct I1 as [Len1 I1']. destruct I2 as [Len2 I2'].
        destruct (nth_error st1 s) as [ls1|] eqn:E1; [|apply nth_error_None in E1; apply nth_error_Some_lt in Hsps; lia].
        destruct (nth_error st2 s) as [ls2|] eqn:E2; [|apply nth_error_None in E2; apply nth_error_Some_lt in Hsps; lia].
        pose proof (IH s sps ls1 ls2 Hs Hsps E1 E2 jj) as Hperm.
        assert (Cl : forall (st : mstate T) ls, nth_error st s = Some ls -> done sps ls = true ->
                     exists d s0, cont st (SOut s jj) = d ++ [E s0] /\ term_free_m T d).
        { intros st ls Hls Hd. simpl. rewrite Hsps, Hls.
          destruct HC as [_ [C2 _]]. apply (C3 sps ls); auto. apply nth_In. rewrite C2. exact Hjj. }
        destruct (Cl st1 ls1 E1 (D1 _ _ _ Hsps E1)) as [d1 [s1 [Hc1 Hf1]]].
        destruct (Cl st2 ls2 E2 (D2 _ _ _ Hsps E2)) as [d2 [s2 [Hc2 Hf2]]].
        rewrite (consumed_all st1 n sp l1 j (SOut s jj) d1 s1 (conj Len1 I1') Hsp Hl1 Hp (HGood ch1 _ _ _ _ H1 Hsp Hl1) (D1 _ _ _ Hsp Hl1) Hc1 Hf1).
        rewrite (consumed_all st2 n sp l2 j (SOut s jj) d2 s2 (conj Len2 I2') Hsp Hl2 Hp (HGood ch2 _ _ _ _ H2 Hsp Hl2) (D2 _ _ _ Hsp Hl2) Hc2 Hf2).
        simpl. rewrite Hsps, E1, E2. exact Hperm. }
    intros p Hp. destruct p as [k|s j]; simpl; [apply Permutation_refl|].
    destruct (nth_error specs s) as [sp|] eqn:Hsp; [|apply Permutation_refl].
    destruct I1 as [Len1 _]. destruct I2 as [Len2 _].
    destruct (nth_error st1 s) as [l1|] eqn:E1; [|apply nth_error_None in E1; lia].
    destruct (nth_error st2 s) as [l2|] eqn:E2; [|apply nth_error_None in E2; lia].
    apply (G (S s) s); auto.
  Qed.
End MixedBags.
