(* Net/Util.v — general lemmas used by the network proofs: list update, and uniform termination of a
   deterministic labelled transition system with the diamond property. *)
From Coq Require Import List Bool Arith Lia.
From SF Require Import Net.Model.
Import ListNotations.

Lemma upd_length {A} n (x : A) l : length (upd n x l) = length l.
Proof. revert n; induction l as [|y t IH]; intros [|k]; simpl; auto. Qed.

Lemma nth_error_upd_same {A} n (x : A) l : n < length l -> nth_error (upd n x l) n = Some x.
Proof.
  revert n; induction l as [|y t IH]; intros [|k] H; simpl in *; try lia; auto.
  apply IH; lia.
Qed.

Lemma nth_error_upd_other {A} n m (x : A) l : n <> m -> nth_error (upd n x l) m = nth_error l m.
Proof.
  revert n m; induction l as [|y t IH]; intros [|k] [|m] H; simpl; auto; try congruence.
Qed.

Lemma upd_comm {A} i j (x y : A) l : i <> j -> upd i x (upd j y l) = upd j y (upd i x l).
Proof.
  revert i j; induction l as [|z t IH]; intros [|i] [|j] H; simpl; auto; try congruence.
  f_equal. apply IH. congruence.
Qed.

Lemma nth_error_Some_lt {A} (l : list A) n x : nth_error l n = Some x -> n < length l.
Proof. intros H. apply nth_error_Some. congruence. Qed.

(* ------------------------------------------------------------------------------------------------
   A deterministic labelled system [step : S -> nat -> option S] with the diamond property: two different
   enabled labels commute.  If ONE run reaches a state where nothing is enabled, then EVERY run is at most
   that long, can be completed to exactly that state, and every maximal run ends there. *)
Section Diamond.
  Variable S : Type.
  Variable step : S -> nat -> option S.
  Hypothesis diamond : forall s i j a b, i <> j -> step s i = Some a -> step s j = Some b ->
    exists c, step a j = Some c /\ step b i = Some c.

  Fixpoint run (s : S) (l : list nat) : option S :=
    match l with
    | [] => Some s
    | i :: r => match step s i with Some s' => run s' r | None => None end
    end.

  Definition stuck (s : S) : Prop := forall i, step s i = None.

  Lemma peak : forall l s f j b,
    run s l = Some f -> stuck f -> step s j = Some b ->
    exists l2, run b l2 = Some f /\ Datatypes.S (length l2) = length l.
  Proof.
    induction l as [|i r IH]; intros s f j b Hr Hq Hj; simpl in Hr.
    - inversion Hr; subst. rewrite (Hq j) in Hj. discriminate.
    - destruct (step s i) as [a|] eqn:Hi; [|discriminate].
      destruct (Nat.eq_dec i j) as [->|Hne].
      + rewrite Hi in Hj. inversion Hj; subst. exists r. split; auto.
      + destruct (diamond s i j a b Hne Hi Hj) as [c [Hc1 Hc2]].
        destruct (IH a f j c Hr Hq Hc1) as [l3 [H3 Hl3]].
        exists (i :: l3). simpl. rewrite Hc2. split; auto.
  Qed.

  Theorem complete_any_run : forall l' s l f s'',
    run s l = Some f -> stuck f -> run s l' = Some s'' ->
    exists l2, run s'' l2 = Some f /\ length l' + length l2 = length l.
  Proof.
    induction l' as [|j r' IH]; intros s l f s'' Hr Hq Hr'; simpl in Hr'.
    - inversion Hr'; subst. exists l. split; auto.
    - destruct (step s j) as [b|] eqn:Hj; [|discriminate].
      destruct (peak l s f j b Hr Hq Hj) as [lb [Hb Hlb]].
      destruct (IH b lb f s'' Hb Hq Hr') as [l2 [H2 Hl2]].
      exists l2. split; auto. simpl. lia.
  Qed.

  Corollary run_bounded : forall s l f l' s'',
    run s l = Some f -> stuck f -> run s l' = Some s'' -> length l' <= length l.
  Proof.
    intros s l f l' s'' Hr Hq Hr'.
    destruct (complete_any_run l' s l f s'' Hr Hq Hr') as [l2 [_ H]]. lia.
  Qed.

  Corollary maximal_unique : forall s l f l' s'',
    run s l = Some f -> stuck f -> run s l' = Some s'' -> stuck s'' -> s'' = f /\ length l' = length l.
  Proof.
    intros s l f l' s'' Hr Hq Hr' Hq'.
    destruct (complete_any_run l' s l f s'' Hr Hq Hr') as [l2 [H2 Hl]].
    destruct l2 as [|k l2]; simpl in H2.
    - inversion H2. split; auto. simpl in Hl. lia.
    - rewrite (Hq' k) in H2. discriminate.
  Qed.
End Diamond.
