(* Net/MixedComb.v — CombinatorStep as a log machine, for ANY combinator tree of Comb/Model.v (dot product,
   cartesian product, nested), over Comb.Model's tokens (payload id, tag).  Definitions only.

   ANCHORS: streamflow.workflow.step.CombinatorStep.run (asyncio.wait(FIRST_COMPLETED) over all input ports,
   status = _reduce_statuses([status, token.value]) per termination token, COMPLETED on every data token,
   a new get() only for ports that have not terminated) + Comb.Model.run (combine() in arrival order, C02).
   An exception raised by combine() is not caught in CombinatorStep.run: the executor's _handle_exception closes
   the workflow; here the step's ports are then terminated CANCELLED. *)
From Coq Require Import List Bool Arith NArith.
From SF Require Import Base.Str Net.Model Net.MixedModel.
From SF Require Comb.Model.
Import ListNotations.
Local Open Scope string_scope. Local Open Scope list_scope.

Notation ctok := Comb.Model.tok.
Notation cmtok := (mtok ctok).

(* names: the combinator's item/port names, in the order of the step's input ports; output port k carries the
   tokens the emitted schemas bind to names[k] *)
Record cspec := mkC { c_tree : Comb.Model.outerc; c_names : list string; c_ins : list src }.
Definition cs_ins (sp : cspec) : list src := c_ins sp.
Definition cs_nout (sp : cspec) : nat := length (c_names sp).

Definition arrivals (names : list string) (l : log ctok) : list (string * ctok) :=
  flat_map (fun a => match snd a with D x => [(nth (fst a) names "", x)] | E _ => [] end) l.
Definition crun (sp : cspec) (l : log ctok) :=
  Comb.Model.run (c_tree sp) Comb.Model.init_state (arrivals (c_names sp) l).

Fixpoint slook (nm : string) (s : list (string * ctok)) : option ctok :=
  match s with [] => None | (k, t) :: r => if String.eqb k nm then Some t else slook nm r end.
Definition hist_data (sp : cspec) (l : log ctok) (nm : string) : list cmtok :=
  flat_map (fun sch => match slook nm sch with Some t => [D t] | None => [] end) (concat (fst (crun sp l))).

Definition all_closed (n : nat) (l : log ctok) : bool := forallb (fun j => port_closed ctok j l) (seq 0 n).
Definition raised (sp : cspec) (l : log ctok) : bool := match snd (crun sp l) with Some _ => true | None => false end.
Definition cs_done (sp : cspec) (l : log ctok) : bool := raised sp l || all_closed (length (c_ins sp)) l.

Fixpoint cstatus (st : status) (l : log ctok) : status :=
  match l with
  | [] => st
  | (_, D _) :: r => cstatus COMPLETED r
  | (_, E s) :: r => cstatus (reduce_o [Some st; Some s]) r
  end.
Definition final_tok (sp : cspec) (l : log ctok) : cmtok :=
  if raised sp l then E CANCELLED
  else E (get_status (cstatus SKIPPED l)
            (existsb (fun nm => match hist_data sp l nm with [] => true | _ => false end) (c_names sp))).

Definition cs_outs (sp : cspec) (l : log ctok) : list (list cmtok) :=
  map (fun nm => hist_data sp l nm ++ (if cs_done sp l then [final_tok sp l] else [])) (c_names sp).
Definition cs_accept (sp : cspec) (l : log ctok) (j : nat) : bool :=
  Nat.ltb j (length (c_ins sp)) && negb (port_closed ctok j l).
