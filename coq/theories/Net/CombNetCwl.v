(* Net/CombNetCwl.v — the operational dot-product stage (Net/CombNet.v) plugged into C29's network theorem
   (Cwl/Network.v, imported only): n scattered arrays -> DotProductCombinator as a log machine in a network, ANY
   interleaving of arrivals -> one job per combination -> GatherStep fed the size token and the job outputs in any
   legal order: the gathered list is the specification's. *)
From Coq Require Import List Bool Arith NArith Lia Permutation.
From SF Require Import Base.Str Tags.Model Net.Model Net.MixedModel Net.MixedComb Net.CombNet.
From SF Require Comb.Model Comb.Proofs Comb.Flat Gather.Model Cwl.Network.
Import ListNotations.

Section Stage.
  Variable items : list string.
  Variable t : tag.
  Variable jobp : list N -> string.
  Variable rows : list (list N).
  Variable cols : list (list ctok).
  Hypothesis items_nodup : NoDup items.
  Hypothesis items_ne : items <> [].
  Hypothesis t_ne : t <> [].
  Hypothesis Hlen : length cols = length items.
  Hypothesis Hrows : Cwl.Network.rows_ok items rows.
  (* the columns are what the n ScatterSteps deliver: port k carries (id of element i of array k, tag t.i) *)
  Hypothesis Hcols : Permutation (cn_full items cols) (Cwl.Network.srows items t 0 rows).

  Lemma stage_wf : Comb.Flat.wf items (cn_full items cols).
  Proof.
    apply (Comb.Flat.wf_perm items (Cwl.Network.srows items t 0 rows)); [apply Permutation_sym; exact Hcols|].
    apply Cwl.Network.srows_wf; assumption.
  Qed.

  Theorem stage_outputs : forall ch l l1 l2 p1 p2,
    mexec ctok cspec cs_ins cs_outs cs_done cs_accept (cn_win cols) (cn_specs items)
      (minit ctok cspec (cn_specs items)) ch = Some [l] ->
    all_done ctok cspec cs_done (cn_specs items) [l] ->
    let schemas := concat (fst (crun (cn_spec items) l)) in
    snd (crun (cn_spec items) l) = None /\
    Permutation (map (Cwl.Network.exec items jobp) schemas) (Cwl.Network.eres t jobp 0 rows) /\
    (Permutation (l1 ++ l2)
       (Gather.Model.OnSize (render t) (N.of_nat (length rows)) ::
        map Gather.Model.OnElem (map (Cwl.Network.exec items jobp) schemas)) ->
     p1 <> p2 -> (forall a, In a l2 -> Gather.Model.port_of a <> p1) ->
     let s := Gather.Model.gather_run 1
                (l1 ++ Gather.Model.OnTerm p1 Gather.Model.Completed :: l2 ++ [Gather.Model.OnTerm p2 Gather.Model.Completed]) in
     Gather.Model.gout (Gather.Model.gd s) = [Gather.Model.ListTok (render t) (Cwl.Network.eres t jobp 0 rows)] /\
     Gather.Model.gfinal s = Some Gather.Model.Completed).
  Proof.
    intros ch l l1 l2 p1 p2 H AD schemas.
    destruct (cn_done_perm items cols Hlen stage_wf ch l H AD) as [P [R F]].
    assert (P' : Permutation (arrivals items l) (Cwl.Network.srows items t 0 rows))
      by (eapply Permutation_trans; [exact P|exact Hcols]).
    destruct (Cwl.Network.combinator_jobs items t jobp items_nodup items_ne t_ne rows _ Hrows P') as [Hrun Hjobs].
    split; [exact R|]. split.
    - unfold schemas. rewrite F. exact Hjobs.
    - intros Hg Hne Hl2 s.
      destruct (Cwl.Network.scatter_network_dot items t jobp items_nodup items_ne t_ne rows (arrivals items l)
                  l1 l2 p1 p2 Hrows P') as [_ [A B]]; auto.
  Qed.
End Stage.
