(* Net/MixedCombProofs.v — CombinatorStep (any combinator tree of Comb/Model.v) honours the log-machine contract. *)
From Coq Require Import List Bool Arith NArith Lia.
From SF Require Import Base.Str Net.Model Net.Util Net.MixedModel Net.MixedComb.
From SF Require Comb.Model.
Import ListNotations.

Notation extc := (ext_m ctok).

Lemma extc_refl a : extc a a.
Proof. exists []. rewrite app_nil_r. reflexivity. Qed.

Lemma run_app_fst c : forall a b st, exists rest,
  fst (Comb.Model.run c st (a ++ b)) = fst (Comb.Model.run c st a) ++ rest.
Proof.
  induction a as [|[p t] a IH]; intros b st; simpl.
  - eexists. reflexivity.
  - destruct (Comb.Model.combine c st p t) as [[st1 out] err]. destruct err as [x|].
    + exists []. reflexivity.
    + destruct (IH b st1) as [rest Hr].
      destruct (Comb.Model.run c st1 (a ++ b)) as [o1 e1]. destruct (Comb.Model.run c st1 a) as [o2 e2].
      simpl in *. exists rest. rewrite Hr. reflexivity.
Qed.

Lemma hist_data_ext sp l a nm : extc (hist_data sp l nm) (hist_data sp (l ++ a) nm).
Proof.
  unfold hist_data, crun, arrivals. rewrite flat_map_app.
  destruct (run_app_fst (c_tree sp)
              (flat_map (fun a0 => match snd a0 with D x => [(nth (fst a0) (c_names sp) ""%string, x)] | E _ => [] end) l)
              (flat_map (fun a0 => match snd a0 with D x => [(nth (fst a0) (c_names sp) ""%string, x)] | E _ => [] end) a)
              Comb.Model.init_state) as [rest ->].
  rewrite concat_app, flat_map_app. eexists. reflexivity.
Qed.

Lemma ext_map_nth (f g : string -> list cmtok) : (forall nm, extc (f nm) (g nm)) ->
  forall names k, extc (nth k (map f names) []) (nth k (map g names) []).
Proof.
  intros H. induction names as [|n r IH]; intros [|k]; simpl; try apply extc_refl; auto.
Qed.

Lemma hist_data_tfree sp l nm : term_free_m ctok (hist_data sp l nm).
Proof.
  unfold hist_data, term_free_m. induction (concat (fst (crun sp l))) as [|s r IH]; simpl; auto.
  rewrite existsb_app, IH. destruct (slook nm s); reflexivity.
Qed.

Lemma forallb_false_ex {A} (f : A -> bool) l : forallb f l = false -> exists x, In x l /\ f x = false.
Proof.
  induction l as [|a l IH]; simpl; [discriminate|]. intros H. destruct (f a) eqn:Fa.
  - simpl in H. destruct (IH H) as [x [Hx Hf]]. exists x. auto.
  - exists a. auto.
Qed.

Theorem cs_contract : log_contract ctok cspec cs_ins cs_nout cs_outs cs_done cs_accept.
Proof.
  split; [|split; [|split; [|split]]].
  - intros sp l j t k Hnd _. unfold cs_outs. rewrite Hnd. apply ext_map_nth. intros nm.
    rewrite app_nil_r. destruct (hist_data_ext sp l [(j, t)] nm) as [rest ->].
    exists (rest ++ (if cs_done sp (l ++ [(j, t)]) then [final_tok sp (l ++ [(j, t)])] else [])).
    rewrite app_assoc. reflexivity.
  - intros sp l. unfold cs_outs, cs_nout. apply map_length.
  - intros sp l o Hd Ho. unfold cs_outs in Ho. rewrite Hd in Ho. apply in_map_iff in Ho. destruct Ho as [nm [<- _]].
    unfold final_tok. destruct (raised sp l); eexists; eexists; (split; [reflexivity|apply hist_data_tfree]).
  - intros sp l Hd. unfold cs_done in Hd. apply orb_false_iff in Hd. destruct Hd as [_ Hc].
    unfold all_closed in Hc. destruct (forallb_false_ex _ _ Hc) as [j [Hin Hj]].
    apply in_seq in Hin. exists j. split; [unfold cs_ins; lia|]. unfold cs_accept. rewrite Hj.
    replace (Nat.ltb j (length (c_ins sp))) with true by (symmetry; apply Nat.ltb_lt; lia). reflexivity.
  - intros sp l j H. unfold cs_accept in H. apply andb_true_iff in H. destruct H as [_ H].
    apply negb_true_iff in H. exact H.
Qed.
