(* Net/Proofs.v — lemmas for C04/C05: status algebra, the round contract of the tag-grouping steps, the
   diamond property of the network, invariants, the canonical (topological) schedule, and the
   termination / determinacy theorem for every schedule. *)
From Coq Require Import List Bool Arith Lia ZArith.
From SF Require Import Base.Str Net.Model Net.Util.
Import ListNotations.
Local Open Scope list_scope.

(* ================================================================== statuses *)
Lemma reduce_go_failed : forall l nsk rcv len,
  In (Some FAILED) l -> ~ In (Some CANCELLED) l -> reduce_go l nsk rcv len = FAILED.
Proof.
  induction l as [|a l IH]; intros nsk rcv len Hin Hno; [destruct Hin|].
  destruct Hin as [->|Hin]; [reflexivity|].
  assert (Hno' : ~ In (Some CANCELLED) l) by (intro; apply Hno; right; auto).
  destruct a as [[]|]; simpl; auto; try (apply IH; auto).
  exfalso. apply Hno. left. reflexivity.
Qed.

Lemma reduce_failed_absorbing : forall l,
  In (Some FAILED) l -> ~ In (Some CANCELLED) l -> reduce_o l = FAILED.
Proof. intros. apply reduce_go_failed; auto. Qed.

Lemma reduce_go_bad : forall l nsk rcv len,
  (reduce_go l nsk rcv len = FAILED \/ reduce_go l nsk rcv len = CANCELLED) <->
  (In (Some FAILED) l \/ In (Some CANCELLED) l).
Proof.
  induction l as [|a l IH]; intros nsk rcv len.
  - simpl. destruct rcv; [|destruct (Nat.eqb nsk len)]; split; intros [H|H]; try discriminate; destruct H.
  - specialize (IH nsk rcv len) as IH0.
    destruct a as [[]|]; simpl;
      try (rewrite IH; split; [intros [H|H]; [left|right]; right; exact H
                              |intros [[H|H]|[H|H]]; try discriminate; [left|right]; exact H]).
    + split; intros _; [left; left|left]; reflexivity.
    + split; intros _; [right; left|right]; reflexivity.
Qed.

Lemma reduce_bad_iff : forall l,
  (reduce_o l = FAILED \/ reduce_o l = CANCELLED) <-> (In (Some FAILED) l \/ In (Some CANCELLED) l).
Proof. intros. apply reduce_go_bad. Qed.

Lemma reduce_go_range : forall l nsk rcv len,
  In (reduce_go l nsk rcv len) [SKIPPED; COMPLETED; FAILED; CANCELLED; RECOVERED].
Proof.
  induction l as [|a l IH]; intros; simpl.
  - destruct rcv; [|destruct (Nat.eqb nsk len)]; simpl; auto 6.
  - destruct a as [[]|]; simpl; auto 6; apply IH.
Qed.

Lemma get_status_terminal : forall l e, terminal (get_status (reduce_o l) e) = true.
Proof.
  intros l e. pose proof (reduce_go_range l 0 false (length l)) as H. unfold reduce_o.
  simpl in H. destruct H as [<-|[<-|[<-|[<-|[<-|[]]]]]]; destruct e; reflexivity.
Qed.

Lemma get_status_failed : forall e, get_status FAILED e = FAILED.
Proof. reflexivity. Qed.

(* a step that reads a FAILED termination token (and no CANCELLED one) ends FAILED *)
Lemma failed_round_status : forall heads e,
  In (Term FAILED) heads -> ~ In (Some CANCELLED) (map tok_status heads) ->
  get_status (reduce_o (map tok_status heads)) e = FAILED.
Proof.
  intros heads e Hin Hno. rewrite reduce_failed_absorbing; auto.
  change (Some FAILED) with (tok_status (Term FAILED)). apply in_map. exact Hin.
Qed.

(* ================================================================== the tag-grouping round honours the contract *)
Definition term_free (l : list tok) : Prop := existsb is_term l = false.

Lemma term_free_app a b : term_free a -> term_free b -> term_free (a ++ b).
Proof. unfold term_free. intros Ha Hb. rewrite existsb_app, Ha, Hb. reflexivity. Qed.

Lemma zip_app_length : forall a b, length a = length b -> length (zip_app a b) = length a.
Proof.
  induction a as [|x a IH]; intros [|y b] H; simpl in *; try discriminate; auto.
Qed.

Lemma zip_app_In : forall a b l, length a = length b -> In l (zip_app a b) ->
  exists la lb, In la a /\ In lb b /\ l = la ++ lb.
Proof.
  induction a as [|x a IH]; intros [|y b] l H Hin; simpl in *; try discriminate; [destruct Hin|].
  destruct Hin as [<-|Hin].
  - exists x, y. auto.
  - injection H as H. destruct (IH b l H Hin) as [la [lb [H1 [H2 H3]]]]. exists la, lb. auto.
Qed.

Lemma repeat_In {A} (x y : A) n : In y (repeat x n) -> y = x.
Proof. induction n; simpl; intros []; auto. Qed.

Lemma emit_tag_ok : forall k nout g inner o,
  emit_tag k nout g inner = Some o ->
  (match k with KCond _ _ fwd _ => length fwd = nout | _ => True end) ->
  length o = nout /\ forall d, In d o -> term_free d.
Proof.
  intros k nout g inner o H Hk. destruct k as [add fail|md rm fwd skip]; simpl in H.
  - destruct (mem_str g fail); [discriminate|]. inversion H; subst. split; [apply repeat_length|].
    intros d Hd. apply repeat_In in Hd. subst. reflexivity.
  - destruct (Z.eqb (Z.modulo (sum_vals inner) md) rm); inversion H; subst.
    + split; [rewrite map_length; auto|]. intros d Hd. apply in_map_iff in Hd. destruct Hd as [i [<- _]].
      destruct (inner_get i inner) as [[g' v|s]|]; reflexivity.
    + split; [apply repeat_length|]. intros d Hd. apply repeat_In in Hd. subst. destruct skip; reflexivity.
Qed.

Lemma process_tags_ok : forall k nin nout keys m acc m' o b,
  (match k with KCond _ _ fwd _ => length fwd = nout | _ => True end) ->
  length acc = nout -> (forall d, In d acc -> term_free d) ->
  process_tags k nin nout keys m acc = (m', o, b) ->
  length o = nout /\ forall d, In d o -> term_free d.
Proof.
  intros k nin nout keys. induction keys as [|g r IH]; intros m acc m' o b Hk Hl Hf H; simpl in H.
  - inversion H; subst. auto.
  - destruct (lookup_key g m) as [inner|]; [|eapply IH; eauto].
    destruct (Nat.eqb (length inner) nin); [|eapply IH; eauto].
    destruct (emit_tag k nout g inner) as [e|] eqn:He.
    + destruct (emit_tag_ok _ _ _ _ _ He Hk) as [Hel Hef].
      eapply IH; [exact Hk| | |exact H].
      * rewrite zip_app_length; congruence.
      * intros d Hd. apply zip_app_In in Hd; [|congruence].
        destruct Hd as [la [lb [H1 [H2 ->]]]]. apply term_free_app; auto.
    + inversion H; subst. auto.
Qed.

Lemma tg_contract : fire_contract imap tgspec t_nout tg_fire_spec.
Proof.
  intros sp l own heads l' o t H. unfold tg_fire_spec, tg_fire in H.
  assert (Hk : match t_kind sp with KCond _ _ fwd _ => length fwd = t_nout sp | _ => True end).
  { unfold t_nout. destruct (t_kind sp); auto. }
  destruct (existsb is_term heads) eqn:Ht.
  - inversion H; subst. split; [intros _; discriminate|]. split; [apply repeat_length|].
    intros d Hd. apply repeat_In in Hd. subst. reflexivity.
  - destruct (process_tags (t_kind sp) (length (t_ins sp)) (t_nout sp)
                (map fst (group_by_tag 0 heads l)) (group_by_tag 0 heads l) (repeat [] (t_nout sp)))
      as [[m2 o2] b] eqn:Hp.
    assert (Hok : length o2 = t_nout sp /\ forall d, In d o2 -> term_free d).
    { eapply process_tags_ok; [exact Hk| | |exact Hp]; [apply repeat_length|].
      intros d Hd. apply repeat_In in Hd. subst. reflexivity. }
    destruct b; inversion H; subst; (split; [intros; discriminate|exact Hok]).
Qed.

(* ================================================================== the network *)
Definition ext (a b : list tok) : Prop := exists c, b = a ++ c.

Lemma ext_refl a : ext a a.
Proof. exists []. rewrite app_nil_r. reflexivity. Qed.
Lemma ext_trans a b c : ext a b -> ext b c -> ext a c.
Proof. intros [x ->] [y ->]. exists (x ++ y). rewrite app_assoc. reflexivity. Qed.
Lemma ext_nil a : ext [] a.
Proof. exists a. reflexivity. Qed.

Lemma ext_nth a b r d : ext a b -> r < length a -> r < length b /\ nth r b d = nth r a d.
Proof. intros [c ->] H. rewrite app_length, app_nth1; auto. split; auto. lia. Qed.

Lemma zip_app_ext : forall a o j, ext (nth j a []) (nth j (zip_app a o) []).
Proof.
  induction a as [|x a IH]; intros [|y o] [|j]; simpl; try apply ext_refl; try apply ext_nil.
  - exists y. reflexivity.
  - apply IH.
Qed.

Lemma add_term_ext : forall t o j, ext (nth j o []) (nth j (add_term t o) []).
Proof.
  intros [s|] o; simpl; [|intros; apply ext_refl].
  induction o as [|x o IH]; intros [|j]; simpl; try apply ext_refl; [|apply IH].
  exists [Term s]. reflexivity.
Qed.

Lemma existsb_nth {A} (f : A -> bool) l d : existsb f l = true -> exists r, r < length l /\ f (nth r l d) = true.
Proof.
  induction l as [|x l IH]; simpl; [discriminate|]. intros H. apply orb_true_iff in H. destruct H as [H|H].
  - exists 0. split; auto. lia.
  - destruct (IH H) as [r [Hr Hf]]. exists (S r). split; auto. lia.
Qed.

Lemma nth_existsb {A} (f : A -> bool) l d r : r < length l -> f (nth r l d) = true -> existsb f l = true.
Proof. intros Hr Hf. apply existsb_exists. exists (nth r l d). split; auto. apply nth_In. exact Hr. Qed.

Section NetProofs.
  Variable L : Type.
  Variable spec : Type.
  Variable s_ins : spec -> list src.
  Variable s_nout : spec -> nat.
  Variable fire : spec -> L -> list (list tok) -> list tok -> L * list (list tok) * option status.
  Variable init_loc : spec -> L.
  Variable win : list (list tok).
  Variable specs : list spec.
  Hypothesis Hc : fire_contract L spec s_nout fire.
  Hypothesis Hwf : wf_net spec s_ins s_nout win specs.

  Notation cont := (content L win).
  Notation enab := (enabled L spec s_ins win).
  Notation fird := (fired L spec s_ins fire win).
  Notation nst := (nstep L spec s_ins fire win specs).
  Notation exe := (exec L spec s_ins fire win specs).
  Notation init := (init_state L spec s_nout init_loc specs).

  Definition grows (st st' : nstate L) : Prop := forall p, ext (cont st p) (cont st' p).

  Lemma fired_souts_ext st sp x j : ext (nth j (souts x) []) (nth j (souts (fird st sp x)) []).
  Proof.
    unfold fired. destruct (fire sp (loc x) (souts x) _) as [[l' o] t]. simpl.
    eapply ext_trans; [apply zip_app_ext|apply add_term_ext].
  Qed.

  Lemma upd_grows st i x x' :
    nth_error st i = Some x -> (forall j, ext (nth j (souts x) []) (nth j (souts x') [])) ->
    grows st (upd i x' st).
  Proof.
    intros Hx Hs [k|s j]; simpl; [apply ext_refl|].
    destruct (Nat.eq_dec i s) as [->|Hne].
    - rewrite nth_error_upd_same by (eapply nth_error_Some_lt; eauto). rewrite Hx. apply Hs.
    - rewrite nth_error_upd_other by auto. apply ext_refl.
  Qed.

  Lemma enabled_grows st st' sp x : grows st st' -> enab st sp x = true -> enab st' sp x = true.
  Proof.
    unfold enabled. intros Hg. destruct (sterm x); [auto|]. rewrite !forallb_forall.
    intros H p Hp. specialize (H p Hp). apply Nat.ltb_lt in H. apply Nat.ltb_lt.
    destruct (Hg p) as [c ->]. rewrite app_length. lia.
  Qed.

  Lemma enabled_lt st sp x p : enab st sp x = true -> In p (s_ins sp) -> rounds x < length (cont st p).
  Proof.
    unfold enabled. destruct (sterm x); [discriminate|]. rewrite forallb_forall. intros H Hp.
    apply Nat.ltb_lt. auto.
  Qed.

  Lemma enabled_notterm st sp x : enab st sp x = true -> sterm x = None.
  Proof. unfold enabled. destruct (sterm x); [discriminate|auto]. Qed.

  Lemma fired_grows st st' sp x : grows st st' -> enab st sp x = true -> fird st' sp x = fird st sp x.
  Proof.
    intros Hg He. unfold fired.
    replace (map (fun p => nth (rounds x) (cont st' p) (Term WAITING)) (s_ins sp))
       with (map (fun p => nth (rounds x) (cont st p) (Term WAITING)) (s_ins sp)); [reflexivity|].
    apply map_ext_in. intros p Hp. symmetry.
    apply (ext_nth _ _ _ _ (Hg p)). eapply enabled_lt; eauto.
  Qed.

  Lemma nstep_inv st i st' : nst st i = Some st' ->
    exists sp x, nth_error specs i = Some sp /\ nth_error st i = Some x /\ enab st sp x = true /\
                 st' = upd i (fird st sp x) st.
  Proof.
    unfold nstep. destruct (nth_error specs i) as [sp|]; [|discriminate].
    destruct (nth_error st i) as [x|]; [|discriminate].
    destruct (enab st sp x) eqn:He; [|discriminate]. intros H. inversion H. exists sp, x. auto.
  Qed.

  Lemma nstep_grows st i st' : nst st i = Some st' -> grows st st'.
  Proof.
    intros H. destruct (nstep_inv _ _ _ H) as [sp [x [_ [Hx [_ ->]]]]].
    eapply upd_grows; eauto. intros j. apply fired_souts_ext.
  Qed.

  (* two different enabled steps commute *)
  Lemma net_diamond : forall st i j a b, i <> j -> nst st i = Some a -> nst st j = Some b ->
    exists c, nst a j = Some c /\ nst b i = Some c.
  Proof.
    intros st i j a b Hne Ha Hb.
    pose proof (nstep_grows _ _ _ Ha) as Ga. pose proof (nstep_grows _ _ _ Hb) as Gb.
    destruct (nstep_inv _ _ _ Ha) as [spi [xi [Hsi [Hxi [Hei ->]]]]].
    destruct (nstep_inv _ _ _ Hb) as [spj [xj [Hsj [Hxj [Hej ->]]]]].
    exists (upd j (fird st spj xj) (upd i (fird st spi xi) st)). split.
    - unfold nstep. rewrite Hsj, nth_error_upd_other, Hxj by auto.
      rewrite (enabled_grows _ _ _ _ Ga Hej), (fired_grows _ _ _ _ Ga Hej). reflexivity.
    - unfold nstep. rewrite Hsi, nth_error_upd_other, Hxi by auto.
      rewrite (enabled_grows _ _ _ _ Gb Hei), (fired_grows _ _ _ _ Gb Hei).
      rewrite upd_comm by auto. reflexivity.
  Qed.

  Lemma exec_run : forall ch st, exe st ch = run (nstate L) nst st ch.
  Proof. induction ch as [|i r IH]; intros st; simpl; auto. destruct (nst st i); auto. Qed.

  Lemma exec_app : forall l1 l2 st st1, exe st l1 = Some st1 -> exe st (l1 ++ l2) = exe st1 l2.
  Proof.
    induction l1 as [|i r IH]; intros l2 st st1 H; simpl in *.
    - inversion H. reflexivity.
    - destruct (nst st i); [|discriminate]. eapply IH; eauto.
  Qed.

  (* ---------------------------------------------------------------- invariants *)
  Definition out_ok (t : option status) (l : list tok) : Prop :=
    match t with None => term_free l | Some s => exists d, l = d ++ [Term s] /\ term_free d end.

  Definition inv1 (st : nstate L) : Prop :=
    length st = length specs /\
    forall i sp x, nth_error specs i = Some sp -> nth_error st i = Some x ->
      length (souts x) = s_nout sp /\ forall l, In l (souts x) -> out_ok (sterm x) l.

  Definition inv2 (st : nstate L) : Prop :=
    forall i sp x, nth_error specs i = Some sp -> nth_error st i = Some x -> sterm x = None ->
      forall p, In p (s_ins sp) -> forall r, r < rounds x ->
        r < length (cont st p) /\ is_term (nth r (cont st p) (Term WAITING)) = false.

  Lemma fired_facts st sp x : enab st sp x = true ->
    length (souts x) = s_nout sp -> (forall l, In l (souts x) -> term_free l) ->
    let x' := fird st sp x in
    rounds x' = S (rounds x) /\ length (souts x') = s_nout sp /\
    (forall l, In l (souts x') -> out_ok (sterm x') l) /\
    (sterm x' = None -> forall p, In p (s_ins sp) -> is_term (nth (rounds x) (cont st p) (Term WAITING)) = false).
  Proof.
    intros He Hl Hf. unfold fired.
    destruct (fire sp (loc x) (souts x) (map (fun p => nth (rounds x) (cont st p) (Term WAITING)) (s_ins sp)))
      as [[l' o] t] eqn:Hfire. simpl.
    destruct (Hc _ _ _ _ _ _ _ Hfire) as [C1 [C2 C3]].
    assert (Hz : forall l, In l (zip_app (souts x) o) -> term_free l).
    { intros l Hin. apply zip_app_In in Hin; [|congruence]. destruct Hin as [la [lb [H1 [H2 ->]]]].
      apply term_free_app; auto. apply C3. exact H2. }
    split; [reflexivity|]. split; [|split].
    - destruct t; simpl; [rewrite map_length|]; rewrite zip_app_length; congruence.
    - intros l Hin. destruct t as [s|]; simpl in *.
      + apply in_map_iff in Hin. destruct Hin as [d [<- Hd]]. exists d. split; auto.
      + apply Hz. exact Hin.
    - intros Ht p Hp. subst t.
      destruct (existsb is_term (map (fun p => nth (rounds x) (cont st p) (Term WAITING)) (s_ins sp))) eqn:E.
      + exfalso. apply C1; auto.
      + destruct (is_term (nth (rounds x) (cont st p) (Term WAITING))) eqn:E2; [|reflexivity].
        assert (existsb is_term (map (fun p => nth (rounds x) (cont st p) (Term WAITING)) (s_ins sp)) = true).
        { apply existsb_exists. eexists. split; [apply in_map; exact Hp|exact E2]. }
        congruence.
  Qed.

  Lemma inv_step st i st' : inv1 st -> inv2 st -> nst st i = Some st' -> inv1 st' /\ inv2 st'.
  Proof.
    intros [Hlen H1] H2 Hs. pose proof (nstep_grows _ _ _ Hs) as G.
    destruct (nstep_inv _ _ _ Hs) as [sp [x [Hsp [Hx [He ->]]]]].
    destruct (H1 _ _ _ Hsp Hx) as [Hxl Hxo].
    pose proof (enabled_notterm _ _ _ He) as Hnt.
    assert (Hxf : forall l, In l (souts x) -> term_free l).
    { intros l Hl. specialize (Hxo l Hl). rewrite Hnt in Hxo. exact Hxo. }
    destruct (fired_facts st sp x He Hxl Hxf) as [F1 [F2 [F3 F4]]].
    assert (Hi : i < length st) by (eapply nth_error_Some_lt; eauto).
    split.
    - split; [rewrite upd_length; auto|]. intros k spk xk Hspk Hxk.
      destruct (Nat.eq_dec i k) as [<-|Hne].
      + rewrite nth_error_upd_same in Hxk by auto. inversion Hxk; subst xk.
        assert (spk = sp) by congruence. subst spk. split; auto.
      + rewrite nth_error_upd_other in Hxk by auto. eapply H1; eauto.
    - intros k spk xk Hspk Hxk Hnk p Hp r Hr.
      destruct (Nat.eq_dec i k) as [<-|Hne].
      + rewrite nth_error_upd_same in Hxk by auto. inversion Hxk; subst xk.
        assert (spk = sp) by congruence. subst spk.
        rewrite F1 in Hr.
        assert (Hold : r < length (cont st p) /\ is_term (nth r (cont st p) (Term WAITING)) = false).
        { destruct (Nat.eq_dec r (rounds x)) as [->|Hd].
          - split; [eapply enabled_lt; eauto|apply F4; auto].
          - eapply H2; eauto. lia. }
        destruct Hold as [Ho1 Ho2].
        destruct (ext_nth _ _ r (Term WAITING) (G p) Ho1) as [E1 E2]. rewrite E2. auto.
      + rewrite nth_error_upd_other in Hxk by auto.
        destruct (H2 _ _ _ Hspk Hxk Hnk p Hp r Hr) as [Ho1 Ho2].
        destruct (ext_nth _ _ r (Term WAITING) (G p) Ho1) as [E1 E2]. rewrite E2. auto.
  Qed.

  Lemma nth_error_map_inv {A B} (f : A -> B) l i y : nth_error (map f l) i = Some y ->
    exists x, nth_error l i = Some x /\ y = f x.
  Proof.
    revert i; induction l as [|a l IH]; intros [|i] H; simpl in *; try discriminate.
    - inversion H. eauto.
    - apply IH. exact H.
  Qed.

  Lemma inv_init : inv1 init /\ inv2 init.
  Proof.
    unfold init_state. split; [split|].
    - apply map_length.
    - intros i sp x Hsp Hx. apply nth_error_map_inv in Hx. destruct Hx as [sp' [Hsp' ->]].
      assert (sp' = sp) by congruence. subst. simpl. split; [apply repeat_length|].
      intros l Hl. apply repeat_In in Hl. subst. reflexivity.
    - intros i sp x Hsp Hx _ p Hp r Hr. apply nth_error_map_inv in Hx. destruct Hx as [sp' [_ ->]].
      simpl in Hr. lia.
  Qed.

  (* ---------------------------------------------------------------- the canonical schedule *)
  Definition has_term (l : list tok) : Prop := existsb is_term l = true.

  Lemma enabled_when_complete st i sp x :
    inv2 st -> nth_error specs i = Some sp -> nth_error st i = Some x -> sterm x = None ->
    (forall p, In p (s_ins sp) -> has_term (cont st p)) -> enab st sp x = true.
  Proof.
    intros H2 Hsp Hx Hnt Hall. unfold enabled. rewrite Hnt. apply forallb_forall. intros p Hp.
    apply Nat.ltb_lt. destruct (existsb_nth _ _ (Term WAITING) (Hall p Hp)) as [r [Hr Hf]].
    destruct (Nat.lt_ge_cases r (rounds x)) as [Hlt|Hge]; [|lia].
    destruct (H2 _ _ _ Hsp Hx Hnt p Hp r Hlt) as [_ E]. congruence.
  Qed.

  Definition not_self (k : nat) (p : src) : Prop := match p with SOut s _ => s <> k | WIn _ => True end.

  Lemma content_upd_other st k x' p : not_self k p -> cont (upd k x' st) p = cont st p.
  Proof.
    destruct p as [q|s j]; simpl; auto. intros H. rewrite nth_error_upd_other by auto. reflexivity.
  Qed.

  Lemma run_step_to_term : forall n st k sp x p0 t0,
    inv1 st -> inv2 st -> nth_error specs k = Some sp -> nth_error st k = Some x -> sterm x = None ->
    (forall p, In p (s_ins sp) -> not_self k p /\ has_term (cont st p)) ->
    In p0 (s_ins sp) -> t0 < length (cont st p0) -> is_term (nth t0 (cont st p0) (Term WAITING)) = true ->
    t0 < n + rounds x ->
    exists m st', exe st (repeat k m) = Some st' /\ inv1 st' /\ inv2 st' /\
      (forall j, j <> k -> nth_error st' j = nth_error st j) /\
      (exists x', nth_error st' k = Some x' /\ sterm x' <> None).
  Proof.
    induction n as [|n IH]; intros st k sp x p0 t0 I1 I2 Hsp Hx Hnt Hall Hp0 Ht0 Hterm Hlt.
    - exfalso. simpl in Hlt. destruct (I2 _ _ _ Hsp Hx Hnt p0 Hp0 t0 Hlt) as [_ E]. congruence.
    - assert (He : enab st sp x = true).
      { eapply enabled_when_complete; eauto. intros p Hp. apply Hall. exact Hp. }
      assert (Hs : nst st k = Some (upd k (fird st sp x) st)).
      { unfold nstep. rewrite Hsp, Hx, He. reflexivity. }
      destruct (inv_step _ _ _ I1 I2 Hs) as [I1' I2'].
      assert (Hk : k < length st) by (eapply nth_error_Some_lt; eauto).
      set (x1 := fird st sp x) in *. set (st1 := upd k x1 st) in *.
      assert (Hx1 : nth_error st1 k = Some x1) by (apply nth_error_upd_same; auto).
      destruct (sterm x1) as [s|] eqn:Hs1.
      + exists 1, st1. simpl. rewrite Hs. split; auto. split; auto. split; auto. split.
        * intros j Hj. apply nth_error_upd_other. auto.
        * exists x1. split; auto. congruence.
      + assert (Hr1 : rounds x1 = S (rounds x)).
        { unfold x1, fired. destruct (fire sp (loc x) (souts x) _) as [[? ?] ?]. reflexivity. }
        assert (Hc1 : forall p, In p (s_ins sp) -> cont st1 p = cont st p).
        { intros p Hp. apply content_upd_other. apply Hall. exact Hp. }
        destruct (IH st1 k sp x1 p0 t0 I1' I2' Hsp Hx1 Hs1) as [m [st' [E [J1 [J2 [J3 J4]]]]]].
        * intros p Hp. rewrite (Hc1 p Hp). apply Hall. exact Hp.
        * exact Hp0.
        * rewrite (Hc1 p0 Hp0). exact Ht0.
        * rewrite (Hc1 p0 Hp0). exact Hterm.
        * rewrite Hr1. lia.
        * exists (S m), st'. simpl. rewrite Hs. split; auto. split; auto. split; auto. split; auto.
          intros j Hj. rewrite (J3 j Hj). apply nth_error_upd_other. auto.
  Qed.

  Lemma terminated_out_has_term st s sp x j :
    inv1 st -> nth_error specs s = Some sp -> nth_error st s = Some x -> sterm x <> None -> j < s_nout sp ->
    has_term (cont st (SOut s j)).
  Proof.
    intros [_ H1] Hsp Hx Ht Hj. simpl. rewrite Hx. destruct (H1 _ _ _ Hsp Hx) as [Hl Ho].
    assert (Hin : In (nth j (souts x) []) (souts x)) by (apply nth_In; lia).
    specialize (Ho _ Hin). destruct (sterm x) as [s0|]; [|congruence].
    destruct Ho as [d [-> _]]. unfold has_term. rewrite existsb_app. simpl. apply orb_true_r.
  Qed.

  Lemma canonical_prefix : forall k, k <= length specs ->
    exists l st, exe init l = Some st /\ inv1 st /\ inv2 st /\
      forall i x, i < k -> nth_error st i = Some x -> sterm x <> None.
  Proof.
    induction k as [|k IH]; intros Hk.
    - exists [], init. destruct inv_init. simpl. split; auto. split; auto. split; auto. intros; lia.
    - destruct IH as [l [st [E [I1 [I2 Hdone]]]]]; [lia|].
      destruct (nth_error specs k) as [sp|] eqn:Hsp; [|apply nth_error_None in Hsp; lia].
      destruct (nth_error st k) as [x|] eqn:Hx;
        [|apply nth_error_None in Hx; destruct I1 as [Hl _]; lia].
      destruct (sterm x) as [s|] eqn:Hnt.
      + exists l, st. split; auto. split; auto. split; auto. intros i xi Hi Hxi.
        destruct (Nat.eq_dec i k) as [->|Hne]; [|apply (Hdone i xi); auto; lia].
        rewrite Hx in Hxi. inversion Hxi; subst. congruence.
      + destruct Hwf as [Hw1 Hw2]. destruct (Hw2 _ _ Hsp) as [Hne Hsrc].
        assert (Hall : forall p, In p (s_ins sp) -> not_self k p /\ has_term (cont st p)).
        { intros p Hp. specialize (Hsrc p Hp). destruct p as [q|s j]; simpl in Hsrc.
          - split; [exact I|]. simpl. apply Hw1. exact Hsrc.
          - destruct Hsrc as [Hs [sps [Hsps Hj]]]. split; [simpl; lia|].
            destruct (nth_error st s) as [xs|] eqn:Hxs;
              [|apply nth_error_None in Hxs; destruct I1 as [Hl _]; lia].
            eapply terminated_out_has_term; eauto. }
        destruct (s_ins sp) as [|p0 rest] eqn:Hins; [congruence|].
        destruct (Hall p0 (or_introl eq_refl)) as [_ Hp0t].
        destruct (existsb_nth _ _ (Term WAITING) Hp0t) as [t0 [Ht0 Hterm]].
        destruct (run_step_to_term (S t0) st k sp x p0 t0 I1 I2 Hsp Hx Hnt) as [m [st' [E' [J1 [J2 [J3 [x' [J4 J5]]]]]]]].
        * rewrite Hins. exact Hall.
        * rewrite Hins. left. reflexivity.
        * exact Ht0.
        * exact Hterm.
        * lia.
        * exists (l ++ repeat k m), st'. split; [rewrite (exec_app _ _ _ _ E); exact E'|].
          split; auto. split; auto. intros i xi Hi Hxi.
          destruct (Nat.eq_dec i k) as [->|Hne2].
          -- rewrite J4 in Hxi. inversion Hxi; subst. exact J5.
          -- rewrite (J3 i Hne2) in Hxi. apply (Hdone i xi); auto. lia.
  Qed.

  Lemma all_terminated_stuck st : length st = length specs ->
    (forall i x, nth_error st i = Some x -> sterm x <> None) -> forall i, nst st i = None.
  Proof.
    intros Hl H i. unfold nstep. destruct (nth_error specs i) as [sp|]; auto.
    destruct (nth_error st i) as [x|] eqn:Hx; auto. specialize (H i x Hx).
    unfold enabled. destruct (sterm x); [reflexivity|congruence].
  Qed.

  (* every port history of the final state: data tokens, then exactly one termination token *)
  Definition closed_outputs (st : nstate L) : Prop :=
    forall x, In x st -> exists s, sterm x = Some s /\
      forall l, In l (souts x) -> exists d, l = d ++ [Term s] /\ term_free d.

  Theorem net_terminates :
    exists n f,
      closed_outputs f /\ (forall i, nst f i = None) /\
      (exists l, exe init l = Some f /\ length l = n) /\
      forall ch st, exe init ch = Some st ->
        length ch <= n /\
        (exists ch2, exe st ch2 = Some f /\ length ch + length ch2 = n) /\
        ((forall i, nst st i = None) -> st = f /\ length ch = n).
  Proof.
    destruct (canonical_prefix (length specs) (le_n _)) as [l [f [E [I1 [I2 Hdone]]]]].
    assert (Hall : forall i x, nth_error f i = Some x -> sterm x <> None).
    { intros i x Hx. apply (Hdone i x); auto. destruct I1 as [Hl _]. rewrite <- Hl.
      eapply nth_error_Some_lt; eauto. }
    assert (Hstuck : forall i, nst f i = None) by (apply all_terminated_stuck; [apply I1|exact Hall]).
    exists (length l), f. split; [|split; [exact Hstuck|split; [eauto|]]].
    - intros x Hx. apply In_nth_error in Hx. destruct Hx as [i Hi].
      pose proof (Hall i x Hi) as Ht. destruct (sterm x) as [s|] eqn:Hs; [|congruence].
      exists s. split; auto. intros l0 Hl0.
      destruct (nth_error specs i) as [sp|] eqn:Hsp.
      + destruct I1 as [_ H1]. destruct (H1 _ _ _ Hsp Hi) as [_ Ho]. specialize (Ho l0 Hl0).
        rewrite Hs in Ho. exact Ho.
      + apply nth_error_None in Hsp. apply nth_error_Some_lt in Hi. destruct I1 as [Hl _]. lia.
    - intros ch st Hch. rewrite exec_run in Hch. rewrite exec_run in E.
      split; [|split].
      + eapply (run_bounded (nstate L) nst net_diamond); eauto.
      + destruct (complete_any_run (nstate L) nst net_diamond ch init l f st E Hstuck Hch) as [l2 [H2 Hl2]].
        exists l2. rewrite exec_run. auto.
      + intros Hq. eapply (maximal_unique (nstate L) nst net_diamond); eauto.
  Qed.
  Lemma exec_inv : forall ch st st', inv1 st -> inv2 st -> exe st ch = Some st' -> inv1 st' /\ inv2 st'.
  Proof.
    induction ch as [|i r IH]; intros st st' I1 I2 H; simpl in H.
    - inversion H; subst. auto.
    - destruct (nst st i) as [st1|] eqn:Hs; [|discriminate].
      destruct (inv_step _ _ _ I1 I2 Hs) as [J1 J2]. eapply IH; eauto.
  Qed.

  (* in every reachable state (any interleaving): an output history that contains a FAILED termination token belongs
     to a step that terminated FAILED *)
  Theorem failed_token_failed_step : forall ch st x l,
    exe init ch = Some st -> In x st -> In l (souts x) -> In (Term FAILED) l -> sterm x = Some FAILED.
  Proof.
    intros ch st x l H Hx Hl Hin. destruct inv_init as [I1 I2].
    destruct (exec_inv ch _ _ I1 I2 H) as [[Len J1] _].
    apply In_nth_error in Hx. destruct Hx as [i Hi].
    destruct (nth_error specs i) as [sp|] eqn:Hsp;
      [|apply nth_error_None in Hsp; apply nth_error_Some_lt in Hi; lia].
    destruct (J1 _ _ _ Hsp Hi) as [_ Ho]. specialize (Ho l Hl). unfold out_ok in Ho.
    destruct (sterm x) as [s|].
    - destruct Ho as [d [-> Hd]]. apply in_app_or in Hin. destruct Hin as [Hin|[Hin|[]]].
      + exfalso. unfold term_free in Hd. assert (existsb is_term d = true) by (apply existsb_exists; exists (Term FAILED); auto).
        congruence.
      + inversion Hin. reflexivity.
    - exfalso. unfold term_free in Ho. assert (existsb is_term l = true) by (apply existsb_exists; exists (Term FAILED); auto).
      congruence.
  Qed.
End NetProofs.

(* ================================================================== executor closing logic *)
Lemma x_close_map x : closed x = false ->
  x_close x = mkX true (map (fun s => if xs_term s then s else mkXS true CANCELLED) (xsteps x)).
Proof. unfold x_close. intros ->. reflexivity. Qed.

Lemma x_first (x : xstate) (fo : bool) : closed x = false -> (if fo then x_cancel x else x_close x) = x_close x.
Proof. intros H. destruct fo; [unfold x_cancel; rewrite H|]; reflexivity. Qed.

Lemma closed_terminated steps :
  forallb xs_term (map (fun s => if xs_term s then s else mkXS true CANCELLED) steps) = true.
Proof. induction steps as [|s r IH]; simpl; auto. destruct (xs_term s) eqn:E; simpl; [rewrite E|]; exact IH. Qed.

(* whichever way the output loop ended, when run() returns or raises every step is terminated *)
Theorem x_run_tail_terminates_all : forall fo x, closed x = false ->
  forallb xs_term (xsteps (snd (x_run_tail x_cancel fo x))) = true /\ closed (snd (x_run_tail x_cancel fo x)) = true.
Proof.
  intros fo x H. unfold x_run_tail. rewrite (x_first x fo H), (x_close_map x H). simpl.
  destruct (existsb xs_bad _); simpl; split; try reflexivity; apply closed_terminated.
Qed.

(* run() raises exactly when some step is FAILED/CANCELLED or was still running when the loop ended (close() then
   CANCELs it): the raise is read off the state, it is not an input *)
Theorem x_run_tail_raises_iff : forall fo x, closed x = false ->
  (fst (x_run_tail x_cancel fo x) = true <->
   exists s, In s (xsteps x) /\ (xs_bad s = true \/ xs_term s = false)).
Proof.
  intros fo x H. unfold x_run_tail. rewrite (x_first x fo H), (x_close_map x H). simpl.
  set (g := fun s => if xs_term s then s else mkXS true CANCELLED).
  assert (E : existsb xs_bad (map g (xsteps x)) = true <-> exists s, In s (xsteps x) /\ (xs_bad s = true \/ xs_term s = false)).
  { rewrite existsb_exists. split.
    - intros [y [Hy Hb]]. apply in_map_iff in Hy. destruct Hy as [s [<- Hs]]. exists s. split; auto.
      unfold g in Hb. destruct (xs_term s); auto.
    - intros [s [Hs Hc]]. exists (g s). split; [apply in_map; exact Hs|]. unfold g.
      destruct (xs_term s) eqn:T; [destruct Hc as [Hc|Hc]; [exact Hc|discriminate]|reflexivity]. }
  destruct (existsb xs_bad (map g (xsteps x))) eqn:B; simpl.
  - split; [intros _; apply E; reflexivity|reflexivity].
  - split; [discriminate|]. intros Hex. apply E in Hex. discriminate.
Qed.

(* the pre-fix _cancel: the steps are left exactly as they were *)
Theorem x_prefix_leaves : forall x, closed x = false -> existsb xs_bad (xsteps x) = true ->
  x_run_tail x_cancel_prefix true x = (true, mkX true (xsteps x)).
Proof. intros x H B. unfold x_run_tail, x_cancel_prefix. rewrite H. simpl. rewrite B. reflexivity. Qed.

(* network + executor: a FAILED termination token anywhere in a reachable network state makes run() raise, and every
   step is terminated when it does *)
Definition net_xstate {L} (st : nstate L) : xstate := mkX false (map (fun x => xs_of_sterm (sterm x)) st).

Theorem failure_raises_and_terminates :
  forall (L spec : Type) (s_ins : spec -> list src) (s_nout : spec -> nat)
         (fire : spec -> L -> list (list tok) -> list tok -> L * list (list tok) * option status)
         (init_loc : spec -> L) (win : list (list tok)) (specs : list spec),
    fire_contract L spec s_nout fire ->
    forall ch st x l fo,
      exec L spec s_ins fire win specs (init_state L spec s_nout init_loc specs) ch = Some st ->
      In x st -> In l (souts x) -> In (Term FAILED) l ->
      fst (x_run_tail x_cancel fo (net_xstate st)) = true /\
      forallb xs_term (xsteps (snd (x_run_tail x_cancel fo (net_xstate st)))) = true.
Proof.
  intros L spec s_ins s_nout fire init_loc win specs HC ch st x l fo H Hx Hl Hin.
  pose proof (failed_token_failed_step L spec s_ins s_nout fire init_loc win specs HC ch st x l H Hx Hl Hin) as Hf.
  split; [|apply x_run_tail_terminates_all; reflexivity].
  apply x_run_tail_raises_iff; [reflexivity|]. exists (xs_of_sterm (sterm x)). split.
  - simpl. apply in_map_iff. exists x. auto.
  - left. rewrite Hf. reflexivity.
Qed.

(* the known finding: on the NORMAL path (last output port terminated) a step that is still running is CANCELLED by
   close() and run() raises, even when no step had failed *)
Theorem x_straggler_raises : forall x, closed x = false ->
  (exists s, In s (xsteps x) /\ xs_term s = false) -> fst (x_run_tail x_cancel false x) = true.
Proof.
  intros x H [s [Hs Ht]]. apply x_run_tail_raises_iff; [exact H|]. exists s. auto.
Qed.

(* ================================================================== failure propagation in networks of tag-grouping steps *)
(* the heads a step read in the last round it fired, as the network state shows them *)
Definition last_heads (win : list (list tok)) (st : nstate imap) (sp : tgspec) (x : sstate imap) : list tok :=
  map (fun p => nth (rounds x - 1) (content imap win st p) (Term WAITING)) (t_ins sp).

(* a terminated step either raised (FAILED) or terminated with _get_status(_reduce_statuses(values of its last round)) *)
Definition term_explained (win : list (list tok)) (specs : list tgspec) (st : nstate imap) : Prop :=
  forall i sp x s, nth_error specs i = Some sp -> nth_error st i = Some x -> sterm x = Some s ->
    1 <= rounds x /\
    (forall p, In p (t_ins sp) -> rounds x - 1 < length (content imap win st p)) /\
    (s = FAILED \/ exists e, s = get_status (reduce_o (map tok_status (last_heads win st sp x))) e).

Lemma term_explained_init win specs : term_explained win specs (tg_init specs).
Proof.
  intros i sp x s Hsp Hx Hs. unfold tg_init, init_state in Hx.
  apply nth_error_In in Hx. apply in_map_iff in Hx. destruct Hx as [y [<- _]]. discriminate.
Qed.

Lemma term_explained_step win specs st i st' : term_explained win specs st ->
  nstep imap tgspec t_ins tg_fire_spec win specs st i = Some st' -> term_explained win specs st'.
Proof.
  intros TE Hs. pose proof (nstep_grows imap tgspec t_ins tg_fire_spec win specs _ _ _ Hs) as G.
  destruct (nstep_inv imap tgspec t_ins tg_fire_spec win specs _ _ _ Hs) as [sp [x [Hsp [Hx [He ->]]]]].
  assert (Hi : i < length st) by (eapply nth_error_Some_lt; eauto).
  intros k spk xk s Hspk Hxk Hsk. destruct (Nat.eq_dec i k) as [<-|Hne].
  - rewrite nth_error_upd_same in Hxk by auto. inversion Hxk; subst xk. assert (spk = sp) by congruence. subst spk.
    set (heads := map (fun p => nth (rounds x) (content imap win st p) (Term WAITING)) (t_ins sp)).
    set (x1 := fired imap tgspec t_ins tg_fire_spec win st sp x) in *.
    assert (Hr : rounds x1 = S (rounds x)).
    { unfold x1, fired. destruct (tg_fire_spec sp (loc x) (souts x) _) as [[? ?] ?]. reflexivity. }
    assert (Ht : sterm x1 = snd (tg_fire_spec sp (loc x) (souts x) heads)).
    { unfold x1, fired. fold heads. destruct (tg_fire_spec sp (loc x) (souts x) heads) as [[? ?] ?]. reflexivity. }
    assert (Hlt : forall p, In p (t_ins sp) -> rounds x < length (content imap win st p))
      by (intros p Hp; eapply enabled_lt; eauto).
    replace (rounds x1 - 1) with (rounds x) by lia. split; [lia|]. split.
    + intros p Hp. destruct (ext_nth _ _ (rounds x) (Term WAITING) (G p) (Hlt p Hp)) as [E1 _]. exact E1.
    + assert (Hsame : last_heads win (upd i x1 st) sp x1 = heads).
      { unfold last_heads. replace (rounds x1 - 1) with (rounds x) by lia. unfold heads. apply map_ext_in.
        intros p Hp. apply (ext_nth _ _ _ _ (G p)). apply Hlt. exact Hp. }
      rewrite Hsame. rewrite Ht in Hsk. unfold tg_fire_spec, tg_fire in Hsk. destruct (existsb is_term heads).
      * simpl in Hsk. inversion Hsk; subst. right. eexists. reflexivity.
      * destruct (process_tags _ _ _ _ _ _) as [[m2 o2] b]. destruct b; simpl in Hsk; [inversion Hsk; left; reflexivity|discriminate].
  - rewrite nth_error_upd_other in Hxk by auto.
    destruct (TE k spk xk s Hspk Hxk Hsk) as [R1 [R2 R3]]. split; [exact R1|]. split.
    + intros p Hp. destruct (ext_nth _ _ _ (Term WAITING) (G p) (R2 p Hp)) as [E1 _]. exact E1.
    + destruct R3 as [R3|[e R3]]; [left; exact R3|right; exists e].
      replace (last_heads win (upd i (fired imap tgspec t_ins tg_fire_spec win st sp x) st) spk xk) with (last_heads win st spk xk); [exact R3|].
      unfold last_heads. apply map_ext_in. intros p Hp. symmetry. apply (ext_nth _ _ _ _ (G p)). apply R2. exact Hp.
Qed.

Lemma term_explained_exec win specs : forall ch st st', term_explained win specs st ->
  exec imap tgspec t_ins tg_fire_spec win specs st ch = Some st' -> term_explained win specs st'.
Proof.
  induction ch as [|i r IH]; intros st st' TE H; simpl in H.
  - inversion H; subst. exact TE.
  - destruct (nstep imap tgspec t_ins tg_fire_spec win specs st i) as [st1|] eqn:Hs; [|discriminate].
    eapply IH; [eapply term_explained_step; eauto|exact H].
Qed.

(* in EVERY reachable state of a network of Transformer / ConditionalStep rounds (any graph, any interleaving): a
   terminated step that read a FAILED termination token in its last round, and no CANCELLED one, is FAILED *)
Theorem tg_failed_propagates : forall win specs ch st i sp x s,
  exec imap tgspec t_ins tg_fire_spec win specs (tg_init specs) ch = Some st ->
  nth_error specs i = Some sp -> nth_error st i = Some x -> sterm x = Some s ->
  In (Term FAILED) (last_heads win st sp x) ->
  ~ In (Some CANCELLED) (map tok_status (last_heads win st sp x)) ->
  s = FAILED.
Proof.
  intros win specs ch st i sp x s H Hsp Hx Hs Hin Hno.
  destruct (term_explained_exec win specs ch _ _ (term_explained_init win specs) H i sp x s Hsp Hx Hs) as [_ [_ [R|[e R]]]];
    [exact R|]. rewrite R. apply failed_round_status; assumption.
Qed.
