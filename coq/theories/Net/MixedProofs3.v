(* Net/MixedProofs3.v — a constructive completing run for networks of log machines: from ANY reachable state there
   is a continuation that ends with every step terminated (steps in topological order, each fed until it is done;
   measure: unread tokens on its inputs). *)
From Coq Require Import List Bool Arith Lia.
From SF Require Import Net.Model Net.Util Net.MixedModel Net.MixedProofs.
Import ListNotations.

Section Completion.
  Variable T : Type.
  Variable spec : Type.
  Variable s_ins : spec -> list src.
  Variable s_nout : spec -> nat.
  Variable outs : spec -> log T -> list (list (mtok T)).
  Variable done : spec -> log T -> bool.
  Variable accept : spec -> log T -> nat -> bool.
  Variable win : list (list (mtok T)).
  Variable specs : list spec.
  Hypothesis HC : log_contract T spec s_ins s_nout outs done accept.
  Hypothesis HW : mwf T spec s_ins s_nout win specs.

  Notation cont := (mcontent T spec outs win specs).
  Notation step := (mstep T spec s_ins outs done accept win specs).
  Notation exe := (mexec T spec s_ins outs done accept win specs).
  Notation inv := (minv T spec s_ins outs win specs).

  Definition indexed (sp : spec) : list (nat * src) := combine (seq 0 (length (s_ins sp))) (s_ins sp).
  (* unread tokens on the inputs of a step *)
  Definition unread (st : mstate T) (sp : spec) (l : log T) : nat :=
    list_sum (map (fun jp => length (cont st (snd jp)) - cnt T (fst jp) l) (indexed sp)).

  Lemma list_sum_lt {A} (f g : A -> nat) (L : list A) :
    (forall x, In x L -> g x <= f x) -> (exists x, In x L /\ g x < f x) ->
    list_sum (map g L) < list_sum (map f L).
  Proof.
    induction L as [|a L IH]; intros Hle [x [Hin Hlt]]; [destruct Hin|]. simpl.
    assert (Hrest : list_sum (map g L) <= list_sum (map f L)).
    { clear IH Hin Hlt. induction L as [|b L IH2]; simpl; [lia|].
      assert (g b <= f b) by (apply Hle; right; left; reflexivity).
      assert (list_sum (map g L) <= list_sum (map f L)).
      { apply IH2. intros y Hy. apply Hle. destruct Hy as [->|Hy]; [left; reflexivity|right; right; exact Hy]. }
      lia. }
    destruct Hin as [->|Hin].
    - lia.
    - assert (g a <= f a) by (apply Hle; left; reflexivity).
      assert (list_sum (map g L) < list_sum (map f L)).
      { apply IH; [intros y Hy; apply Hle; right; exact Hy|exists x; auto]. }
      lia.
  Qed.

  Lemma in_combine_seq {A} : forall (l : list A) a j p, nth_error l j = Some p ->
    In (a + j, p) (combine (seq a (length l)) l).
  Proof.
    induction l as [|x l IH]; intros a [|j] p H; simpl in *; try discriminate.
    - inversion H. left. f_equal. lia.
    - right. replace (a + S j) with (S a + j) by lia. apply IH. exact H.
  Qed.

  Lemma exe_app : forall l1 l2 st st1, exe st l1 = Some st1 -> exe st (l1 ++ l2) = exe st1 l2.
  Proof.
    induction l1 as [|c r IH]; intros l2 st st1 H; simpl in *.
    - inversion H. reflexivity.
    - destruct (step st c); [|discriminate]. eapply IH; eauto.
  Qed.

  Lemma exe_cons st c r : exe st (c :: r) = match step st c with Some st' => exe st' r | None => None end.
  Proof. reflexivity. Qed.

  (* one step, fed until it terminates; nothing else moves *)
  Lemma feed_until_done : forall m st k sp l,
    inv st -> nth_error specs k = Some sp -> nth_error st k = Some l -> unread st sp l <= m ->
    (forall i spi li, i < k -> nth_error specs i = Some spi -> nth_error st i = Some li -> done spi li = true) ->
    exists ch st' l', exe st ch = Some st' /\ inv st' /\ nth_error st' k = Some l' /\ done sp l' = true /\
      forall i, i <> k -> nth_error st' i = nth_error st i.
  Proof.
    induction m as [|m IH]; intros st k sp l I Hsp Hl Hm Hprev.
    - destruct (done sp l) eqn:Hd.
      + exists [], st, l. simpl. split; [reflexivity|]. split; [exact I|]. split; [exact Hl|]. split; [exact Hd|]. reflexivity.
      + exfalso. destruct (least_undone_enabled T spec s_ins s_nout outs done accept win specs HC HW st k sp l I Hsp Hl Hd Hprev)
          as [j [st' Hs]].
        destruct (step_inv T spec s_ins outs done accept win specs _ _ _ Hs)
          as [i' [j' [sp' [l' [p [Hc [Hsp' [Hl' [Hp [_ [_ [Hlt _]]]]]]]]]]]].
        inversion Hc; subst i' j'. assert (sp' = sp) by congruence. assert (l' = l) by congruence. subst.
        assert (Hpos : 0 < unread st sp l).
        { unfold unread. apply (Nat.lt_le_trans _ (list_sum (map (fun _ => 0) (indexed sp)) + 1)); [lia|].
          assert (list_sum (map (fun _ : nat * src => 0) (indexed sp)) <
                  list_sum (map (fun jp => length (cont st (snd jp)) - cnt T (fst jp) l) (indexed sp))).
          { apply list_sum_lt; [intros; lia|]. exists (j, p). split; [apply (in_combine_seq (s_ins sp) 0 j p Hp)|simpl; lia]. }
          lia. }
        lia.
    - destruct (done sp l) eqn:Hd.
      + exists [], st, l. simpl. split; [reflexivity|]. split; [exact I|]. split; [exact Hl|]. split; [exact Hd|]. reflexivity.
      + destruct (least_undone_enabled T spec s_ins s_nout outs done accept win specs HC HW st k sp l I Hsp Hl Hd Hprev)
          as [j [st1 Hs]].
        pose proof (minv_step T spec s_ins s_nout outs done accept win specs HC HW _ _ _ I Hs) as I1.
        destruct (step_inv T spec s_ins outs done accept win specs _ _ _ Hs)
          as [i' [j' [sp' [l' [p [Hc [Hsp' [Hl' [Hp [_ [_ [Hlt Hst1]]]]]]]]]]]].
        inversion Hc; subst i' j'. assert (sp' = sp) by congruence. assert (l' = l) by congruence. subst sp' l'.
        set (l1 := l ++ [(j, nth (cnt T j l) (cont st p) (E WAITING))]) in *.
        assert (Hk : k < length st) by (eapply nth_error_Some_lt; eauto).
        assert (Hl1 : nth_error st1 k = Some l1) by (subst st1; apply nth_error_upd_same; exact Hk).
        assert (Hoth : forall i, i <> k -> nth_error st1 i = nth_error st i).
        { intros i Hi. subst st1. apply nth_error_upd_other. auto. }
        assert (Hsame : forall q, In q (s_ins sp) -> cont st1 q = cont st q).
        { intros q Hq. subst st1. apply (cont_same T spec outs win specs).
          eapply (input_not_self T spec s_ins s_nout win specs HW); eauto. }
        assert (Hdec : unread st1 sp l1 < unread st sp l).
        { unfold unread. apply list_sum_lt.
          - intros [jj q] Hin. simpl. assert (In q (s_ins sp)) by (eapply in_combine_r; eauto).
            rewrite (Hsame q H). unfold l1. rewrite (cnt_app T). lia.
          - exists (j, p). split; [apply (in_combine_seq (s_ins sp) 0 j p Hp)|]. simpl.
            rewrite (Hsame p (nth_error_In _ _ Hp)). unfold l1. rewrite (cnt_app T), (cnt_single T), Nat.eqb_refl. lia. }
        destruct (IH st1 k sp l1 I1 Hsp Hl1) as [ch [st' [lf [E1 [I' [Hlf [Hd' Ho']]]]]]]; [lia| |].
        * intros i spi li Hi Hspi Hli. rewrite Hoth in Hli by lia. eapply Hprev; eauto.
        * exists ((k, j) :: ch), st', lf. rewrite exe_cons, Hs. split; [exact E1|]. split; [exact I'|]. split; [exact Hlf|].
          split; [exact Hd'|]. intros i Hi. rewrite Ho' by auto. apply Hoth. auto.
  Qed.

  Lemma complete_prefix : forall k st, k <= length specs -> inv st ->
    exists ch st', exe st ch = Some st' /\ inv st' /\
      forall i sp l, i < k -> nth_error specs i = Some sp -> nth_error st' i = Some l -> done sp l = true.
  Proof.
    induction k as [|k IH]; intros st Hk I.
    - exists [], st. simpl. split; [reflexivity|]. split; [exact I|]. intros; lia.
    - destruct (IH st) as [ch [st1 [E1 [I1 Hd1]]]]; [lia|exact I|].
      destruct (nth_error specs k) as [sp|] eqn:Hsp; [|apply nth_error_None in Hsp; lia].
      destruct (nth_error st1 k) as [l|] eqn:Hl; [|apply nth_error_None in Hl; destruct I1 as [Len _]; lia].
      destruct (feed_until_done (unread st1 sp l) st1 k sp l I1 Hsp Hl (le_n _) Hd1)
        as [ch2 [st2 [l2 [E2 [I2 [Hl2 [Hd2 Ho2]]]]]]].
      exists (ch ++ ch2), st2. split; [rewrite (exe_app _ _ _ _ E1); exact E2|]. split; [exact I2|].
      intros i spi li Hi Hspi Hli. destruct (Nat.eq_dec i k) as [->|Hne].
      + assert (spi = sp) by congruence. subst. rewrite Hl2 in Hli. inversion Hli; subst. exact Hd2.
      + rewrite Ho2 in Hli by auto. apply (Hd1 i spi li); auto. lia.
  Qed.

  (* from any reachable state the network can be run to completion *)
  Theorem can_complete : forall ch st, exe (minit T spec specs) ch = Some st ->
    exists ch2 st', exe st ch2 = Some st' /\ all_done T spec done specs st' /\ (forall c, step st' c = None).
  Proof.
    intros ch st H.
    pose proof (reachable_inv T spec s_ins s_nout outs done accept win specs HC HW ch _ _
                  (minv_init T spec s_ins outs win specs) H) as I.
    destruct (complete_prefix (length specs) st (le_n _) I) as [ch2 [st' [E2 [I' Hd]]]].
    assert (AD : all_done T spec done specs st').
    { intros i sp l Hsp Hl. apply (Hd i sp l); auto. eapply nth_error_Some_lt; eauto. }
    exists ch2, st'. split; [exact E2|]. split; [exact AD|].
    intros [i j]. unfold mstep. destruct (nth_error specs i) as [sp|] eqn:Hsp; auto.
    destruct (nth_error st' i) as [l|] eqn:Hl; auto. destruct (nth_error (s_ins sp) j); auto.
    rewrite (AD i sp l Hsp Hl). reflexivity.
  Qed.
End Completion.
