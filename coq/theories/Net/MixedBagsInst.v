(* Net/MixedBagsInst.v — C05_mixed_bags_partial instantiated: networks made of one-input Transformers (chains, fan-out
   trees) over Gather.Model's tokens; [Good] = "never read past a termination token", an invariant of every reachable
   state (minv).  No machine hypothesis is left. *)
From Coq Require Import List Bool Arith NArith Lia Permutation.
From SF Require Import Base.Str Net.Model Net.Util Net.MixedModel Net.MixedProofs Net.MixedProofs2 Net.MixedInst
                       Net.MixedInstProofs.
Import ListNotations.

Definition is_xf (sp : mspec) : Prop := match sp with MXf _ _ => True | _ => False end.
Definition xf_good (sp : mspec) (l : log gtok) : Prop :=
  is_xf sp /\ existsb (is_e gtok) (removelast (proj gtok 0 l)) = false.

Lemma closed_shape (p : list gmtok) : existsb (is_e gtok) p = true -> existsb (is_e gtok) (removelast p) = false ->
  exists d s, p = d ++ [E s] /\ term_free_m gtok d.
Proof.
  intros H1 H2. destruct p as [|a r]; [discriminate|].
  destruct (exists_last (l := a :: r)) as [d [y Hy]]; [discriminate|]. rewrite Hy in *.
  rewrite removelast_last in H2. rewrite existsb_app, H2 in H1. simpl in H1. rewrite orb_false_r in H1.
  destruct y as [x|s]; [discriminate|]. exists d, s. split; auto.
Qed.

Lemma perm_closed (d1 d2 : list gmtok) s1 s2 : term_free_m gtok d1 -> term_free_m gtok d2 ->
  Permutation (d1 ++ [E s1]) (d2 ++ [E s2]) -> s1 = s2 /\ Permutation d1 d2.
Proof.
  intros F1 F2 P.
  assert (Hin : In (E s1) (d2 ++ [E s2])) by (eapply Permutation_in; [exact P|apply in_or_app; right; left; reflexivity]).
  apply in_app_or in Hin. destruct Hin as [Hin|[Hin|[]]].
  - exfalso. unfold term_free_m in F2. assert (existsb (is_e gtok) d2 = true) by (apply existsb_exists; exists (E s1); auto).
    congruence.
  - inversion Hin; subst. split; [reflexivity|].
    apply Permutation_app_inv_r with (l := [E s1]). exact P.
Qed.

Lemma xf_hist_data f : forall (d : list gmtok) seen s, term_free_m gtok d ->
  exists o, xf_hist f seen (d ++ [E s]) = o ++ [E (end_status s (negb (seen || match d with [] => false | _ => true end)))] /\
            forall d', term_free_m gtok d' -> Permutation d d' ->
              exists o', xf_hist f seen (d' ++ [E s]) =
                         o' ++ [E (end_status s (negb (seen || match d' with [] => false | _ => true end)))] /\ Permutation o o'.
Proof.
  (* every data token x is mapped to D (f x): the data part is [map g d] for a fixed g *)
  set (g := fun t : gmtok => match t with D x => D (f x) | E s0 => E s0 end).
  assert (G : forall (d : list gmtok) seen s, term_free_m gtok d ->
            xf_hist f seen (d ++ [E s]) = map g d ++ [E (end_status s (negb (seen || match d with [] => false | _ => true end)))]).
  { induction d as [|[x|s0] d IH]; intros seen s Hd; simpl.
    - rewrite orb_false_r. reflexivity.
    - unfold term_free_m in Hd. simpl in Hd. rewrite (IH true s Hd). simpl. rewrite orb_true_r. reflexivity.
    - unfold term_free_m in Hd. simpl in Hd. discriminate. }
  intros d seen s Hd. exists (map g d). split; [apply G; exact Hd|].
  intros d' Hd' P. exists (map g d'). split; [apply G; exact Hd'|apply Permutation_map; exact P].
Qed.

Section Chains.
  Variable win : list (list gmtok).
  Variable specs : list mspec.
  Hypothesis HW : mwf gtok mspec ms_ins ms_nout win specs.
  Hypothesis Hwin : forall k, k < length win -> exists d s, nth k win [] = d ++ [E s] /\ term_free_m gtok d.
  Hypothesis Hxf : forall sp, In sp specs -> is_xf sp.

  Notation exe := (mexec gtok mspec ms_ins ms_outs ms_done ms_accept win specs).

  Lemma good_reachable : forall ch st i sp l, exe (minit gtok mspec specs) ch = Some st ->
    nth_error specs i = Some sp -> nth_error st i = Some l -> xf_good sp l.
  Proof.
    intros ch st i sp l H Hsp Hl.
    pose proof (reachable_inv gtok mspec ms_ins ms_nout ms_outs ms_done ms_accept win specs ms_contract HW ch _ _
                  (minv_init gtok mspec ms_ins ms_outs win specs) H) as [_ I].
    assert (X : is_xf sp) by (apply Hxf; eapply nth_error_In; eauto). split; [exact X|].
    destruct sp as [f p| |]; try destruct X. destruct (I i (MXf f p) l 0 p Hsp Hl eq_refl) as [_ I2]. exact I2.
  Qed.

  Theorem xf_network_bags : forall ch1 ch2 st1 st2,
    exe (minit gtok mspec specs) ch1 = Some st1 -> exe (minit gtok mspec specs) ch2 = Some st2 ->
    all_done gtok mspec ms_done specs st1 -> all_done gtok mspec ms_done specs st2 ->
    forall p, match p with SOut s _ => s < length specs | WIn k => k < length win end ->
      Permutation (mcontent gtok mspec ms_outs win specs st1 p) (mcontent gtok mspec ms_outs win specs st2 p).
  Proof.
    apply (mixed_bags gtok mspec ms_ins ms_nout ms_outs ms_done ms_accept win specs ms_contract HW Hwin xf_good good_reachable).
    - (* (b) *) intros sp l [X _] Hd j Hj. destruct sp as [f p| |]; try destruct X. simpl in *.
      destruct j; [exact Hd|lia].
    - (* (c) *) intros sp l1 l2 [X G1] [_ G2] D1 D2 HP j. destruct sp as [f p| |]; try destruct X. simpl in *.
      destruct j as [|[|j]]; simpl; try apply Permutation_refl.
      unfold port_closed in D1, D2.
      destruct (closed_shape _ D1 G1) as [d1 [s1 [E1 F1]]]. destruct (closed_shape _ D2 G2) as [d2 [s2 [E2 F2]]].
      specialize (HP 0 (Nat.lt_0_succ 0)). rewrite E1, E2 in HP |- *.
      destruct (perm_closed d1 d2 s1 s2 F1 F2 HP) as [<- Pd].
      destruct (xf_hist_data f d1 false s1 F1) as [o [Ho Hrest]]. destruct (Hrest d2 F2 Pd) as [o' [Ho' Po]].
      rewrite Ho, Ho'.
      assert (Ee : match d1 with [] => false | _ => true end = match d2 with [] => false | _ => true end).
      { destruct d1; destruct d2; auto; [apply Permutation_nil in Pd; discriminate|apply Permutation_sym, Permutation_nil in Pd; discriminate]. }
      rewrite Ee. apply Permutation_app; [exact Po|apply Permutation_refl].
  Qed.
End Chains.
