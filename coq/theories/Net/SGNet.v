(* Net/SGNet.v — the network scatter -> transform -> gather as log machines: whatever the interleaving, once every
   step has terminated the gather's output port carries exactly the list of transformed elements in the original
   order, then TerminationToken(COMPLETED).  Glue between the operational network (Net/Mixed*.v) and C01's theorem
   about the Gather model. *)
From Coq Require Import List Bool Arith NArith Lia Permutation.
From SF Require Import Base.Str Base.Dec Tags.Model Net.Model Net.Util Net.MixedModel Net.MixedProofs Net.MixedProofs2
                       Net.MixedProofs4 Net.MixedInst Net.MixedInstProofs.
From SF Require Gather.Model Gather.Proofs Net.Contracts2.
Import ListNotations.

Module G := Gather.Model.

(* ---------------------------------------------------------------- translation facts *)
Definition gport_of_idx (j : nat) : G.gport := match j with O => G.SizeP | S _ => G.ElemP end.

Lemma to_garr_port e a : In a (to_garr e) -> G.port_of a = gport_of_idx (fst e).
Proof.
  destruct e as [j x]. destruct j as [|j]; destruct x as [[tg v|tg vs]|s]; simpl.
  - destruct (undec v); intros H; [destruct H as [<-|[]]; reflexivity|destruct H].
  - intros [].
  - intros [<-|[]]; reflexivity.
  - intros [<-|[]]; reflexivity.
  - intros [<-|[]]; reflexivity.
  - intros [<-|[]]; reflexivity.
Qed.

Lemma term_in_log l p s : In (G.OnTerm p s) (flat_map to_garr l) ->
  exists j s', In (j, E s') l /\ gport_of_idx j = p.
Proof.
  intros H. apply in_flat_map in H. destruct H as [[j x] [Hin Ha]].
  destruct j as [|j]; destruct x as [[tg v|tg vs]|s0]; simpl in Ha.
  - destruct (undec v); [destruct Ha as [Ha|[]]; discriminate|destruct Ha].
  - destruct Ha.
  - destruct Ha as [Ha|[]]. inversion Ha; subst. exists 0, s0. split; [exact Hin|reflexivity].
  - destruct Ha as [Ha|[]]; discriminate.
  - destruct Ha as [Ha|[]]; discriminate.
  - destruct Ha as [Ha|[]]. inversion Ha; subst. exists (S j), s0. split; [exact Hin|reflexivity].
Qed.

Lemma tr_port0 : forall l : log gtok, (forall a, In a l -> fst a = 0) ->
  flat_map to_garr l = flat_map (fun x => to_garr (0, x)) (map snd l).
Proof.
  induction l as [|[j x] l IH]; intros H; simpl; auto.
  assert (j = 0) by (apply (H (j, x)); left; reflexivity). subst. f_equal. apply IH. intros a Ha. apply H. right. exact Ha.
Qed.
Lemma tr_port1 : forall l : log gtok, (forall a, In a l -> fst a = 1) ->
  flat_map to_garr l = flat_map (fun x => to_garr (1, x)) (map snd l).
Proof.
  induction l as [|[j x] l IH]; intros H; simpl; auto.
  assert (j = 1) by (apply (H (j, x)); left; reflexivity). subst. f_equal. apply IH. intros a Ha. apply H. right. exact Ha.
Qed.
Lemma tr_elems (xs : list gtok) : flat_map (fun x => to_garr (1, x)) (map D xs) = map G.OnElem xs.
Proof. induction xs as [|x xs IH]; simpl; auto. f_equal. exact IH. Qed.

Lemma filter_all {A} (f : A -> bool) l : forall a, In a (filter f l) -> f a = true.
Proof. intros a H. apply filter_In in H. apply H. Qed.

(* a log over ports 0 and 1 is a permutation of its two projections (as entries) *)
Lemma two_port_partition : forall l : log gtok, (forall a, In a l -> fst a < 2) ->
  Permutation l (filter (on_port gtok 0) l ++ filter (on_port gtok 1) l).
Proof.
  induction l as [|[j x] l IH]; intros H; simpl; [constructor|].
  assert (Hj : j < 2) by (apply (H (j, x)); left; reflexivity).
  assert (IH' : Permutation l (filter (on_port gtok 0) l ++ filter (on_port gtok 1) l))
    by (apply IH; intros a Ha; apply H; right; exact Ha).
  unfold on_port at 1 3. simpl. destruct j as [|[|j]]; simpl; [| |lia].
  - constructor. exact IH'.
  - apply Permutation_cons_app. exact IH'.
Qed.

Lemma xf_hist_mapD f s : forall (xs : list gtok) seen,
  xf_hist f seen (map D xs ++ [E s]) =
  map D (map f xs) ++ [E (end_status s (negb (seen || match xs with [] => false | _ => true end)))].
Proof.
  induction xs as [|x xs IH]; intros seen; simpl.
  - rewrite orb_false_r. reflexivity.
  - rewrite IH. simpl. rewrite orb_true_r. reflexivity.
Qed.

Section SG.
  Variable t : tag.
  Variable vs : list gtok.
  Variable f : gtok -> gtok.
  Hypothesis Ht : t <> [].
  Hypothesis Hvs : vs <> [].
  Hypothesis Hf : forall x, G.tag_of (f x) = G.tag_of x.

  Definition sg_win : list (list gmtok) := [[D (G.ListTok (render t) vs); E COMPLETED]].
  Definition sg_specs : list mspec := [MScatter (WIn 0); MXf f (SOut 0 0); MGather 1 (SOut 0 1) (SOut 1 0)].
  Notation es := (G.scatter_elems (render t) vs).
  Notation cont := (mcontent gtok mspec ms_outs sg_win sg_specs).
  Notation exe := (mexec gtok mspec ms_ins ms_outs ms_done ms_accept sg_win sg_specs).

  Lemma sg_wf : mwf gtok mspec ms_ins ms_nout sg_win sg_specs.
  Proof.
    split.
    - intros k Hk. simpl in Hk. destruct k; [reflexivity|lia].
    - intros i sp Hsp p Hp. destruct i as [|[|[|i]]]; simpl in Hsp; try (destruct i; discriminate);
        inversion Hsp; subst; simpl in Hp.
      + destruct Hp as [<-|[]]. simpl. lia.
      + destruct Hp as [<-|[]]. simpl. split; [lia|]. eexists. split; [reflexivity|simpl; lia].
      + destruct Hp as [<-|[<-|[]]]; simpl; (split; [lia|]); eexists; (split; [reflexivity|simpl; lia]).
  Qed.

  Lemma es_nonempty : match es with [] => false | _ => true end = true.
  Proof. destruct vs as [|v r]; [congruence|reflexivity]. Qed.

  Theorem sg_outputs : forall ch st,
    exe (minit gtok mspec sg_specs) ch = Some st -> all_done gtok mspec ms_done sg_specs st ->
    cont st (SOut 2 0) = [D (G.ListTok (render t) (map f es)); E COMPLETED].
  Proof.
    intros ch st H AD.
    pose proof (reachable_inv gtok mspec ms_ins ms_nout ms_outs ms_done ms_accept sg_win sg_specs ms_contract sg_wf
                  ch _ _ (minv_init gtok mspec ms_ins ms_outs sg_win sg_specs) H) as [Len I].
    pose proof (reachable_ports_ok gtok mspec ms_ins ms_outs ms_done ms_accept sg_win sg_specs ch st H) as P.
    destruct st as [|l0 [|l1 [|l2 [|x r]]]]; simpl in Len; try discriminate. clear Len.
    pose proof (AD 0 _ l0 eq_refl eq_refl) as D0. pose proof (AD 1 _ l1 eq_refl eq_refl) as D1.
    pose proof (AD 2 _ l2 eq_refl eq_refl) as D2.
    (* --- the scatter has read its whole input *)
    destruct (I 0 _ l0 0 (WIn 0) eq_refl eq_refl eq_refl) as [I0 _].
    assert (P0 : proj gtok 0 l0 = [D (G.ListTok (render t) vs); E COMPLETED]).
    { simpl in D0, I0. rewrite I0 in D0 |- *. destruct (cnt gtok 0 l0) as [|[|c]]; simpl in *; try discriminate. rewrite firstn_nil. reflexivity. }
    assert (C00 : cont [l0; l1; l2] (SOut 0 0) = map D es ++ [E COMPLETED]).
    { simpl. rewrite P0. simpl. pose proof es_nonempty as Hne. destruct vs as [|v r]; [congruence|]. reflexivity. }
    assert (C01 : cont [l0; l1; l2] (SOut 0 1) = [D (size_tok (render t) vs); E COMPLETED]).
    { simpl. rewrite P0. simpl. destruct vs as [|v r]; [congruence|]. reflexivity. }
    (* --- the transformer has read all the elements *)
    destruct (I 1 _ l1 0 (SOut 0 0) eq_refl eq_refl eq_refl) as [I1 _].
    assert (P1 : proj gtok 0 l1 = map D es ++ [E COMPLETED]).
    { simpl in D1. unfold port_closed in D1. rewrite I1 in D1 |- *. rewrite C00 in D1 |- *.
      apply (firstn_closed gtok); [apply tfree_mapD|exact D1]. }
    assert (C10 : cont [l0; l1; l2] (SOut 1 0) = map D (map f es) ++ [E COMPLETED]).
    { simpl. rewrite P1, xf_hist_mapD, es_nonempty. reflexivity. }
    (* --- the gather has consumed both termination tokens *)
    assert (F2 : G.gfinal (g_run 1 l2) <> None).
    { simpl in D2. destruct (G.gfinal (g_run 1 l2)); [congruence|discriminate]. }
    destruct (Net.Contracts2.gather_terminates_only_after_both 1 _ F2) as [[s1 T1] [s2 T2]].
    destruct (term_in_log _ _ _ T1) as [j1 [s1' [L1 G1]]]. destruct (term_in_log _ _ _ T2) as [j2 [s2' [L2 G2]]].
    assert (Hport : forall a, In a l2 -> fst a < 2) by (intros a Ha; apply (P 2 _ l2 eq_refl eq_refl a Ha)).
    assert (j1 = 0) by (destruct j1; [reflexivity|discriminate]). subst j1.
    assert (j2 = 1).
    { destruct j2 as [|[|j]]; [discriminate|reflexivity|]. specialize (Hport _ L2). simpl in Hport. lia. }
    subst j2.
    destruct (I 2 _ l2 0 (SOut 0 1) eq_refl eq_refl eq_refl) as [I20 _].
    destruct (I 2 _ l2 1 (SOut 1 0) eq_refl eq_refl eq_refl) as [I21 _].
    assert (P20 : proj gtok 0 l2 = [D (size_tok (render t) vs); E COMPLETED]).
    { assert (Hc : existsb (is_e gtok) (proj gtok 0 l2) = true).
      { apply existsb_exists. exists (E s1'). split; [apply (in_proj gtok l2 (0, E s1') L1)|reflexivity]. }
      rewrite I20 in Hc |- *. rewrite C01 in Hc |- *.
      exact (firstn_closed gtok [D (size_tok (render t) vs)] COMPLETED _ eq_refl Hc). }
    assert (P21 : proj gtok 1 l2 = map D (map f es) ++ [E COMPLETED]).
    { assert (Hc : existsb (is_e gtok) (proj gtok 1 l2) = true).
      { apply existsb_exists. exists (E s2'). split; [apply (in_proj gtok l2 (1, E s2') L2)|reflexivity]. }
      rewrite I21 in Hc |- *. rewrite C10 in Hc |- *.
      exact (firstn_closed gtok (map D (map f es)) COMPLETED _ (tfree_mapD _) Hc). }
    (* --- shape of the gather's log, then C01 *)
    assert (Hlast : exists l' y, l2 = l' ++ [y]).
    { destruct l2 as [|a0 r0]; [destruct L1|]. destruct (exists_last (l := a0 :: r0)) as [l' [y Hy]]; [discriminate|eauto]. }
    destruct Hlast as [l' [[q ty] Hl2]].
    assert (Hq : q < 2) by (apply (Hport (q, ty)); rewrite Hl2; apply in_or_app; right; left; reflexivity).
    assert (Hpq : forall p, p < 2 -> p <> q -> forall a, In a l2 -> fst a = p \/ fst a = q).
    { intros p Hp Hne a Ha. specialize (Hport a Ha). lia. }
    assert (Goal_ : G.gout (G.gd (g_run 1 l2)) = [G.ListTok (render t) (map f es)] /\
                    G.gfinal (g_run 1 l2) = Some G.Completed).
    { destruct q as [|[|q]]; [| |lia].
      - (* the size port's termination token came last: p = 1, q = 0 *)
        destruct (two_port_shape gtok 1 0 l2 (map D (map f es)) COMPLETED [D (size_tok (render t) vs)] COMPLETED (ltac:(lia)) (Hpq 1 ltac:(lia) ltac:(lia))
                    P21 P20 (tfree_mapD _) eq_refl (ex_intro _ l' (ex_intro _ ty Hl2)))
          as [la [lb [Hsh [Hlb [Hne [Pa Pb]]]]]].
        assert (Harr : flat_map to_garr l2 = flat_map to_garr la ++ G.OnTerm G.ElemP G.Completed ::
                         flat_map to_garr lb ++ [G.OnTerm G.SizeP G.Completed]).
        { rewrite Hsh. change ((1, E COMPLETED) :: lb ++ [(0, E COMPLETED)]) with ([(1, @E gtok COMPLETED)] ++ lb ++ [(0, E COMPLETED)]).
          rewrite !flat_map_app. reflexivity. }
        unfold g_run. rewrite Harr.
        destruct (Gather.Proofs.roundtrip t vs f es (render t, N.of_nat (length vs)) (flat_map to_garr la) (flat_map to_garr lb)
                    G.ElemP G.SizeP Ht Hf eq_refl) as [R1 [R2 _]]; [| discriminate | | split; assumption].
        + rewrite <- flat_map_app.
          eapply Permutation_trans; [apply Permutation_flat_map; apply two_port_partition|].
          * intros a Ha. apply Hport. rewrite Hsh. apply in_app_or in Ha. apply in_or_app.
            destruct Ha; [left; auto|right; right; apply in_or_app; left; auto].
          * rewrite flat_map_app, tr_port0, tr_port1.
            -- change (map snd (filter (on_port gtok 0) (la ++ lb))) with (proj gtok 0 (la ++ lb)).
               change (map snd (filter (on_port gtok 1) (la ++ lb))) with (proj gtok 1 (la ++ lb)).
               rewrite Pa, Pb, tr_elems. simpl. unfold size_tok. rewrite undec_dec. simpl. apply Permutation_refl.
            -- intros a Ha. apply filter_all in Ha. unfold on_port in Ha. apply Nat.eqb_eq in Ha. exact Ha.
            -- intros a Ha. apply filter_all in Ha. unfold on_port in Ha. apply Nat.eqb_eq in Ha. exact Ha.
        + intros a Ha. apply in_flat_map in Ha. destruct Ha as [e [He Hae]].
          rewrite (to_garr_port _ _ Hae). specialize (Hlb e He).
          assert (fst e < 2) by (apply Hport; rewrite Hsh; apply in_or_app; right; right; apply in_or_app; left; exact He).
          destruct (fst e) as [|[|k]]; simpl; [discriminate|congruence|lia].
      - (* the data port's termination token came last: p = 0, q = 1 *)
        destruct (two_port_shape gtok 0 1 l2 [D (size_tok (render t) vs)] COMPLETED (map D (map f es)) COMPLETED (ltac:(lia)) (Hpq 0 ltac:(lia) ltac:(lia))
                    P20 P21 eq_refl (tfree_mapD _) (ex_intro _ l' (ex_intro _ ty Hl2)))
          as [la [lb [Hsh [Hlb [Hne [Pa Pb]]]]]].
        assert (Harr : flat_map to_garr l2 = flat_map to_garr la ++ G.OnTerm G.SizeP G.Completed ::
                         flat_map to_garr lb ++ [G.OnTerm G.ElemP G.Completed]).
        { rewrite Hsh. change ((0, E COMPLETED) :: lb ++ [(1, E COMPLETED)]) with ([(0, @E gtok COMPLETED)] ++ lb ++ [(1, E COMPLETED)]).
          rewrite !flat_map_app. reflexivity. }
        unfold g_run. rewrite Harr.
        destruct (Gather.Proofs.roundtrip t vs f es (render t, N.of_nat (length vs)) (flat_map to_garr la) (flat_map to_garr lb)
                    G.SizeP G.ElemP Ht Hf eq_refl) as [R1 [R2 _]]; [| discriminate | | split; assumption].
        + rewrite <- flat_map_app.
          eapply Permutation_trans; [apply Permutation_flat_map; apply two_port_partition|].
          * intros a Ha. apply Hport. rewrite Hsh. apply in_app_or in Ha. apply in_or_app.
            destruct Ha; [left; auto|right; right; apply in_or_app; left; auto].
          * rewrite flat_map_app, tr_port0, tr_port1.
            -- change (map snd (filter (on_port gtok 0) (la ++ lb))) with (proj gtok 0 (la ++ lb)).
               change (map snd (filter (on_port gtok 1) (la ++ lb))) with (proj gtok 1 (la ++ lb)).
               rewrite Pa, Pb, tr_elems. simpl. unfold size_tok. rewrite undec_dec. simpl. apply Permutation_refl.
            -- intros a Ha. apply filter_all in Ha. unfold on_port in Ha. apply Nat.eqb_eq in Ha. exact Ha.
            -- intros a Ha. apply filter_all in Ha. unfold on_port in Ha. apply Nat.eqb_eq in Ha. exact Ha.
        + intros a Ha. apply in_flat_map in Ha. destruct Ha as [e [He Hae]].
          rewrite (to_garr_port _ _ Hae). specialize (Hlb e He).
          destruct (fst e) as [|k]; simpl; [congruence|discriminate]. }
    destruct Goal_ as [Go Gf]. simpl. unfold g_hist. rewrite Go, Gf. reflexivity.
  Qed.
End SG.
