(* Net/MixedInstProofs2.v — failure propagation along one-input Transformers in networks of Scatter / Transformer /
   Gather log machines: in ANY reachable state (any interleaving), a terminated Transformer whose input history
   ends with a FAILED termination token has an output history that ends with a FAILED termination token. *)
From Coq Require Import List Bool Arith NArith Lia.
From SF Require Import Base.Str Net.Model Net.Util Net.MixedModel Net.MixedProofs Net.MixedProofs2 Net.MixedInst
                       Net.MixedInstProofs.
Import ListNotations.

Lemma xf_hist_closed_failed f : forall (d : list gmtok) seen,
  term_free_m gtok d -> exists d', xf_hist f seen (d ++ [E FAILED]) = d' ++ [E FAILED] /\ term_free_m gtok d'.
Proof.
  induction d as [|[x|s] d IH]; intros seen Hd; simpl.
  - exists []. split; reflexivity.
  - unfold term_free_m in Hd. simpl in Hd. destruct (IH true Hd) as [d' [-> Hf]].
    exists (D (f x) :: d'). split; [reflexivity|]. unfold term_free_m. simpl. exact Hf.
  - unfold term_free_m in Hd. simpl in Hd. discriminate.
Qed.

Theorem xf_failed_propagates : forall win specs ch st i f p l d,
  mwf gtok mspec ms_ins ms_nout win specs ->
  mexec gtok mspec ms_ins ms_outs ms_done ms_accept win specs (minit gtok mspec specs) ch = Some st ->
  nth_error specs i = Some (MXf f p) -> nth_error st i = Some l -> ms_done (MXf f p) l = true ->
  mcontent gtok mspec ms_outs win specs st p = d ++ [E FAILED] -> term_free_m gtok d ->
  exists d', mcontent gtok mspec ms_outs win specs st (SOut i 0) = d' ++ [E FAILED] /\ term_free_m gtok d'.
Proof.
  intros win specs ch st i f p l d HW H Hsp Hl Hd Hc Hf.
  pose proof (reachable_inv gtok mspec ms_ins ms_nout ms_outs ms_done ms_accept win specs ms_contract HW ch _ _
                (minv_init gtok mspec ms_ins ms_outs win specs) H) as [_ I].
  destruct (I i (MXf f p) l 0 p Hsp Hl eq_refl) as [I1 _].
  simpl in Hd. unfold port_closed in Hd.
  assert (Hall : proj gtok 0 l = d ++ [E FAILED]).
  { rewrite I1 in Hd |- *. rewrite Hc in Hd |- *. apply (firstn_closed gtok); auto. }
  simpl. rewrite Hsp, Hl. simpl. rewrite Hall. apply xf_hist_closed_failed. exact Hf.
Qed.
