(* Frame/Corr.v — correspondence cases of the C25 check: each carries the input and what the Python
   implementation in the tree under examination produced; [check_case] runs the model and compares. *)
From Coq Require Import List Bool NArith Ascii.
From SF Require Import Base.Str Base.Dec Base.Corr.
From SF Require Export Shell.Model Frame.Model.
Import ListNotations.

Definition rerr_eqb (a b : rerr) : bool :=
  match a, b with
  | ETimeout, ETimeout | ETerminated, ETerminated | EBadCode, EBadCode | EHang, EHang | EClosed, EClosed => true
  | _, _ => false
  end.
Definition result_eqb (a b : result) : bool :=
  match a, b with
  | inl (o1, c1), inl (o2, c2) => String.eqb o1 o2 && N.eqb c1 c2
  | inr e1, inr e2 => rerr_eqb e1 e2
  | _, _ => false
  end.

Definition outcome_eqb (a b : outcome) : bool :=
  match a, b with
  | inl (Some (o1, c1)), inl (Some (o2, c2)) => String.eqb o1 o2 && N.eqb c1 c2
  | inl None, inl None => true
  | inr e1, inr e2 => rerr_eqb e1 e2
  | _, _ => false
  end.
Definition via_eqb (a b : via) : bool :=
  match a, b with ViaShell, ViaShell | ViaSubprocess, ViaSubprocess => true | _, _ => false end.

Inductive ccase :=
| CQuote (s r : string)                                   (* shlex.quote(s) = r *)
| CWords (s : string) (r : option (list string))          (* argv /bin/sh derived from the text s; None: sh failed *)
| CCreate (cmd : list string) (e : option env) (w : option string) (i : option stream) (o er : stream)
          (r : option string)                             (* utils.create_command(...); None: exception *)
| CBuild (marker : string) (cmd : list string) (e : option env) (w : option string) (r : string)
| CTemplate (e : option env) (r : string)                 (* rendered {{streamflow_environment}} *)
| CFrame (marker : string) (evs : list ev) (r : result) (unread : nat)   (* BaseShell._read_with_output on a scripted reader *)
| CSeq (cs : list cmd) (r : list (result * nat))          (* BaseConnector.run sequence: results and start counts *)
| CSeqState (cwd0 : string) (cs : list scmd) (r : list (string * N))   (* run() sequence with cd / export / exit / probes *)
| CRunAny (q : req) (marker : string) (resp : list ev) (fresh : outcome)
          (r : outcome) (starts : nat) (v : via).          (* one BaseConnector.run with job_name / stdin / capture_output *)

Definition check_case (c : ccase) : bool :=
  match c with
  | CQuote s r => String.eqb (quote s) r
  | CWords s r =>
      match sh_words s with
      | Some ws => opt_eqb (list_eqb String.eqb) (Some ws) r
      | None => true          (* the fragment makes no claim *)
      end
  | CCreate cmd e w i o er r =>
      match create_command cmd e w i o er with
      | inl line => opt_eqb String.eqb (Some line) r
      | inr _ => match r with None => true | Some _ => false end
      end
  | CBuild m cmd e w r => String.eqb (build_shell_command m cmd e w) r
  | CTemplate e r => String.eqb (template_env e) r
  | CFrame m evs r unread =>
      let (r', rest) := read_with_output m EmptyString evs in
      result_eqb r' r && Nat.eqb (length rest) unread
  | CSeq cs r => list_eqb (pair_eqb result_eqb Nat.eqb) (run_all false new_shell cs) r
  | CSeqState cwd0 cs r =>
      let st0 := {| s_cwd := cwd0; s_env := []; s_alive := true |} in
      list_eqb (pair_eqb String.eqb N.eqb) (run_state Wrapped st0 st0 cs) r
  | CRunAny q m resp fresh r n v =>
      match run_any false new_shell q m resp fresh with
      | (r', _, n', v') => outcome_eqb r' r && Nat.eqb n' n && via_eqb v' v
      end
  end.
