(* Frame/Model.v — the persistent shell of a connector: how the output of one command is cut out of
   the shell's output stream, and how BaseConnector.run falls back to a fresh process.
   Definitions only.

   ANCHORS:
     streamflow.deployment.shell.BaseShell._read_with_output   -> parse / read_with_output
     streamflow.deployment.shell.BaseShell.execute             -> execute
     streamflow.deployment.connector.base.BaseConnector.get_shell / run -> run
     streamflow.core.utils.run_in_shell                        -> (the re-raise inside [run])
   The stream is a list of events: [Chunk s] = one successful reader.read() returning the text s (after
   incremental UTF-8 decoding: the model works on the UTF-8 bytes, the marker being ASCII), [TimeoutEv] =
   asyncio.wait_for gave up at this point.  What the shell process will still emit stays in the event list. *)
From Coq Require Import Ascii Bool NArith.
From SF Require Import Base.Str Base.Dec.
Import ListNotations.
Local Open Scope list_scope. Local Open Scope string_scope.

Definition nl : ascii := "010"%char.

Fixpoint drop (n : nat) (s : string) : string :=
  match n, s with
  | O, _ => s
  | S n', String _ s' => drop n' s'
  | S _, EmptyString => EmptyString
  end.

(* str.find(p) for a non-empty p, as a split: s = a ++ p ++ b with the first occurrence of p *)
Fixpoint cut (p s : string) : option (string * string) :=
  if startswith p s then Some (EmptyString, drop (String.length p) s)
  else match s with
       | EmptyString => None
       | String c s' => match cut p s' with
                        | Some (a, b) => Some (String c a, b)
                        | None => None
                        end
       end.

(* str.isspace() on ASCII: \t \n \v \f \r, FS GS RS US, space *)
Definition is_space (c : ascii) : bool :=
  let n := N_of_ascii c in
  (N.leb 9 n && N.leb n 13) || (N.leb 28 n && N.leb n 32).

Fixpoint lstrip (s : string) : string :=
  match s with
  | String c s' => if is_space c then lstrip s' else s
  | EmptyString => EmptyString
  end.
Fixpoint rstrip (s : string) : string :=
  match s with
  | EmptyString => EmptyString
  | String c s' => match rstrip s' with
                   | EmptyString => if is_space c then EmptyString else String c EmptyString
                   | r => String c r
                   end
  end.
Definition py_strip (s : string) : string := rstrip (lstrip s).

Inductive rerr := ETimeout | ETerminated | EBadCode | EHang | EClosed.
Definition result := ((string * N) + rerr)%type.

(* the test made after every chunk:
     (marker_pos := output.find(f"{end_marker}:")) != -1 and (newline_pos := output.find("\n", marker_pos)) != -1
   then returncode_str = output[marker_pos + len(end_marker) + 1 : newline_pos], int() of it,
   final_output = output[:marker_pos].strip() *)
Definition parse (marker output : string) : option result :=
  let m := marker ++ ":" in
  match cut m output with
  | None => None
  | Some (pre, post) =>
      match cut (String nl EmptyString) (m ++ post) with
      | None => None
      | Some (upto_nl, _) =>
          Some (match undec (drop (String.length m) upto_nl) with
                | Some n => inl (py_strip pre, n)
                | None => inr EBadCode
                end)
      end
  end.

Inductive ev := Chunk (s : string) | TimeoutEv.

Fixpoint read_with_output (marker acc : string) (evs : list ev) : result * list ev :=
  match evs with
  | [] => (inr EHang, [])                               (* nothing ever arrives and no timeout was set *)
  | TimeoutEv :: r => (inr ETimeout, r)
  | Chunk EmptyString :: r => (inr ETerminated, r)      (* read() returned b"" *)
  | Chunk c :: r =>
      match parse marker (acc ++ c) with
      | Some res => (res, r)
      | None => read_with_output marker (acc ++ c) r
      end
  end.

(* ---------------------------------------------------------------- BaseShell.execute *)
Record shell := { closed : bool; pending : list ev }.
Definition new_shell : shell := {| closed := false; pending := [] |}.

(* [resp]: what the shell process emits, from now on, because of this command (chunks, and the
   moments where the reader's timeout strikes).  [close_on_timeout] = the code after the fix of this
   property (true) / before it (false). *)
Definition execute (close_on_timeout : bool) (sh : shell) (marker : string) (resp : list ev) : result * shell :=
  if closed sh then (inr EClosed, sh)
  else
    let (r, rest) := read_with_output marker EmptyString (app (pending sh) resp) in
    match r with
    | inr ETimeout => (r, {| closed := close_on_timeout; pending := rest |})
    | _ => (r, {| closed := false; pending := rest |})
    end.

(* ---------------------------------------------------------------- BaseConnector.run (job_name None, stdin None) *)
(* get_shell replaces a closed shell by a new one; a WorkflowExecutionException of the shell path is
   suppressed and the command is run again in a fresh process, whose result is [fresh].
   Third component: how many times the command was started. *)
Definition run (close_on_timeout : bool) (sh : shell) (marker : string) (resp : list ev) (fresh : result)
  : result * shell * nat :=
  let sh0 := if closed sh then new_shell else sh in
  match execute close_on_timeout sh0 marker resp with
  | (inl r, sh1) => (inl r, sh1, 1)
  | (inr _, sh1) => (fresh, sh1, 2)
  end.

(* a sequence of commands on one connector *)
Record cmd := { c_marker : string; c_resp : list ev; c_fresh : result }.
Fixpoint run_all (close_on_timeout : bool) (sh : shell) (cs : list cmd) : list (result * nat) :=
  match cs with
  | [] => []
  | c :: r =>
      match run close_on_timeout sh (c_marker c) (c_resp c) (c_fresh c) with
      | (res, sh1, n) => (res, n) :: run_all close_on_timeout sh1 r
      end
  end.

(* the response of a command that prints [out] and exits with [code], cut into chunks *)
Definition response (marker out : string) (code : N) : string :=
  out ++ marker ++ ":" ++ dec code ++ String nl EmptyString.

(* ---------------------------------------------------------------- BaseConnector.run, every argument combination *)
(* BaseShell._read_without_output: the same loop; it stops on the same condition
   (marker found and a newline after it) and returns None without parsing the status *)
Fixpoint read_without_output (marker acc : string) (evs : list ev) : (unit + rerr) * list ev :=
  match evs with
  | [] => (inr EHang, [])
  | TimeoutEv :: r => (inr ETimeout, r)
  | Chunk EmptyString :: r => (inr ETerminated, r)
  | Chunk c :: r =>
      match parse marker (acc ++ c) with
      | Some _ => (inl tt, r)
      | None => read_without_output marker (acc ++ c) r
      end
  end.

(* what run() returns: (output, status) when capture_output, else None; or an exception *)
Definition outcome := (option (string * N) + rerr)%type.

Record req := { r_job : bool;        (* job_name is not None *)
                r_stdin : bool;      (* stdin is not None *)
                r_capture : bool }.  (* capture_output *)
Inductive via := ViaShell | ViaSubprocess.

(* `if job_name is None and stdin is None:` *)
Definition use_shell (q : req) : bool := negb (r_job q) && negb (r_stdin q).

Definition execute_any (close_on_timeout capture : bool) (sh : shell) (marker : string) (resp : list ev)
  : outcome * shell :=
  if closed sh then (inr EClosed, sh)
  else if capture then
    match execute close_on_timeout sh marker resp with
    | (inl r, sh1) => (inl (Some r), sh1)
    | (inr e, sh1) => (inr e, sh1)
    end
  else
    let (r, rest) := read_without_output marker EmptyString (app (pending sh) resp) in
    match r with
    | inl _ => (inl None, {| closed := false; pending := rest |})
    | inr ETimeout => (inr ETimeout, {| closed := close_on_timeout; pending := rest |})
    | inr e => (inr e, {| closed := false; pending := rest |})
    end.

(* [fresh]: what utils.run_in_subprocess gives for this command.  Result, shell afterwards, number of
   times the command was started, and the path that produced the result. *)
Definition run_any (close_on_timeout : bool) (sh : shell) (q : req) (marker : string) (resp : list ev)
    (fresh : outcome) : outcome * shell * nat * via :=
  if use_shell q then
    let sh0 := if closed sh then new_shell else sh in
    match execute_any close_on_timeout (r_capture q) sh0 marker resp with
    | (inl r, sh1) => (inl r, sh1, 1, ViaShell)
    | (inr _, sh1) => (fresh, sh1, 2, ViaSubprocess)      (* suppressed; the command runs again *)
    end
  else (fresh, sh, 1, ViaSubprocess).

(* ---------------------------------------------------------------- what a command can do to the shell that runs it *)
(* The persistent shell is a process with a working directory and an environment.  A command line written to
   it BARE (as _build_shell_command did when neither environment nor workdir was given) is executed by that
   process itself: cd / export / exit act on it.  WRAPPED in a child `sh -c` (what the code does now, always)
   they act on a copy.  [SExt] is any external, stateless command with its output and status. *)
Inductive scmd := SCd (d : string) | SPwd | SExport (k v : string) | SEcho (k : string) | SExit (n : N)
                | SExt (out : string) (code : N).
Record sstate := { s_cwd : string; s_env : list (string * string); s_alive : bool }.
Inductive smode := Bare | Wrapped.

Fixpoint lookup (k : string) (e : list (string * string)) : string :=
  match e with
  | [] => EmptyString
  | (k', v) :: r => if String.eqb k k' then v else lookup k r
  end.

(* output and status of the command in a process whose state is [st] *)
Definition cmd_out (st : sstate) (c : scmd) : string * N :=
  match c with
  | SCd _ | SExport _ _ => (EmptyString, 0%N)
  | SPwd => (s_cwd st ++ String nl EmptyString, 0%N)
  | SEcho k => ("[" ++ lookup k (s_env st) ++ "]" ++ String nl EmptyString, 0%N)     (* echo "[$K]" *)
  | SExit n => (EmptyString, n)
  | SExt o c => (o, c)
  end.

(* its effect on the process that executes it *)
Definition cmd_effect (st : sstate) (c : scmd) : sstate :=
  match c with
  | SCd d => {| s_cwd := d; s_env := s_env st; s_alive := s_alive st |}
  | SExport k v => {| s_cwd := s_cwd st; s_env := (k, v) :: s_env st; s_alive := s_alive st |}
  | SExit _ => {| s_cwd := s_cwd st; s_env := s_env st; s_alive := false |}
  | _ => st
  end.

(* a sequence of run() calls on one location; [st0] is the state a new shell (and a fresh process) starts
   from; a dead shell is replaced by a new one (get_shell).  Returned: (strip output, status) per command. *)
Fixpoint run_state (m : smode) (st0 st : sstate) (cs : list scmd) : list (string * N) :=
  match cs with
  | [] => []
  | c :: r =>
      let cur := if s_alive st then st else st0 in
      (py_strip (fst (cmd_out cur c)), snd (cmd_out cur c))
      :: run_state m st0 (match m with Wrapped => cur | Bare => cmd_effect cur c end) r
  end.

Definition fresh_results (st0 : sstate) (cs : list scmd) : list (string * N) :=
  map (fun c => (py_strip (fst (cmd_out st0 c)), snd (cmd_out st0 c))) cs.
