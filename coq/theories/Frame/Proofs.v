(* Frame/Proofs.v — the end-marker framing of the persistent shell is exact and chunking-independent;
   sequences without timeouts behave like fresh processes; what a timeout does. *)
From Coq Require Import Ascii Bool NArith Lia.
From SF Require Import Base.Str Base.Dec Frame.Model.
Import ListNotations.
Local Open Scope list_scope. Local Open Scope string_scope.

(* ---------------------------------------------------------------- startswith / drop / cut *)
Lemma startswith_app p t : startswith p (p ++ t) = true.
Proof. induction p as [|c p IH]; simpl; [reflexivity|]. rewrite Ascii.eqb_refl. exact IH. Qed.

Lemma drop_app p t : drop (String.length p) (p ++ t) = t.
Proof. induction p as [|c p IH]; simpl; [destruct t; reflexivity|exact IH]. Qed.

Lemma drop_0 s : drop 0 s = s.
Proof. destruct s; reflexivity. Qed.

Lemma startswith_ext p : forall s q, startswith p s = true -> startswith p (s ++ q) = true.
Proof.
  induction p as [|c p IH]; intros s q H; [reflexivity|].
  destruct s as [|d s]; simpl in *; [discriminate|].
  apply andb_true_iff in H. destruct H as [H1 H2]. rewrite H1. simpl. apply IH. exact H2.
Qed.

Lemma startswith_len p : forall s, startswith p s = true -> String.length p <= String.length s.
Proof.
  induction p as [|c p IH]; intros s H; simpl; [lia|].
  destruct s as [|d s]; simpl in *; [discriminate|].
  apply andb_true_iff in H. destruct H as [_ H]. apply IH in H. lia.
Qed.

Lemma startswith_long p : forall s q, String.length p <= String.length s ->
  startswith p (s ++ q) = startswith p s.
Proof.
  induction p as [|c p IH]; intros s q H; [reflexivity|].
  destruct s as [|d s]; simpl in *; [lia|].
  rewrite IH by lia. reflexivity.
Qed.

Lemma drop_ext n : forall s q, n <= String.length s -> drop n (s ++ q) = drop n s ++ q.
Proof.
  induction n as [|n IH]; intros s q H; [rewrite !drop_0; reflexivity|].
  destruct s as [|d s]; simpl in *; [lia|]. apply IH. lia.
Qed.

Lemma cut_unfold p s :
  cut p s = if startswith p s then Some (EmptyString, drop (String.length p) s)
            else match s with
                 | EmptyString => None
                 | String c s' => match cut p s' with Some (a, b) => Some (String c a, b) | None => None end
                 end.
Proof. destruct s; reflexivity. Qed.

Lemma cut_some_len p : forall s a b, cut p s = Some (a, b) -> String.length p <= String.length s.
Proof.
  induction s as [|c s IH]; intros a b H; rewrite cut_unfold in H.
  - destruct (startswith p EmptyString) eqn:E; [apply startswith_len; exact E|discriminate].
  - destruct (startswith p (String c s)) eqn:E; [apply startswith_len; exact E|].
    destruct (cut p s) as [[a' b']|] eqn:C; [|discriminate].
    pose proof (IH a' b' eq_refl). simpl. lia.
Qed.

(* the first occurrence found in a text is still the first occurrence when the text grows *)
Lemma cut_ext p : forall s q a b, cut p s = Some (a, b) -> cut p (s ++ q) = Some (a, b ++ q).
Proof.
  induction s as [|c s IH]; intros q a b H; rewrite cut_unfold in H.
  - destruct (startswith p EmptyString) eqn:E; [|discriminate].
    destruct p; [|discriminate]. inversion H; subst. simpl. rewrite cut_unfold. simpl. rewrite ?drop_0.
    reflexivity.
  - destruct (startswith p (String c s)) eqn:E.
    + inversion H; subst. rewrite cut_unfold. rewrite startswith_ext by exact E.
      rewrite drop_ext by (apply startswith_len; exact E). reflexivity.
    + pose proof (cut_some_len p s) as L.
      destruct (cut p s) as [[a' b']|] eqn:C; [|discriminate]. inversion H; subst.
      specialize (L a' b eq_refl).
      change (String c s ++ q) with (String c (s ++ q)). rewrite cut_unfold.
      change (String c (s ++ q)) with (String c s ++ q).
      rewrite startswith_long by (simpl; lia).
      rewrite E. change (String c s ++ q) with (String c (s ++ q)). rewrite (IH q a' b eq_refl). reflexivity.
Qed.

(* no occurrence of p starts inside [out] when [out] is followed by p and t *)
Fixpoint no_early (p out t : string) : bool :=
  match out with
  | EmptyString => true
  | String c o' => negb (startswith p (out ++ p ++ t)) && no_early p o' t
  end.

Lemma cut_first p : forall out t, no_early p out t = true -> cut p (out ++ p ++ t) = Some (out, t).
Proof.
  induction out as [|c o IH]; intros t H.
  - simpl. rewrite cut_unfold, startswith_app, drop_app. reflexivity.
  - simpl in H. apply andb_true_iff in H. destruct H as [H1 H2]. apply negb_true_iff in H1.
    change (String c o ++ p ++ t) with (String c (o ++ p ++ t)) in *.
    rewrite cut_unfold, H1, (IH t H2). reflexivity.
Qed.

Lemma cut_none_nochar c : forall s, has_char c s = false -> cut (String c EmptyString) s = None.
Proof.
  induction s as [|d s IH]; intros H; [reflexivity|].
  simpl in H. apply orb_false_iff in H. destruct H as [H1 H2].
  rewrite cut_unfold. simpl. rewrite Ascii.eqb_sym, H1. simpl. rewrite IH by exact H2. reflexivity.
Qed.

Lemma cut_char_first c : forall a b, has_char c a = false ->
  cut (String c EmptyString) (a ++ String c b) = Some (a, b).
Proof.
  induction a as [|d a IH]; intros b H.
  - simpl. rewrite cut_unfold. simpl. rewrite Ascii.eqb_refl. simpl. rewrite ?drop_0. reflexivity.
  - simpl in H. apply orb_false_iff in H. destruct H as [H1 H2].
    change (String d a ++ String c b) with (String d (a ++ String c b)).
    rewrite cut_unfold. simpl. rewrite Ascii.eqb_sym, H1. simpl. rewrite IH by exact H2. reflexivity.
Qed.

(* a proper prefix of X ++ "\n" contains no newline when X contains none *)
Lemma proper_prefix_nochar c : forall b q x, b ++ q = x ++ String c EmptyString -> q <> EmptyString ->
  has_char c x = false -> has_char c b = false.
Proof.
  induction b as [|d b IH]; intros q x E Hq Hx; [reflexivity|].
  destruct x as [|e x].
  - simpl in E. inversion E as [[E1 E2]]. destruct b; [|discriminate]. simpl in E2. congruence.
  - simpl in E. inversion E as [[E1 E2]]. subst e. simpl in Hx. apply orb_false_iff in Hx.
    destruct Hx as [Hx1 Hx2]. simpl. rewrite Hx1. simpl. eapply IH; eassumption.
Qed.

Lemma append_inv_head a : forall b c, a ++ b = a ++ c -> b = c.
Proof. induction a as [|x a IH]; simpl; intros b c H; [exact H|]. inversion H. auto. Qed.

(* ---------------------------------------------------------------- one command *)
Section OneCommand.
  Variables (marker out : string) (code : N).
  Let m := marker ++ ":".
  Let t := dec code ++ String nl EmptyString.
  Hypothesis marker_no_nl : has_char nl marker = false.
  Hypothesis marker_free : no_early m out t = true.

  Let S := out ++ m ++ t.

  Lemma m_no_nl : has_char nl m = false.
  Proof. unfold m. rewrite has_char_append, marker_no_nl. reflexivity. Qed.

  Lemma dec_no_nl : has_char nl (dec code) = false.
  Proof. apply digits_no_char; [reflexivity|apply dec_digits]. Qed.

  Lemma parse_full : parse marker S = Some (inl (py_strip out, code)).
  Proof.
    unfold parse. fold m. unfold S. rewrite (cut_first m out t marker_free).
    unfold t. rewrite <- append_assoc.
    rewrite cut_char_first by (rewrite has_char_append, m_no_nl, dec_no_nl; reflexivity).
    rewrite drop_app, undec_dec. reflexivity.
  Qed.

  Lemma parse_prefix p q : p ++ q = S -> q <> EmptyString -> parse marker p = None.
  Proof.
    intros E Hq. unfold parse. fold m.
    destruct (cut m p) as [[a b]|] eqn:C; [|reflexivity].
    pose proof (cut_ext m p q a b C) as C2. rewrite E in C2. unfold S in C2.
    rewrite (cut_first m out t marker_free) in C2. inversion C2; subst a.
    assert (Hb : has_char nl b = false).
    { eapply proper_prefix_nochar; [symmetry; unfold t in *; eassumption|exact Hq|apply dec_no_nl]. }
    rewrite cut_none_nochar; [reflexivity|]. rewrite has_char_append, m_no_nl, Hb. reflexivity.
  Qed.

  Definition cat (l : list string) : string := fold_right String.append EmptyString l.

  Lemma cat_nonempty l : l <> [] -> (forall c, In c l -> c <> EmptyString) -> cat l <> EmptyString.
  Proof.
    destruct l as [|c l]; intros H1 H2; [congruence|].
    simpl. specialize (H2 c (or_introl eq_refl)). destruct c; [congruence|discriminate].
  Qed.

  (* however the response is cut into non-empty chunks, reading stops exactly at its end with the exact
     output and exit code, and leaves the rest of the stream untouched *)
  Lemma read_chunks chunks : forall acc rest,
    chunks <> [] -> (forall c, In c chunks -> c <> EmptyString) -> acc ++ cat chunks = S ->
    read_with_output marker acc (app (map Chunk chunks) rest) = (inl (py_strip out, code), rest).
  Proof.
    induction chunks as [|c cs IH]; intros acc rest Hne Hall E; [congruence|].
    assert (Hc : c <> EmptyString) by (apply Hall; left; reflexivity).
    destruct c as [|c0 c']; [congruence|].
    cbn [map app read_with_output].
    destruct cs as [|c2 cs].
    - simpl in E. rewrite append_nil_r in E. rewrite E, parse_full. reflexivity.
    - rewrite (parse_prefix (acc ++ String c0 c') (cat (c2 :: cs))).
      + apply IH; [discriminate|intros x Hx; apply Hall; right; exact Hx|].
        rewrite append_assoc. exact E.
      + rewrite append_assoc. exact E.
      + apply cat_nonempty; [discriminate|intros x Hx; apply Hall; right; exact Hx].
  Qed.
End OneCommand.

(* ---------------------------------------------------------------- sequences *)
(* a command whose shell response is the exact framing of (out, code) in non-empty chunks *)
Record wf_cmd (c : cmd) (out : string) (code : N) : Prop := {
  wf_marker : has_char nl (c_marker c) = false;
  wf_free : no_early (c_marker c ++ ":") out (dec code ++ String nl EmptyString) = true;
  wf_chunks : exists chunks, chunks <> [] /\ (forall x, In x chunks -> x <> EmptyString) /\
                cat chunks = response (c_marker c) out code /\ c_resp c = map Chunk chunks }.

Lemma run_wf flag sh c out code :
  closed sh = true \/ pending sh = [] -> wf_cmd c out code ->
  exists sh', run flag sh (c_marker c) (c_resp c) (c_fresh c) = (inl (py_strip out, code), sh', 1)
              /\ closed sh' = false /\ pending sh' = [].
Proof.
  intros Hsh [Hm Hf (chunks & Hne & Hall & Hcat & Hresp)].
  unfold run.
  assert (E : execute flag (if closed sh then new_shell else sh) (c_marker c) (c_resp c)
              = (inl (py_strip out, code), {| closed := false; pending := [] |})).
  { assert (P : closed (if closed sh then new_shell else sh) = false /\
                pending (if closed sh then new_shell else sh) = []).
    { destruct (closed sh) eqn:C; [split; reflexivity|]. destruct Hsh as [H|H]; [congruence|]. split; assumption. }
    destruct P as [P1 P2]. unfold execute. rewrite P1, P2, Hresp. cbn [app].
    rewrite <- (app_nil_r (map Chunk chunks)).
    rewrite (read_chunks (c_marker c) out code Hm Hf chunks EmptyString [] Hne Hall).
    - reflexivity.
    - simpl. rewrite Hcat. unfold response. rewrite !append_assoc. reflexivity. }
  rewrite E. eexists. split; [reflexivity|]. split; reflexivity.
Qed.

(* any sequence of well-framed commands on one persistent shell: every command is started once and
   returns what a fresh process returns, (strip out, code) *)
Theorem run_all_wf flag : forall cs outs sh,
  closed sh = true \/ pending sh = [] ->
  Forall2 (fun c oc => wf_cmd c (fst oc) (snd oc)) cs outs ->
  run_all flag sh cs = map (fun oc => (inl (py_strip (fst oc), snd oc), 1)) outs.
Proof.
  induction cs as [|c cs IH]; intros outs sh Hsh HF; inversion HF; subst; [reflexivity|].
  cbn [run_all map]. destruct y as [out code]. cbn [fst snd] in *.
  destruct (run_wf flag sh c out code Hsh H1) as (sh' & -> & C' & P').
  f_equal. apply IH; [right; exact P'|assumption].
Qed.

(* with the shell closed on a timeout (the code after the fix), what follows a timed-out command is
   unaffected by it, whatever the shell process still had to say *)
Theorem timeout_then_wf sh c1 cs outs late :
  closed sh = false ->
  read_with_output (c_marker c1) EmptyString (app (pending sh) (c_resp c1)) = (inr ETimeout, late) ->
  Forall2 (fun c oc => wf_cmd c (fst oc) (snd oc)) cs outs ->
  run_all true sh (c1 :: cs) =
    (c_fresh c1, 2) :: map (fun oc => (inl (py_strip (fst oc), snd oc), 1)) outs.
Proof.
  intros Hc Hr HF. cbn [run_all]. unfold run at 1. rewrite Hc. unfold execute. rewrite Hc, Hr.
  f_equal. apply run_all_wf; [left; reflexivity|exact HF].
Qed.

(* ---------------------------------------------------------------- when is the marker "free"? *)
(* [no_early] follows from what one would say informally: the marker contains no ':' and
   marker":" does not occur in the output. *)
Lemma startswith_split p : forall X R, startswith p (X ++ R) = true ->
  startswith p X = true \/ (exists p2, p2 <> EmptyString /\ p = X ++ p2 /\ startswith p2 R = true).
Proof.
  induction p as [|c p IH]; intros X R H; [left; destruct X; reflexivity|].
  destruct X as [|x X].
  - right. exists (String c p). split; [discriminate|split; [reflexivity|exact H]].
  - simpl in H. apply andb_true_iff in H. destruct H as [Hc Hp].
    destruct (IH X R Hp) as [Hl|(p2 & Hne & -> & Hs)].
    + left. simpl. rewrite Hc, Hl. reflexivity.
    + right. exists p2. split; [exact Hne|]. apply Ascii.eqb_eq in Hc. subst x. split; [reflexivity|exact Hs].
Qed.

Lemma has_char_prefix c p : forall a, startswith p a = true -> has_char c p = true -> has_char c a = true.
Proof.
  induction p as [|x p IH]; intros a Hs Hc; [discriminate|].
  destruct a as [|y a]; simpl in *; [discriminate|].
  apply andb_true_iff in Hs. destruct Hs as [Hxy Hs]. apply Ascii.eqb_eq in Hxy. subst y.
  apply orb_true_iff in Hc. destruct Hc as [Hc|Hc]; [rewrite Hc; reflexivity|].
  rewrite (IH a Hs Hc). apply orb_true_r.
Qed.

Lemma last_colon : forall X a p2, a ++ ":" = X ++ p2 -> p2 <> EmptyString -> has_char ":"%char p2 = true.
Proof.
  induction X as [|x X IH]; intros a p2 E Hne.
  - simpl in E. subst p2. rewrite has_char_append. simpl. apply orb_true_r.
  - destruct a as [|y a]; simpl in E.
    + inversion E as [[E1 E2]]. destruct X; [simpl in E2; congruence|discriminate].
    + inversion E as [[E1 E2]]. eapply IH; eassumption.
Qed.

Theorem no_early_intro marker : has_char ":"%char marker = false ->
  forall out t, cut (marker ++ ":") out = None -> no_early (marker ++ ":") out t = true.
Proof.
  intros Hm. induction out as [|c o IH]; intros t Hc; [reflexivity|].
  rewrite cut_unfold in Hc.
  destruct (startswith (marker ++ ":") (String c o)) eqn:Es; [discriminate|].
  destruct (cut (marker ++ ":") o) as [[a b]|] eqn:Eo; [discriminate|].
  cbn [no_early]. rewrite (IH t eq_refl), andb_true_r. apply negb_true_iff.
  destruct (startswith (marker ++ ":") (String c o ++ (marker ++ ":") ++ t)) eqn:E; [|reflexivity].
  exfalso. destruct (startswith_split _ _ _ E) as [Hl|(p2 & Hne & Heq & Hs)]; [congruence|].
  pose proof (last_colon _ _ _ Heq Hne) as Hcol.
  assert (Hlen : String.length p2 <= String.length marker).
  { apply (f_equal String.length) in Heq. rewrite !length_append in Heq. simpl in Heq. lia. }
  rewrite append_assoc in Hs. rewrite startswith_long in Hs by exact Hlen.
  rewrite (has_char_prefix _ _ _ Hs Hcol) in Hm. discriminate.
Qed.

(* ---------------------------------------------------------------- run(), every argument combination, no timeout *)
Lemma read_without_chunks marker out code :
  has_char nl marker = false ->
  no_early (marker ++ ":") out (dec code ++ String nl EmptyString) = true ->
  forall chunks acc rest,
  chunks <> [] -> (forall c, In c chunks -> c <> EmptyString) ->
  acc ++ cat chunks = out ++ (marker ++ ":") ++ dec code ++ String nl EmptyString ->
  read_without_output marker acc (app (map Chunk chunks) rest) = (inl tt, rest).
Proof.
  intros Hm Hf. induction chunks as [|c cs IH]; intros acc rest Hne Hall E; [congruence|].
  assert (Hc : c <> EmptyString) by (apply Hall; left; reflexivity).
  destruct c as [|c0 c']; [congruence|].
  cbn [map app read_without_output].
  destruct cs as [|c2 cs].
  - simpl in E. rewrite append_nil_r in E. rewrite E, (parse_full marker out code Hm Hf). reflexivity.
  - rewrite (parse_prefix marker out code Hm Hf (acc ++ String c0 c') (cat (c2 :: cs))).
    + apply IH; [discriminate|intros x Hx; apply Hall; right; exact Hx|].
      rewrite append_assoc. exact E.
    + rewrite append_assoc. exact E.
    + apply cat_nonempty; [discriminate|intros x Hx; apply Hall; right; exact Hx].
Qed.

Definition clean (sh : shell) : Prop := closed sh = true \/ pending sh = [].

(* For every combination of job_name / stdin / capture_output, on a clean shell and a well-framed response
   (no timeout, no EOF): the command is started exactly once; through the shell it returns
   (strip out, code) or None according to capture_output, otherwise what the fresh process returns;
   and the shell is clean afterwards. *)
Theorem run_any_once flag sh q c out code fresh :
  clean sh -> wf_cmd c out code ->
  exists sh',
    run_any flag sh q (c_marker c) (c_resp c) fresh
    = (if use_shell q then inl (if r_capture q then Some (py_strip out, code) else None) else fresh,
       sh', 1, if use_shell q then ViaShell else ViaSubprocess)
    /\ clean sh'.
Proof.
  intros Hsh [Hm Hf (chunks & Hne & Hall & Hcat & Hresp)].
  unfold run_any. destruct (use_shell q); [|exists sh; split; [reflexivity|exact Hsh]].
  assert (P : closed (if closed sh then new_shell else sh) = false /\
              pending (if closed sh then new_shell else sh) = []).
  { destruct (closed sh) eqn:C; [split; reflexivity|]. destruct Hsh as [H|H]; [congruence|]. split; assumption. }
  destruct P as [P1 P2].
  assert (S : EmptyString ++ cat chunks = out ++ (c_marker c ++ ":") ++ dec code ++ String nl EmptyString).
  { simpl. rewrite Hcat. unfold response. rewrite !append_assoc. reflexivity. }
  unfold execute_any. rewrite P1. destruct (r_capture q).
  - unfold execute. rewrite P1, P2, Hresp. cbn [app].
    rewrite <- (app_nil_r (map Chunk chunks)).
    rewrite (read_chunks (c_marker c) out code Hm Hf chunks EmptyString [] Hne Hall S).
    eexists. split; [reflexivity|right; reflexivity].
  - rewrite P2, Hresp. cbn [app]. rewrite <- (app_nil_r (map Chunk chunks)).
    rewrite (read_without_chunks (c_marker c) out code Hm Hf chunks EmptyString [] Hne Hall S).
    eexists. split; [reflexivity|right; reflexivity].
Qed.

(* ---------------------------------------------------------------- shell state *)
Lemma run_state_wrapped st0 : s_alive st0 = true ->
  forall cs, run_state Wrapped st0 st0 cs = fresh_results st0 cs.
Proof.
  intros Ha. induction cs as [|c cs IH]; [reflexivity|].
  cbn [run_state fresh_results map]. rewrite Ha. f_equal. exact IH.
Qed.

Definition st_demo : sstate := {| s_cwd := "/work"; s_env := []; s_alive := true |}.
Lemma run_state_bare_leaks :
  run_state Bare st_demo st_demo [SCd "/tmp"; SPwd] = [("", 0%N); ("/tmp", 0%N)] /\
  fresh_results st_demo [SCd "/tmp"; SPwd] = [("", 0%N); ("/work", 0%N)] /\
  run_state Bare st_demo st_demo [SExport "FOO" "1"; SEcho "FOO"] = [("", 0%N); ("[1]", 0%N)] /\
  fresh_results st_demo [SExport "FOO" "1"; SEcho "FOO"] = [("", 0%N); ("[]", 0%N)] /\
  run_state Wrapped st_demo st_demo [SCd "/tmp"; SPwd; SExport "FOO" "1"; SEcho "FOO"; SExit 3; SPwd]
    = [("", 0%N); ("/work", 0%N); ("", 0%N); ("[]", 0%N); ("", 3%N); ("/work", 0%N)].
Proof. vm_compute. repeat split; reflexivity. Qed.
