(* Crate/Checker.v — an executable checker for exported Workflow Run RO-Crates (property C34).

   This is NOT a model of the generator (streamflow/provenance/run_crate.py, 1 500 lines of JSON assembly):
   it is a checker, proved sound and complete (Crate/Proofs.v) for the declarative predicate of Crate/Spec.v,
   that is evaluated inside Coq on every crate the harness exports from a real run.

   ANCHORS (what produces the data this checker judges):
     streamflow.provenance.run_crate.RunCrateProvenanceManager.create_archive
     streamflow.provenance.run_crate.RunCrateProvenanceManager.add_file
     streamflow.provenance.run_crate.RunCrateProvenanceManager._get_property_values
     streamflow.provenance.run_crate.RunCrateProvenanceManager._list_dir
     streamflow.provenance.run_crate.RunCrateProvenanceManager._rename_parts
     streamflow.provenance.run_crate.RunCrateProvenanceManager._update_actions
     streamflow.provenance.run_crate.CWLRunCrateProvenanceManager._process_file_token
     streamflow.provenance.run_crate.CWLRunCrateProvenanceManager.get_property_value
     streamflow.provenance.run_crate.CWLRunCrateProvenanceManager.get_main_entity
     streamflow.provenance.run_crate.CWLRunCrateProvenanceManager.add_initial_inputs
     streamflow.main._async_prov

   Inputs: the @graph array of ro-crate-metadata.json as parsed JSON; the zip entries as
   (name, sha1 hex digest, size) with digests computed by the harness; the workflow-level input and
   output values of the run.  Definitions only (no proofs) so that the checker runs even if a proof breaks. *)
From Coq Require Import Bool NArith.
From SF Require Import Base.Str Base.Dec.
Import ListNotations.
Local Open Scope string_scope. Local Open Scope list_scope.

(* vm_compute is call-by-value: [a && b] evaluates b even when a is false.  Where that matters for the cost
   (nested searches) the checker uses the lazy forms below; they are convertible with andb / orb. *)
Notation "a &&& b" := (if a then b else false) (at level 40, left associativity).
Notation "a ||| b" := (if a then true else b) (at level 50, left associativity).

(* ---------------------------------------------------------------- JSON *)
Inductive json :=
| JNull
| JBool (b : bool)
| JNum (s : string)                       (* the number's JSON text *)
| JStr (s : string)
| JArr (l : list json)
| JObj (l : list (string * json)).

Fixpoint field (k : string) (l : list (string * json)) : option json :=
  match l with
  | [] => None
  | (k', v) :: r => if String.eqb k' k then Some v else field k r
  end.

Definition get (j : json) (k : string) : option json :=
  match j with JObj l => field k l | _ => None end.

(* the id of a reference object {"@id": "..."} (also the @id of an entity) *)
Definition ref_of (j : json) : option string :=
  match get j "@id" with Some (JStr s) => Some s | _ => None end.

Definition ent_id (e : json) : option string := ref_of e.

Fixpoint strs (l : list json) : list string :=
  match l with
  | [] => []
  | JStr s :: r => s :: strs r
  | _ :: r => strs r
  end.

Definition types (e : json) : list string :=
  match get e "@type" with
  | Some (JStr s) => [s]
  | Some (JArr l) => strs l
  | _ => []
  end.

Definition str_in (s : string) (l : list string) : bool := existsb (String.eqb s) l.
Definition has_type (e : json) (t : string) : bool := str_in t (types e).
Definition id_is (e : json) (i : string) : bool :=
  match ent_id e with Some j => String.eqb j i | None => false end.

(* ids of all reference objects occurring in a property value, at any depth *)
Fixpoint vrefs (j : json) : list string :=
  match j with
  | JArr l => flat_map vrefs l
  | JObj l => (match field "@id" l with Some (JStr s) => [s] | _ => [] end)
              ++ flat_map (fun kv => vrefs (snd kv)) l
  | _ => []
  end.

(* references made by an entity: those inside its property values (its own @id is not a reference) *)
Definition erefs (e : json) : list string :=
  match e with JObj l => flat_map (fun kv => vrefs (snd kv)) l | _ => [] end.

Definition prop_refs (e : json) (k : string) : list string :=
  match get e k with Some v => vrefs v | None => [] end.

(* web resources need no contextual entity *)
Definition external (r : string) : bool := startswith "http://" r || startswith "https://" r.

(* ---------------------------------------------------------------- archive *)
Definition entry := (string * string * N)%type.       (* name, sha1 digest, size *)
Definition en_name (e : entry) := fst (fst e).
Definition en_digest (e : entry) := snd (fst e).
Definition en_size (e : entry) := snd e.

Definition has_entry (ar : list entry) (n : string) : bool :=
  existsb (fun en => String.eqb (en_name en) n) ar.

(* recorded checksum / size of an entity against an entry: absent = nothing recorded *)
Definition sha_ok (e : json) (d : string) : bool :=
  match get e "sha1" with
  | None => true
  | Some (JStr h) => String.eqb h d
  | Some _ => false
  end.

Definition size_ok (e : json) (s : N) : bool :=
  match get e "contentSize" with
  | None => true
  | Some (JStr t) => String.eqb t (dec s)
  | Some (JNum t) => String.eqb t (dec s)
  | Some _ => false
  end.

(* ---------------------------------------------------------------- run values *)
Inductive item :=
| IFile (sha1 : string) (size : N)
| ILit (alts : list string)             (* accepted texts of a literal: Python str() and JSON *)
| IDir (files : list (string * N)).     (* a directory: sha1 and size of every file below it *)

Inductive value :=
| VItem (i : item)
| VList (l : list item)
| VDir (files : list (string * N))      (* sha1 and size of every file below the directory *)
| VRecord (fields : list item)          (* a record: the values of its fields *)
| VColl (sha1 : string) (size : N) (secs : list (string * N)).   (* a File with its secondaryFiles *)

Record rv := RV { rv_in : bool; rv_param : string; rv_val : value }.

Definition graph := list json.

(* ---------------------------------------------------------------- the clauses *)
Definition all_ids (g : graph) : bool :=
  forallb (fun e => match ent_id e with Some _ => true | None => false end) g.

Definition ids (g : graph) : list string :=
  flat_map (fun e => match ent_id e with Some i => [i] | None => [] end) g.

Fixpoint nodupb (l : list string) : bool :=
  match l with
  | [] => true
  | x :: r => negb (str_in x r) && nodupb r
  end.

Definition resolves (g : graph) (r : string) : bool := existsb (fun e => id_is e r) g.

Definition refs_ok (g : graph) : bool :=
  forallb (fun e => forallb (fun r => external r || resolves g r) (erefs e)) g.

(* a File entity always records its checksum *)
Definition has_sha (e : json) : bool :=
  match get e "sha1" with Some (JStr _) => true | _ => false end.

Definition file_entity_ok (ar : list entry) (e : json) : bool :=
  match ent_id e with
  | None => false
  | Some i =>
      has_sha e && has_entry ar i &&
      forallb (fun en => negb (String.eqb (en_name en) i) || (sha_ok e (en_digest en) && size_ok e (en_size en))) ar
  end.

Definition files_ok (g : graph) (ar : list entry) : bool :=
  forallb (fun e => negb (has_type e "File") || file_entity_ok ar e) g.

(* a File entity with id y, checksum h, whose archive entries all have digest h and size s *)
Definition sha_is (e : json) (h : string) : bool :=
  match get e "sha1" with Some (JStr x) => String.eqb x h | _ => false end.

Definition file_ok (g : graph) (ar : list entry) (y h : string) (s : N) : bool :=
  existsb (fun e => id_is e y && has_type e "File" && sha_is e h) g &&
  has_entry ar y &&
  forallb (fun en => negb (String.eqb (en_name en) y) || (String.eqb (en_digest en) h && N.eqb (en_size en) s)) ar.

Definition lit_text (j : json) : option string :=
  match j with
  | JStr s => Some s
  | JNum s => Some s
  | JBool true => Some "true"
  | JBool false => Some "false"
  | _ => None
  end.

(* y is reachable from x through at most n hasPart links *)
Fixpoint reachb (g : graph) (n : nat) (x y : string) : bool :=
  String.eqb x y |||
  match n with
  | O => false
  | S n' => existsb (fun e => id_is e x &&& existsb (fun z => reachb g n' z y) (prop_refs e "hasPart")) g
  end.

Definition dir_depth : nat := 16.

(* below x (through hasPart) there is a good File entity for every listed file *)
Definition dir_files_ok (g : graph) (ar : list entry) (x : string) (files : list (string * N)) : bool :=
  forallb (fun f => existsb (fun fe => match ent_id fe with
                                       | Some y => reachb g dir_depth x y && file_ok g ar y (fst f) (snd f)
                                       | None => false end) g) files.

Definition item_ok (g : graph) (ar : list entry) (j : json) (it : item) : bool :=
  match it with
  | IFile h s => match ref_of j with Some y => file_ok g ar y h s | None => false end
  | ILit alts => match lit_text j with Some t => str_in t alts | None => false end
  | IDir files => match ref_of j with
                  | Some y => existsb (fun e => id_is e y && has_type e "Dataset") g && dir_files_ok g ar y files
                  | None => false
                  end
  end.

Fixpoint items_ok (g : graph) (ar : list entry) (js : list json) (its : list item) : bool :=
  match js, its with
  | [], [] => true
  | j :: js', it :: its' => item_ok g ar j it && items_ok g ar js' its'
  | _, _ => false
  end.

Definition as_list (j : json) : list json := match j with JArr l => l | _ => [j] end.

(* entity e (whose id is x) carries the item; the entity called y carries the item *)
Definition ival_ok (g : graph) (ar : list entry) (e : json) (x : string) (it : item) : bool :=
  match it with
  | IFile h s => file_ok g ar x h s
  | ILit alts =>
      has_type e "PropertyValue" &&
      match get e "value" with Some j => item_ok g ar j (ILit alts) | None => false end
  | IDir files => has_type e "Dataset" && dir_files_ok g ar x files
  end.

Definition icarried (g : graph) (ar : list entry) (y : string) (it : item) : bool :=
  existsb (fun e => id_is e y &&& ival_ok g ar e y it) g.

(* the elements of a record's value array are the carriers of its fields: every field has one, every element is one *)
Definition record_ok (g : graph) (ar : list entry) (js : list json) (fields : list item) : bool :=
  forallb (fun it => existsb (fun el => match ref_of el with Some y => icarried g ar y it | None => false end) js) fields &&
  forallb (fun el => match ref_of el with Some y => existsb (icarried g ar y) fields | None => false end) js.

(* entity e (whose id is x) carries the value *)
Definition val_ok (g : graph) (ar : list entry) (e : json) (x : string) (v : value) : bool :=
  match v with
  | VItem (IFile h s) => file_ok g ar x h s
  | VItem (ILit alts) =>
      has_type e "PropertyValue" &&
      match get e "value" with Some j => item_ok g ar j (ILit alts) | None => false end
  | VList its =>
      has_type e "PropertyValue" &&
      match get e "value" with Some j => items_ok g ar (as_list j) its | None => false end
  | VItem (IDir files) => has_type e "Dataset" && dir_files_ok g ar x files
  | VDir files => has_type e "Dataset" && dir_files_ok g ar x files
  | VRecord fields =>
      has_type e "PropertyValue" &&
      match get e "value" with Some j => record_ok g ar (as_list j) fields | None => false end
  | VColl h s secs =>
      has_type e "Collection" &&
      match get e "mainEntity" with
      | Some j => match ref_of j with Some y => file_ok g ar y h s | None => false end
      | None => false
      end &&
      forallb (fun f => existsb (fun z => file_ok g ar z (fst f) (snd f)) (prop_refs e "hasPart")) secs
  end.

Definition name_is (e : json) (n : string) : bool :=
  match get e "name" with Some (JStr s) => String.eqb s n | _ => false end.

(* p is a formal parameter called [name], listed under input/output of the main entity *)
Definition is_param (g : graph) (mainE : json) (inp : bool) (name p : string) : bool :=
  str_in p (prop_refs mainE (if inp then "input" else "output")) &&
  existsb (fun pe => id_is pe p && has_type pe "FormalParameter" && name_is pe name) g.

Definition main_of (root : json) : option string :=
  match get root "mainEntity" with Some j => ref_of j | None => None end.

(* a is the action of the workflow run: a CreateAction mentioned by the root whose instrument is the main entity *)
Definition is_action (root : json) (m : string) (a : json) : bool :=
  has_type a "CreateAction" &&
  match ent_id a with Some i => str_in i (prop_refs root "mentions") | None => false end &&
  match get a "instrument" with
  | Some j => match ref_of j with Some i => String.eqb i m | None => false end
  | None => false
  end.

Definition rv_ok (g : graph) (ar : list entry) (v : rv) : bool :=
  existsb (fun root =>
    id_is root "./" &&&
    match main_of root with
    | None => false
    | Some m =>
        existsb (fun mainE =>
          id_is mainE m &&&
          existsb (fun a =>
            is_action root m a &&&
            existsb (fun x =>
              existsb (fun e =>
                id_is e x &&&
                (existsb (is_param g mainE (rv_in v) (rv_param v)) (prop_refs e "exampleOfWork") &&&
                 val_ok g ar e x (rv_val v))) g)
              (prop_refs a (if rv_in v then "object" else "result"))) g) g
    end) g.

Definition values_ok (g : graph) (ar : list entry) (vs : list rv) : bool := forallb (rv_ok g ar) vs.

(* ---------------------------------------------------------------- step level: what the actions of a step list
   A step value says: the workflow step whose HowToStep entity is [sv_step] ran the jobs [sv_jobs] (one for a plain
   step, one per element for a scattered step).  A job consumed [j_ins] (all of its inputs when [j_closed]) and,
   when known, produced [j_out]. *)
Record job := Job { j_ins : list value; j_closed : bool; j_out : option value }.
Record sv := SV { sv_step : string; sv_jobs : list job }.

(* c is the ControlAction orchestrating step s *)
Definition is_control (c : json) (s : string) : bool :=
  has_type c "ControlAction" &&&
  match get c "instrument" with
  | Some j => match ref_of j with Some i => String.eqb i s | None => false end
  | None => false
  end.

(* the entity called x carries the value v *)
Definition carries (g : graph) (ar : list entry) (x : string) (v : value) : bool :=
  existsb (fun e => id_is e x &&& val_ok g ar e x v) g.

(* action a is the record of job j: its object lists a carrier of every consumed value (and nothing else when all
   inputs are known), its result lists at least one entity and only carriers of the produced value *)
Definition job_ok (g : graph) (ar : list entry) (a : json) (j : job) : bool :=
  forallb (fun v => existsb (fun x => carries g ar x v) (prop_refs a "object")) (j_ins j) &&&
  ((if j_closed j
    then forallb (fun x => existsb (fun v => carries g ar x v) (j_ins j)) (prop_refs a "object")
    else true) &&&
   match j_out j with
   | None => true
   | Some v => match prop_refs a "result" with
               | [] => false
               | rs => forallb (fun x => carries g ar x v) rs
               end
   end).

(* the actions a ControlAction of step s lists under object *)
Definition is_step_action (g : graph) (s : string) (a : json) : bool :=
  match ent_id a with
  | Some i => existsb (fun c => is_control c s &&& str_in i (prop_refs c "object")) g
  | None => false
  end.

Definition step_actions (g : graph) (s : string) : list json := filter (is_step_action g s) g.

Definition sv_ok (g : graph) (ar : list entry) (v : sv) : bool :=
  forallb (fun a => existsb (job_ok g ar a) (sv_jobs v)) (step_actions g (sv_step v)) &&&
  forallb (fun j => existsb (fun a => job_ok g ar a j) (step_actions g (sv_step v))) (sv_jobs v).

Definition steps_ok (g : graph) (ar : list entry) (ss : list sv) : bool := forallb (sv_ok g ar) ss.

Definition crate_ok (g : graph) (ar : list entry) (vs : list rv) (ss : list sv) : bool :=
  all_ids g && nodupb (ids g) && refs_ok g && nodupb (map en_name ar) && files_ok g ar && values_ok g ar vs &&
  steps_ok g ar ss.

(* ---------------------------------------------------------------- the metadata document
   ro-crate-metadata.json as a whole: a JSON-LD document with an @context and an @graph array *)
Definition doc_ok (m : json) (ar : list entry) (vs : list rv) (ss : list sv) : bool :=
  match get m "@context", get m "@graph" with
  | Some _, Some (JArr g) => crate_ok g ar vs ss
  | _, _ => false
  end.
