(* Crate/Spec.v — the declarative well-formedness predicate for an exported run crate (property C34):

     "the exported provenance archive is valid JSON-LD metadata with unique identifiers, every file it
      references is present in the archive with the recorded size and checksum, and every input and
      output value of the run is represented."

   Written with In / exists / forall / NoDup and two inductive relations (reference occurrence, bounded
   hasPart reachability); it uses only the field accessors of Crate/Checker.v (get, ref_of, ent_id, types,
   lit_text, as_list), none of its checking functions.  Definitions only. *)
From Coq Require Import Bool NArith.
From SF Require Import Base.Str Base.Dec Crate.Checker.
Import ListNotations.
Local Open Scope string_scope. Local Open Scope list_scope.

(* s is the id of a reference object {"@id": s, ...} occurring in the value j, at any depth *)
Inductive VRef : json -> string -> Prop :=
| VR_here : forall l s, field "@id" l = Some (JStr s) -> VRef (JObj l) s
| VR_obj : forall l k v s, In (k, v) l -> VRef v s -> VRef (JObj l) s
| VR_arr : forall l v s, In v l -> VRef v s -> VRef (JArr l) s.

(* entity e refers to s in one of its property values *)
Definition ERef (e : json) (s : string) : Prop :=
  exists l k v, e = JObj l /\ In (k, v) l /\ VRef v s.

(* the value of property k of e refers to s *)
Definition PRef (e : json) (k s : string) : Prop :=
  exists v, get e k = Some v /\ VRef v s.

Definition HasType (e : json) (t : string) : Prop := In t (types e).
Definition Entity (g : graph) (i : string) (e : json) : Prop := In e g /\ ent_id e = Some i.
Definition External (r : string) : Prop := external r = true.

(* entity e records a checksum, and every archive entry called i carries what e records about itself *)
Definition RecordedOk (ar : list entry) (e : json) (i : string) : Prop :=
  (exists h, get e "sha1" = Some (JStr h)) /\
  (exists d s, In (i, d, s) ar) /\
  forall d s, In (i, d, s) ar ->
    (forall x, get e "sha1" = Some x -> x = JStr d) /\
    (forall x, get e "contentSize" = Some x -> x = JStr (dec s) \/ x = JNum (dec s)).

(* y names a File entity with checksum h, present in the archive with digest h and size s *)
Definition FileOk (g : graph) (ar : list entry) (y h : string) (s : N) : Prop :=
  (exists e, Entity g y e /\ HasType e "File" /\ get e "sha1" = Some (JStr h)) /\
  (exists d s', In (y, d, s') ar) /\
  forall d s', In (y, d, s') ar -> d = h /\ s' = s.

(* y is reachable from x through at most n hasPart links *)
Inductive ReachN (g : graph) : nat -> string -> string -> Prop :=
| R_refl : forall n x, ReachN g n x x
| R_step : forall n x z y e, Entity g x e -> PRef e "hasPart" z -> ReachN g n z y -> ReachN g (S n) x y.

(* below x (through at most dir_depth hasPart links) there is a good File entity for every listed file *)
Definition DirFilesOk (g : graph) (ar : list entry) (x : string) (files : list (string * N)) : Prop :=
  forall h s, In (h, s) files -> exists y, ReachN g dir_depth x y /\ FileOk g ar y h s.

Definition ItemOk (g : graph) (ar : list entry) (j : json) (it : item) : Prop :=
  match it with
  | IFile h s => exists y, ref_of j = Some y /\ FileOk g ar y h s
  | ILit alts => exists t, lit_text j = Some t /\ In t alts
  | IDir files => exists y, ref_of j = Some y /\ (exists e, Entity g y e /\ HasType e "Dataset") /\
                            DirFilesOk g ar y files
  end.

(* entity e, whose id is x, carries the item; the entity called y carries the item *)
Definition IValOk (g : graph) (ar : list entry) (e : json) (x : string) (it : item) : Prop :=
  match it with
  | IFile h s => FileOk g ar x h s
  | ILit alts => HasType e "PropertyValue" /\ exists j, get e "value" = Some j /\ ItemOk g ar j (ILit alts)
  | IDir files => HasType e "Dataset" /\ DirFilesOk g ar x files
  end.

Definition ICarried (g : graph) (ar : list entry) (y : string) (it : item) : Prop :=
  exists e, Entity g y e /\ IValOk g ar e y it.

(* the elements of a record's value array are the carriers of its fields *)
Definition RecordOk (g : graph) (ar : list entry) (js : list json) (fields : list item) : Prop :=
  (forall it, In it fields -> exists el y, In el js /\ ref_of el = Some y /\ ICarried g ar y it) /\
  (forall el, In el js -> exists y it, ref_of el = Some y /\ In it fields /\ ICarried g ar y it).

(* entity e, whose id is x, carries the value v *)
Definition ValOk (g : graph) (ar : list entry) (e : json) (x : string) (v : value) : Prop :=
  match v with
  | VItem (IFile h s) => FileOk g ar x h s
  | VItem (ILit alts) =>
      HasType e "PropertyValue" /\ exists j, get e "value" = Some j /\ ItemOk g ar j (ILit alts)
  | VList its =>
      HasType e "PropertyValue" /\ exists j, get e "value" = Some j /\ Forall2 (ItemOk g ar) (as_list j) its
  | VItem (IDir files) => HasType e "Dataset" /\ DirFilesOk g ar x files
  | VDir files => HasType e "Dataset" /\ DirFilesOk g ar x files
  | VRecord fields =>
      HasType e "PropertyValue" /\ exists j, get e "value" = Some j /\ RecordOk g ar (as_list j) fields
  | VColl h s secs =>
      HasType e "Collection" /\
      (exists j y, get e "mainEntity" = Some j /\ ref_of j = Some y /\ FileOk g ar y h s) /\
      forall h' s', In (h', s') secs -> exists z, PRef e "hasPart" z /\ FileOk g ar z h' s'
  end.

(* p is a formal parameter called [name], listed as input (resp. output) of the main entity *)
Definition IsParam (g : graph) (mainE : json) (inp : bool) (name p : string) : Prop :=
  PRef mainE (if inp then "input" else "output") p /\
  exists pe, Entity g p pe /\ HasType pe "FormalParameter" /\ get pe "name" = Some (JStr name).

(* a is the action of the workflow run *)
Definition IsAction (root : json) (m : string) (a : json) : Prop :=
  HasType a "CreateAction" /\
  (exists i, ent_id a = Some i /\ PRef root "mentions" i) /\
  exists j, get a "instrument" = Some j /\ ref_of j = Some m.

(* the run value v is represented: the root data entity ./ names a main entity m; a CreateAction mentioned
   by ./ with instrument m lists (object for inputs, result for outputs) an entity that is an exampleOfWork
   of the formal parameter and carries the value *)
Definition Represented (g : graph) (ar : list entry) (v : rv) : Prop :=
  exists root m mainE a x e p,
    Entity g "./" root /\
    (exists j, get root "mainEntity" = Some j /\ ref_of j = Some m) /\
    Entity g m mainE /\
    In a g /\ IsAction root m a /\
    PRef a (if rv_in v then "object" else "result") x /\
    Entity g x e /\
    PRef e "exampleOfWork" p /\ IsParam g mainE (rv_in v) (rv_param v) p /\
    ValOk g ar e x (rv_val v).

(* c is the ControlAction orchestrating step s *)
Definition IsControl (c : json) (s : string) : Prop :=
  HasType c "ControlAction" /\ exists j, get c "instrument" = Some j /\ ref_of j = Some s.

(* the entity called x carries the value v *)
Definition Carries (g : graph) (ar : list entry) (x : string) (v : value) : Prop :=
  exists e, Entity g x e /\ ValOk g ar e x v.

(* action a is the record of job j *)
Definition JobOk (g : graph) (ar : list entry) (a : json) (j : job) : Prop :=
  (* everything the job consumed is listed as object ... *)
  (forall v, In v (j_ins j) -> exists x, PRef a "object" x /\ Carries g ar x v) /\
  (* ... and, when all inputs of the job are known, nothing else is *)
  (j_closed j = true -> forall x, PRef a "object" x -> exists v, In v (j_ins j) /\ Carries g ar x v) /\
  (* what the job produced, when known: at least one result, and nothing but carriers of it *)
  (forall v, j_out j = Some v -> (exists x, PRef a "result" x) /\ forall x, PRef a "result" x -> Carries g ar x v).

(* a is an action that a ControlAction of step s lists under object *)
Definition StepAction (g : graph) (s : string) (a : json) : Prop :=
  In a g /\ exists i c, ent_id a = Some i /\ In c g /\ IsControl c s /\ PRef c "object" i.

(* consistent at step level: every action orchestrated for the step is the record of one of its jobs, and every
   job has such a record *)
Definition StepOk (g : graph) (ar : list entry) (v : sv) : Prop :=
  (forall a, StepAction g (sv_step v) a -> exists j, In j (sv_jobs v) /\ JobOk g ar a j) /\
  (forall j, In j (sv_jobs v) -> exists a, StepAction g (sv_step v) a /\ JobOk g ar a j).

Record wf_crate (g : graph) (ar : list entry) (vs : list rv) (ss : list sv) : Prop := {
  (* valid JSON-LD node objects: every element of @graph has a string @id *)
  wf_ids : forall e, In e g -> exists i, ent_id e = Some i;
  (* unique identifiers *)
  wf_unique : NoDup (ids g);
  (* consistent: every reference that is not a web resource resolves inside the graph *)
  wf_refs : forall e r, In e g -> ERef e r -> External r \/ exists e', Entity g r e';
  (* the archive has one member per name *)
  wf_entries : NoDup (map en_name ar);
  (* self-contained: every File entity is in the archive with the recorded checksum and size *)
  wf_files : forall e i, Entity g i e -> HasType e "File" -> RecordedOk ar e i;
  (* every input and output value of the run is represented *)
  wf_values : forall v, In v vs -> Represented g ar v;
  (* consistent: the actions of a step list what its jobs consumed and produced *)
  wf_steps : forall v, In v ss -> StepOk g ar v
}.

(* the metadata document is a JSON-LD document: an object with an @context whose @graph is an array of node
   objects forming a well-formed crate *)
Definition wf_doc (m : json) (ar : list entry) (vs : list rv) (ss : list sv) : Prop :=
  exists ctx g, get m "@context" = Some ctx /\ get m "@graph" = Some (JArr g) /\ wf_crate g ar vs ss.
