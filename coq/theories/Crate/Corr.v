(* Crate/Corr.v — correspondence cases of the C34 check.  A case carries what the harness extracted from one
   exported archive of a real run (the whole metadata document, the zip entries with digests and sizes, the run's
   workflow-level input/output values, the values produced by individual steps) and the verdict of the independent Python oracle written from the
   property text.  [check_case] evaluates the proven checker on the crate and compares the two verdicts. *)
From Coq Require Import List Bool NArith.
From SF Require Import Base.Str Base.Corr.
From SF Require Export Crate.Checker.
Import ListNotations.

Inductive ccase :=
| CCrate (m : json) (ar : list entry) (vs : list rv) (ss : list sv) (oracle_ok : bool).

Definition check_case (c : ccase) : bool :=
  match c with
  | CCrate m ar vs ss o => Bool.eqb (doc_ok m ar vs ss) o
  end.
