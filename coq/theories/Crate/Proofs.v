(* Crate/Proofs.v — the checker of Crate/Checker.v decides the predicate of Crate/Spec.v. *)
From Coq Require Import Bool NArith Lia.
From SF Require Import Base.Str Base.Dec Crate.Checker Crate.Spec.
Import ListNotations.
Local Open Scope string_scope. Local Open Scope list_scope.

Ltac fold_bool :=
  repeat match goal with
         | |- context [if ?a then ?b else false] => change (if a then b else false) with (a && b)
         | |- context [if ?a then true else ?b] => change (if a then true else b) with (a || b)
         | H : context [if ?a then ?b else false] |- _ => change (if a then b else false) with (a && b) in H
         | H : context [if ?a then true else ?b] |- _ => change (if a then true else b) with (a || b) in H
         end.

(* ---------------------------------------------------------------- small facts *)
Lemma str_in_spec s l : str_in s l = true <-> In s l.
Proof.
  unfold str_in. rewrite existsb_exists. split.
  - intros [x [Hin Heq]]. apply String.eqb_eq in Heq. subst. exact Hin.
  - intro H. exists s. split; [exact H|apply String.eqb_refl].
Qed.

Lemma has_type_spec e t : has_type e t = true <-> HasType e t.
Proof. apply str_in_spec. Qed.

Lemma id_is_spec e i : id_is e i = true <-> ent_id e = Some i.
Proof.
  unfold id_is. destruct (ent_id e) as [j|].
  - rewrite String.eqb_eq. split; [intros ->; reflexivity|intro H; inversion H; reflexivity].
  - split; discriminate.
Qed.

Lemma nodupb_spec l : nodupb l = true <-> NoDup l.
Proof.
  induction l as [|x r IH]; simpl.
  - split; [constructor|reflexivity].
  - rewrite andb_true_iff, negb_true_iff, IH. split.
    + intros [Hn Hr]. constructor; [|exact Hr].
      intro Hin. apply str_in_spec in Hin. congruence.
    + intro H. inversion H; subst. split; [|assumption].
      destruct (str_in x r) eqn:E; [|reflexivity]. apply str_in_spec in E. contradiction.
Qed.

(* ---------------------------------------------------------------- a usable induction principle for json *)
Section JsonInd.
  Variable P : json -> Prop.
  Hypothesis Hnull : P JNull.
  Hypothesis Hbool : forall b, P (JBool b).
  Hypothesis Hnum : forall s, P (JNum s).
  Hypothesis Hstr : forall s, P (JStr s).
  Hypothesis Harr : forall l, Forall P l -> P (JArr l).
  Hypothesis Hobj : forall l, Forall (fun kv => P (snd kv)) l -> P (JObj l).

  Fixpoint json_ind' (j : json) : P j :=
    match j with
    | JNull => Hnull
    | JBool b => Hbool b
    | JNum s => Hnum s
    | JStr s => Hstr s
    | JArr l => Harr l ((fix go (l : list json) : Forall P l :=
                           match l with
                           | [] => Forall_nil _
                           | x :: r => Forall_cons x (json_ind' x) (go r)
                           end) l)
    | JObj l => Hobj l ((fix go (l : list (string * json)) : Forall (fun kv => P (snd kv)) l :=
                           match l with
                           | [] => Forall_nil _
                           | x :: r => Forall_cons x (json_ind' (snd x)) (go r)
                           end) l)
    end.
End JsonInd.

Lemma vrefs_spec j : forall s, In s (vrefs j) <-> VRef j s.
Proof.
  induction j using json_ind'; intro r; simpl;
    try (split; [intros []|intro H; inversion H]).
  - (* JArr *)
    rewrite in_flat_map. split.
    + intros [v [Hin Hr]]. rewrite Forall_forall in H. apply (H v Hin) in Hr.
      eapply VR_arr; eauto.
    + intro Hv. inversion Hv; subst. exists v. split; [assumption|].
      rewrite Forall_forall in H. apply (H v); assumption.
  - (* JObj *)
    rewrite in_app_iff, in_flat_map. rewrite Forall_forall in H. split.
    + intros [Hh|[kv [Hin Hr]]].
      * destruct (field "@id" l) as [[| | |s| |]|] eqn:E; simpl in Hh; try contradiction.
        destruct Hh as [<-|[]]. apply VR_here. exact E.
      * destruct kv as [k v]. simpl in Hr. apply (H (k, v) Hin) in Hr. eapply VR_obj; eauto.
    + intro Hv. inversion Hv; subst.
      * left. rewrite H1. simpl. left. reflexivity.
      * right. exists (k, v). split; [assumption|]. simpl. apply (H (k, v)); assumption.
Qed.

Lemma erefs_spec e r : In r (erefs e) <-> ERef e r.
Proof.
  unfold erefs, ERef. destruct e; try (split; [intros []|intros (l0 & k & v & Heq & _); discriminate]).
  rewrite in_flat_map. split.
  - intros [[k v] [Hin Hr]]. simpl in Hr. apply vrefs_spec in Hr. exists l, k, v. auto.
  - intros (l0 & k & v & Heq & Hin & Hr). inversion Heq; subst. exists (k, v). split; [assumption|].
    simpl. apply vrefs_spec. assumption.
Qed.

Lemma prop_refs_spec e k s : In s (prop_refs e k) <-> PRef e k s.
Proof.
  unfold prop_refs, PRef. destruct (get e k) as [v|].
  - rewrite vrefs_spec. split; [intro H; exists v; auto|intros [v' [Heq Hr]]; inversion Heq; subst; assumption].
  - split; [intros []|intros [v [Heq _]]; discriminate].
Qed.

(* ---------------------------------------------------------------- clause 1-3 *)
Lemma all_ids_spec g : all_ids g = true <-> (forall e, In e g -> exists i, ent_id e = Some i).
Proof.
  unfold all_ids. rewrite forallb_forall. split; intros H e Hin; specialize (H e Hin).
  - destruct (ent_id e) as [i|]; [exists i; reflexivity|discriminate].
  - destruct H as [i ->]. reflexivity.
Qed.

Lemma resolves_spec g r : resolves g r = true <-> exists e, Entity g r e.
Proof.
  unfold resolves, Entity. rewrite existsb_exists. split; intros [e [H1 H2]]; exists e; split; auto;
    apply id_is_spec; assumption.
Qed.

Lemma refs_ok_spec g :
  refs_ok g = true <-> (forall e r, In e g -> ERef e r -> External r \/ exists e', Entity g r e').
Proof.
  unfold refs_ok. rewrite forallb_forall. split.
  - intros H e r Hin Hr. specialize (H e Hin). rewrite forallb_forall in H.
    apply erefs_spec in Hr. specialize (H r Hr). apply orb_true_iff in H.
    destruct H as [H|H]; [left; exact H|right; apply resolves_spec; exact H].
  - intros H e Hin. rewrite forallb_forall. intros r Hr. apply erefs_spec in Hr.
    apply orb_true_iff. destruct (H e r Hin Hr) as [Hx|Hx]; [left; exact Hx|right; apply resolves_spec; exact Hx].
Qed.

(* ---------------------------------------------------------------- archive entries *)
Lemma has_entry_spec ar n : has_entry ar n = true <-> exists d s, In (n, d, s) ar.
Proof.
  unfold has_entry. rewrite existsb_exists. split.
  - intros [[[n' d] s] [Hin Heq]]. unfold en_name in Heq. simpl in Heq. apply String.eqb_eq in Heq. subst.
    exists d, s. exact Hin.
  - intros (d & s & Hin). exists (n, d, s). split; [exact Hin|]. unfold en_name. simpl. apply String.eqb_refl.
Qed.

Lemma entries_forall_spec ar n (Q : string -> N -> bool) :
  forallb (fun en => negb (String.eqb (en_name en) n) || Q (en_digest en) (en_size en)) ar = true <->
  forall d s, In (n, d, s) ar -> Q d s = true.
Proof.
  rewrite forallb_forall. split.
  - intros H d s Hin. specialize (H _ Hin). unfold en_name, en_digest, en_size in H. simpl in H.
    rewrite String.eqb_refl in H. simpl in H. exact H.
  - intros H [[n' d] s] Hin. unfold en_name, en_digest, en_size. simpl.
    destruct (String.eqb_spec n' n) as [->|Hne]; simpl; [apply H; exact Hin|reflexivity].
Qed.

Lemma sha_ok_spec e d : sha_ok e d = true <-> (forall x, get e "sha1" = Some x -> x = JStr d).
Proof.
  unfold sha_ok. destruct (get e "sha1") as [x|].
  - destruct x; try (split; [discriminate|intro H; specialize (H _ eq_refl); discriminate]).
    rewrite String.eqb_eq. split.
    + intros -> x Hx. inversion Hx. reflexivity.
    + intro H. specialize (H _ eq_refl). inversion H. reflexivity.
  - split; [intros _ x Hx; discriminate|reflexivity].
Qed.

Lemma size_ok_spec e s :
  size_ok e s = true <-> (forall x, get e "contentSize" = Some x -> x = JStr (dec s) \/ x = JNum (dec s)).
Proof.
  unfold size_ok. destruct (get e "contentSize") as [x|].
  - destruct x; try (split; [discriminate|intro H; destruct (H _ eq_refl); discriminate]).
    + rewrite String.eqb_eq. split.
      * intros -> x Hx. inversion Hx. right. reflexivity.
      * intro H. destruct (H _ eq_refl) as [H1|H1]; inversion H1. reflexivity.
    + rewrite String.eqb_eq. split.
      * intros -> x Hx. inversion Hx. left. reflexivity.
      * intro H. destruct (H _ eq_refl) as [H1|H1]; inversion H1. reflexivity.
  - split; [intros _ x Hx; discriminate|reflexivity].
Qed.

Lemma has_sha_spec e : has_sha e = true <-> exists h, get e "sha1" = Some (JStr h).
Proof.
  unfold has_sha. destruct (get e "sha1") as [[| | |h| |]|]; try (split; [discriminate|intros [h' H]; discriminate]).
  split; [intros _; exists h; reflexivity|reflexivity].
Qed.

Lemma file_entity_ok_spec ar e i :
  ent_id e = Some i -> (file_entity_ok ar e = true <-> RecordedOk ar e i).
Proof.
  intro Hid. unfold file_entity_ok, RecordedOk. rewrite Hid, !andb_true_iff, has_sha_spec, has_entry_spec.
  rewrite (entries_forall_spec ar i (fun d s => sha_ok e d && size_ok e s)).
  split.
  - intros [[H0 H1] H2]. split; [exact H0|split; [exact H1|]]. intros d s Hin. specialize (H2 d s Hin).
    apply andb_true_iff in H2. destruct H2 as [Ha Hb]. split; [apply sha_ok_spec|apply size_ok_spec]; assumption.
  - intros [H0 [H1 H2]]. split; [split; [exact H0|exact H1]|]. intros d s Hin. specialize (H2 d s Hin).
    apply andb_true_iff. destruct H2 as [Ha Hb]. split; [apply sha_ok_spec|apply size_ok_spec]; assumption.
Qed.

Lemma files_ok_spec g ar :
  all_ids g = true ->
  (files_ok g ar = true <-> (forall e i, Entity g i e -> HasType e "File" -> RecordedOk ar e i)).
Proof.
  intro Hall. unfold files_ok. rewrite forallb_forall. split.
  - intros H e i [Hin Hid] Ht. specialize (H e Hin). apply has_type_spec in Ht. rewrite Ht in H. simpl in H.
    apply (file_entity_ok_spec ar e i Hid). exact H.
  - intros H e Hin. destruct (has_type e "File") eqn:Et; [simpl|reflexivity].
    destruct (proj1 (all_ids_spec g) Hall e Hin) as [i Hid].
    apply (file_entity_ok_spec ar e i Hid). apply H; [split; assumption|apply has_type_spec; exact Et].
Qed.

(* ---------------------------------------------------------------- values *)
Lemma sha_is_spec e h : sha_is e h = true <-> get e "sha1" = Some (JStr h).
Proof.
  unfold sha_is. destruct (get e "sha1") as [[| | |x| |]|]; try (split; discriminate).
  rewrite String.eqb_eq. split; [intros ->; reflexivity|intro H; inversion H; reflexivity].
Qed.

Lemma file_ok_spec g ar y h s : file_ok g ar y h s = true <-> FileOk g ar y h s.
Proof.
  unfold file_ok, FileOk. rewrite !andb_true_iff, existsb_exists, has_entry_spec.
  rewrite (entries_forall_spec ar y (fun d s' => String.eqb d h && N.eqb s' s)).
  split.
  - intros [[[e [Hin He]] Hent] Hall]. split; [|split; [exact Hent|]].
    + apply andb_true_iff in He. destruct He as [He Hs]. apply andb_true_iff in He. destruct He as [Hi Ht].
      exists e. split; [split; [exact Hin|apply id_is_spec; exact Hi]|].
      split; [apply has_type_spec; exact Ht|apply sha_is_spec; exact Hs].
    + intros d s' Hd. specialize (Hall d s' Hd). apply andb_true_iff in Hall. destruct Hall as [Ha Hb].
      apply String.eqb_eq in Ha. apply N.eqb_eq in Hb. auto.
  - intros [[e [[Hin Hid] [Ht Hs]]] [Hent Hall]]. split; [split; [|exact Hent]|].
    + exists e. split; [exact Hin|]. rewrite !andb_true_iff.
      split; [split; [apply id_is_spec; exact Hid|apply has_type_spec; exact Ht]|apply sha_is_spec; exact Hs].
    + intros d s' Hd. destruct (Hall d s' Hd) as [-> ->]. rewrite String.eqb_refl, N.eqb_refl. reflexivity.
Qed.

Lemma reachb_spec g n : forall x y, reachb g n x y = true <-> ReachN g n x y.
Proof.
  induction n as [|n IH]; intros x y; simpl.
  - destruct (String.eqb_spec x y) as [->|Hne].
    + split; [constructor|reflexivity].
    + split; [discriminate|intro H; inversion H; contradiction].
  - change (if String.eqb x y then true else ?b) with (String.eqb x y || b).
    rewrite orb_true_iff, String.eqb_eq, existsb_exists. split.
    + intros [->|[e [Hin He]]]; [constructor|].
      fold_bool. apply andb_true_iff in He. destruct He as [Hid Hz]. apply existsb_exists in Hz.
      destruct Hz as [z [Hz1 Hz2]]. apply R_step with (z := z) (e := e).
      * split; [exact Hin|apply id_is_spec; exact Hid].
      * apply prop_refs_spec. exact Hz1.
      * apply IH. exact Hz2.
    + intro H. inversion H; subst; [left; reflexivity|right].
      destruct H1 as [Hin Hid]. exists e. split; [exact Hin|]. fold_bool. apply andb_true_iff. split; [apply id_is_spec; exact Hid|].
      apply existsb_exists. exists z. split; [apply prop_refs_spec; assumption|apply IH; assumption].
Qed.

Local Arguments reachb g n x y : simpl never.

Lemma dir_files_ok_spec g ar x files : dir_files_ok g ar x files = true <-> DirFilesOk g ar x files.
Proof.
  unfold dir_files_ok, DirFilesOk. rewrite forallb_forall. split.
  - intros H2 h s Hin. specialize (H2 (h, s) Hin). simpl in H2.
    apply existsb_exists in H2. destruct H2 as [fe [Hfe Hy]]. destruct (ent_id fe) as [y|]; [|discriminate].
    apply andb_true_iff in Hy. destruct Hy as [Hr Hf]. exists y. split; [apply reachb_spec; exact Hr|apply file_ok_spec; exact Hf].
  - intros H2 [h s] Hin. simpl. destruct (H2 h s Hin) as [y [Hr Hf]].
    apply existsb_exists. destruct Hf as [[fe [[Hfin Hfid] Hrest]] Hrest2].
    exists fe. split; [exact Hfin|]. rewrite Hfid. apply andb_true_iff.
    split; [apply reachb_spec; exact Hr|apply file_ok_spec; split; [exists fe; split; [split; assumption|exact Hrest]|exact Hrest2]].
Qed.

Lemma item_ok_spec g ar j it : item_ok g ar j it = true <-> ItemOk g ar j it.
Proof.
  destruct it as [h s|alts|files]; simpl.
  - destruct (ref_of j) as [y|].
    + rewrite file_ok_spec. split; [intro H; exists y; auto|intros [y' [Heq H]]; inversion Heq; subst; exact H].
    + split; [discriminate|intros [y [Heq _]]; discriminate].
  - destruct (lit_text j) as [t|].
    + rewrite str_in_spec. split; [intro H; exists t; auto|intros [t' [Heq H]]; inversion Heq; subst; exact H].
    + split; [discriminate|intros [t [Heq _]]; discriminate].
  - destruct (ref_of j) as [y|].
    + rewrite andb_true_iff, dir_files_ok_spec, existsb_exists. split.
      * intros [[e [Hin He]] Hd]. apply andb_true_iff in He. destruct He as [Hi Ht]. exists y. split; [reflexivity|].
        split; [exists e; split; [split; [exact Hin|apply id_is_spec; exact Hi]|apply has_type_spec; exact Ht]|exact Hd].
      * intros [y' [Heq [[e [[Hin Hi] Ht]] Hd]]]. inversion Heq; subst y'. split; [|exact Hd].
        exists e. split; [exact Hin|]. apply andb_true_iff. split; [apply id_is_spec; exact Hi|apply has_type_spec; exact Ht].
    + split; [discriminate|intros [y [Heq _]]; discriminate].
Qed.

Lemma items_ok_spec g ar js : forall its, items_ok g ar js its = true <-> Forall2 (ItemOk g ar) js its.
Proof.
  induction js as [|j js IH]; intros [|it its]; simpl.
  - split; [constructor|reflexivity].
  - split; [discriminate|intro H; inversion H].
  - split; [discriminate|intro H; inversion H].
  - rewrite andb_true_iff, item_ok_spec, IH. split.
    + intros [H1 H2]. constructor; assumption.
    + intro H. inversion H; subst. split; assumption.
Qed.

Lemma ival_ok_spec g ar e x it : ival_ok g ar e x it = true <-> IValOk g ar e x it.
Proof.
  destruct it as [h s|alts|files]; simpl.
  - apply file_ok_spec.
  - rewrite andb_true_iff, has_type_spec. destruct (get e "value") as [j|].
    + pose proof (item_ok_spec g ar j (ILit alts)) as Hi. simpl in Hi. rewrite Hi.
      split; [intros [H1 H2]; split; [exact H1|exists j; auto]|
              intros [H1 [j' [Heq H2]]]; inversion Heq; subst; auto].
    + split; [intros [_ H]; discriminate|intros [_ [j [Heq _]]]; discriminate].
  - rewrite andb_true_iff, has_type_spec, dir_files_ok_spec. tauto.
Qed.

Lemma icarried_spec g ar y it : icarried g ar y it = true <-> ICarried g ar y it.
Proof.
  unfold icarried, ICarried. rewrite existsb_exists. split.
  - intros [e [Hin He]]. fold_bool. apply andb_true_iff in He. destruct He as [Hi Hv].
    exists e. split; [split; [exact Hin|apply id_is_spec; exact Hi]|apply ival_ok_spec; exact Hv].
  - intros [e [[Hin Hi] Hv]]. exists e. split; [exact Hin|]. fold_bool. apply andb_true_iff.
    split; [apply id_is_spec; exact Hi|apply ival_ok_spec; exact Hv].
Qed.

Lemma record_ok_spec g ar js fields : record_ok g ar js fields = true <-> RecordOk g ar js fields.
Proof.
  unfold record_ok, RecordOk. rewrite andb_true_iff, !forallb_forall. split.
  - intros [H1 H2]. split.
    + intros it Hit. specialize (H1 it Hit). apply existsb_exists in H1. destruct H1 as [el [Hel Hc]].
      destruct (ref_of el) as [y|] eqn:Er; [|discriminate]. exists el, y. split; [exact Hel|].
      split; [exact Er|apply icarried_spec; exact Hc].
    + intros el Hel. specialize (H2 el Hel). destruct (ref_of el) as [y|] eqn:Er; [|discriminate].
      apply existsb_exists in H2. destruct H2 as [it [Hit Hc]]. exists y, it.
      split; [reflexivity|split; [exact Hit|apply icarried_spec; exact Hc]].
  - intros [H1 H2]. split.
    + intros it Hit. destruct (H1 it Hit) as [el [y [Hel [Er Hc]]]]. apply existsb_exists. exists el.
      split; [exact Hel|]. rewrite Er. apply icarried_spec. exact Hc.
    + intros el Hel. destruct (H2 el Hel) as [y [it [Er [Hit Hc]]]]. rewrite Er. apply existsb_exists.
      exists it. split; [exact Hit|apply icarried_spec; exact Hc].
Qed.

Lemma val_ok_spec g ar e x v : val_ok g ar e x v = true <-> ValOk g ar e x v.
Proof.
  destruct v as [[h s|alts|dfiles]|its|files|fields|ch cs secs]; simpl.
  - apply file_ok_spec.
  - rewrite andb_true_iff, has_type_spec. destruct (get e "value") as [j|].
    + pose proof (item_ok_spec g ar j (ILit alts)) as Hi. simpl in Hi. rewrite Hi.
      split; [intros [H1 H2]; split; [exact H1|exists j; auto]|
              intros [H1 [j' [Heq H2]]]; inversion Heq; subst; auto].
    + split; [intros [_ H]; discriminate|intros [_ [j [Heq _]]]; discriminate].
  - rewrite andb_true_iff, has_type_spec, dir_files_ok_spec. tauto.
  - rewrite andb_true_iff, has_type_spec. destruct (get e "value") as [j|].
    + rewrite items_ok_spec.
      split; [intros [H1 H2]; split; [exact H1|exists j; auto]|
              intros [H1 [j' [Heq H2]]]; inversion Heq; subst; auto].
    + split; [intros [_ H]; discriminate|intros [_ [j [Heq _]]]; discriminate].
  - rewrite andb_true_iff, has_type_spec, dir_files_ok_spec. tauto.
  - rewrite andb_true_iff, has_type_spec. destruct (get e "value") as [j|].
    + rewrite record_ok_spec.
      split; [intros [H1 H2]; split; [exact H1|exists j; auto]|
              intros [H1 [j' [Heq H2]]]; inversion Heq; subst; auto].
    + split; [intros [_ H]; discriminate|intros [_ [j [Heq _]]]; discriminate].
  - rewrite !andb_true_iff, has_type_spec, forallb_forall.
    assert (Hm : match get e "mainEntity" with
                 | Some j => match ref_of j with Some y => file_ok g ar y ch cs | None => false end
                 | None => false end = true <->
                 exists j y, get e "mainEntity" = Some j /\ ref_of j = Some y /\ FileOk g ar y ch cs).
    { destruct (get e "mainEntity") as [j|]; [|split; [discriminate|intros (j & y & Hj & _); discriminate]].
      destruct (ref_of j) as [y|] eqn:Er.
      - rewrite file_ok_spec. split; [intro H; exists j, y; auto|].
        intros (j' & y' & Hj & Hr & H). inversion Hj; subst j'. rewrite Er in Hr. inversion Hr; subst. exact H.
      - split; [discriminate|]. intros (j' & y' & Hj & Hr & _). inversion Hj; subst j'. rewrite Er in Hr. discriminate. }
    rewrite Hm. split.
    + intros [[H1 H2] H3]. split; [exact H1|split; [exact H2|]]. intros h' s' Hin. specialize (H3 (h', s') Hin).
      apply existsb_exists in H3. destruct H3 as [z [Hz Hf]]. exists z.
      split; [apply prop_refs_spec; exact Hz|apply file_ok_spec; exact Hf].
    + intros [H1 [H2 H3]]. split; [split; [exact H1|exact H2]|]. intros [h' s'] Hin. destruct (H3 h' s' Hin) as [z [Hz Hf]].
      apply existsb_exists. exists z. split; [apply prop_refs_spec; exact Hz|apply file_ok_spec; exact Hf].
Qed.

Lemma name_is_spec e n : name_is e n = true <-> get e "name" = Some (JStr n).
Proof.
  unfold name_is. destruct (get e "name") as [[| | |x| |]|]; try (split; discriminate).
  rewrite String.eqb_eq. split; [intros ->; reflexivity|intro H; inversion H; reflexivity].
Qed.

Lemma is_param_spec g mainE inp name p : is_param g mainE inp name p = true <-> IsParam g mainE inp name p.
Proof.
  unfold is_param, IsParam. rewrite andb_true_iff, str_in_spec, prop_refs_spec, existsb_exists. split.
  - intros [H1 [pe [Hin H2]]]. split; [exact H1|]. rewrite !andb_true_iff in H2. destruct H2 as [[Ha Hb] Hc].
    exists pe. split; [split; [exact Hin|apply id_is_spec; exact Ha]|].
    split; [apply has_type_spec; exact Hb|apply name_is_spec; exact Hc].
  - intros [H1 [pe [[Hin Ha] [Hb Hc]]]]. split; [exact H1|]. exists pe. split; [exact Hin|].
    rewrite !andb_true_iff. split; [split; [apply id_is_spec; exact Ha|apply has_type_spec; exact Hb]|apply name_is_spec; exact Hc].
Qed.

Lemma is_action_spec root m a : is_action root m a = true <-> IsAction root m a.
Proof.
  unfold is_action, IsAction. rewrite !andb_true_iff, has_type_spec. split.
  - intros [[H1 H2] H3]. split; [exact H1|]. split.
    + destruct (ent_id a) as [i|]; [|discriminate]. exists i. split; [reflexivity|].
      apply prop_refs_spec. apply str_in_spec. exact H2.
    + destruct (get a "instrument") as [j|]; [|discriminate]. exists j. split; [reflexivity|].
      destruct (ref_of j) as [i|]; [|discriminate]. apply String.eqb_eq in H3. subst. reflexivity.
  - intros [H1 [[i [Hid Hm]] [j [Hj Hr]]]]. split; [split; [exact H1|]|].
    + rewrite Hid. apply str_in_spec. apply prop_refs_spec. exact Hm.
    + rewrite Hj, Hr. apply String.eqb_refl.
Qed.

Lemma rv_ok_spec g ar v : rv_ok g ar v = true <-> Represented g ar v.
Proof.
  unfold rv_ok, Represented. rewrite existsb_exists. split.
  - intros [root [Hroot H]]. fold_bool; apply andb_true_iff in H. destruct H as [Hrid H].
    unfold main_of in H. destruct (get root "mainEntity") as [jm|] eqn:Ejm; [|discriminate].
    destruct (ref_of jm) as [m|] eqn:Em; [|discriminate].
    apply existsb_exists in H. destruct H as [mainE [HmainIn H]]. fold_bool; apply andb_true_iff in H. destruct H as [Hmid H].
    apply existsb_exists in H. destruct H as [a [Hain H]]. fold_bool; apply andb_true_iff in H. destruct H as [Hact H].
    apply existsb_exists in H. destruct H as [x [Hx H]].
    apply existsb_exists in H. destruct H as [e [Hein H]].
    fold_bool; rewrite !andb_true_iff in H. destruct H as [Heid [Hp Hval]].
    apply existsb_exists in Hp. destruct Hp as [p [Hp1 Hp2]].
    exists root, m, mainE, a, x, e, p.
    split; [split; [exact Hroot|apply id_is_spec; exact Hrid]|].
    split; [exists jm; auto|].
    split; [split; [exact HmainIn|apply id_is_spec; exact Hmid]|].
    split; [exact Hain|]. split; [apply is_action_spec; exact Hact|].
    split; [apply prop_refs_spec; exact Hx|].
    split; [split; [exact Hein|apply id_is_spec; exact Heid]|].
    split; [apply prop_refs_spec; exact Hp1|].
    split; [apply is_param_spec; exact Hp2|apply val_ok_spec; exact Hval].
  - intros (root & m & mainE & a & x & e & p & [Hroot Hrid] & [jm [Ejm Em]] & [HmainIn Hmid] & Hain & Hact & Hx
            & [Hein Heid] & Hp1 & Hp2 & Hval).
    exists root. split; [exact Hroot|]. fold_bool; apply andb_true_iff; split; [apply id_is_spec; exact Hrid|].
    unfold main_of. rewrite Ejm, Em.
    apply existsb_exists. exists mainE. split; [exact HmainIn|]. fold_bool; apply andb_true_iff; split; [apply id_is_spec; exact Hmid|].
    apply existsb_exists. exists a. split; [exact Hain|]. fold_bool; apply andb_true_iff; split; [apply is_action_spec; exact Hact|].
    apply existsb_exists. exists x. split; [apply prop_refs_spec; exact Hx|].
    apply existsb_exists. exists e. split; [exact Hein|]. fold_bool; rewrite !andb_true_iff.
    split; [apply id_is_spec; exact Heid|split; [|apply val_ok_spec; exact Hval]].
    apply existsb_exists. exists p. split; [apply prop_refs_spec; exact Hp1|apply is_param_spec; exact Hp2].
Qed.

(* ---------------------------------------------------------------- step level *)
Lemma is_control_spec c s : is_control c s = true <-> IsControl c s.
Proof.
  unfold is_control, IsControl. fold_bool. rewrite andb_true_iff, has_type_spec. split.
  - intros [H1 H3]. split; [exact H1|].
    destruct (get c "instrument") as [j|]; [|discriminate]. exists j. split; [reflexivity|].
    destruct (ref_of j) as [i|]; [|discriminate]. apply String.eqb_eq in H3. subst. reflexivity.
  - intros [H1 [j [Hj Hr]]]. split; [exact H1|]. rewrite Hj, Hr. apply String.eqb_refl.
Qed.

Lemma carries_spec g ar x v : carries g ar x v = true <-> Carries g ar x v.
Proof.
  unfold carries, Carries. rewrite existsb_exists. split.
  - intros [e [Hin He]]. fold_bool. apply andb_true_iff in He. destruct He as [Hi Hv].
    exists e. split; [split; [exact Hin|apply id_is_spec; exact Hi]|apply val_ok_spec; exact Hv].
  - intros [e [[Hin Hi] Hv]]. exists e. split; [exact Hin|]. fold_bool. apply andb_true_iff.
    split; [apply id_is_spec; exact Hi|apply val_ok_spec; exact Hv].
Qed.

Lemma results_all_spec g ar a v :
  match prop_refs a "result" with [] => false | rs => forallb (fun x => carries g ar x v) rs end = true <->
  (exists x, PRef a "result" x) /\ forall x, PRef a "result" x -> Carries g ar x v.
Proof.
  destruct (prop_refs a "result") as [|r rs] eqn:E.
  - split; [discriminate|]. intros [[x Hx] _]. apply prop_refs_spec in Hx. rewrite E in Hx. destruct Hx.
  - rewrite forallb_forall. split.
    + intro H. split; [exists r; apply prop_refs_spec; rewrite E; left; reflexivity|].
      intros x Hx. apply carries_spec. apply H. rewrite <- E. apply prop_refs_spec. exact Hx.
    + intros [_ H] x Hx. apply carries_spec. apply H. apply prop_refs_spec. rewrite E. exact Hx.
Qed.

Lemma job_ok_spec g ar a j : job_ok g ar a j = true <-> JobOk g ar a j.
Proof.
  unfold job_ok, JobOk. fold_bool. rewrite !andb_true_iff, forallb_forall.
  assert (H1 : (forall v, In v (j_ins j) -> existsb (fun x => carries g ar x v) (prop_refs a "object") = true) <->
               (forall v, In v (j_ins j) -> exists x, PRef a "object" x /\ Carries g ar x v)).
  { split; intros H v Hv; specialize (H v Hv).
    - apply existsb_exists in H. destruct H as [x [Hx Hc]]. exists x. split; [apply prop_refs_spec; exact Hx|apply carries_spec; exact Hc].
    - destruct H as [x [Hx Hc]]. apply existsb_exists. exists x. split; [apply prop_refs_spec; exact Hx|apply carries_spec; exact Hc]. }
  assert (H2 : (if j_closed j then forallb (fun x => existsb (fun v => carries g ar x v) (j_ins j)) (prop_refs a "object") else true) = true <->
               (j_closed j = true -> forall x, PRef a "object" x -> exists v, In v (j_ins j) /\ Carries g ar x v)).
  { destruct (j_closed j).
    - rewrite forallb_forall. split.
      + intros H _ x Hx. apply prop_refs_spec in Hx. specialize (H x Hx). apply existsb_exists in H.
        destruct H as [v [Hv Hc]]. exists v. split; [exact Hv|apply carries_spec; exact Hc].
      + intros H x Hx. apply prop_refs_spec in Hx. destruct (H eq_refl x Hx) as [v [Hv Hc]].
        apply existsb_exists. exists v. split; [exact Hv|apply carries_spec; exact Hc].
    - split; [intros _ Hf; discriminate|reflexivity]. }
  assert (H3 : match j_out j with
               | None => true
               | Some v => match prop_refs a "result" with [] => false | rs => forallb (fun x => carries g ar x v) rs end
               end = true <->
               (forall v, j_out j = Some v -> (exists x, PRef a "result" x) /\ forall x, PRef a "result" x -> Carries g ar x v)).
  { destruct (j_out j) as [v|].
    - rewrite results_all_spec. split; [intros H v' Hv'; inversion Hv'; subst; exact H|intro H; apply H; reflexivity].
    - split; [intros _ v Hv; discriminate|reflexivity]. }
  rewrite H1, H2, H3. tauto.
Qed.

Lemma step_action_spec g s a : In a (step_actions g s) <-> StepAction g s a.
Proof.
  unfold step_actions, StepAction. rewrite filter_In. unfold is_step_action. split.
  - intros [Hin H]. split; [exact Hin|]. destruct (ent_id a) as [i|]; [|discriminate].
    apply existsb_exists in H. destruct H as [c [Hc H]]. fold_bool. apply andb_true_iff in H. destruct H as [Hctl Hi].
    exists i, c. split; [reflexivity|]. split; [exact Hc|].
    split; [apply is_control_spec; exact Hctl|apply prop_refs_spec; apply str_in_spec; exact Hi].
  - intros [Hin (i & c & Hid & Hc & Hctl & Hi)]. split; [exact Hin|]. rewrite Hid.
    apply existsb_exists. exists c. split; [exact Hc|]. fold_bool. apply andb_true_iff.
    split; [apply is_control_spec; exact Hctl|apply str_in_spec; apply prop_refs_spec; exact Hi].
Qed.

Lemma sv_ok_spec g ar v : sv_ok g ar v = true <-> StepOk g ar v.
Proof.
  unfold sv_ok, StepOk. fold_bool. rewrite andb_true_iff, !forallb_forall. split.
  - intros [Ha Hj]. split.
    + intros a Hsa. apply step_action_spec in Hsa. specialize (Ha a Hsa). apply existsb_exists in Ha.
      destruct Ha as [j [Hin Hok]]. exists j. split; [exact Hin|apply job_ok_spec; exact Hok].
    + intros j Hin. specialize (Hj j Hin). apply existsb_exists in Hj. destruct Hj as [a [Hsa Hok]].
      exists a. split; [apply step_action_spec; exact Hsa|apply job_ok_spec; exact Hok].
  - intros [Ha Hj]. split.
    + intros a Hsa. apply step_action_spec in Hsa. destruct (Ha a Hsa) as [j [Hin Hok]].
      apply existsb_exists. exists j. split; [exact Hin|apply job_ok_spec; exact Hok].
    + intros j Hin. destruct (Hj j Hin) as [a [Hsa Hok]]. apply existsb_exists. exists a.
      split; [apply step_action_spec; exact Hsa|apply job_ok_spec; exact Hok].
Qed.

(* ---------------------------------------------------------------- the checker decides the predicate *)
Theorem crate_ok_sound g ar vs ss : crate_ok g ar vs ss = true -> wf_crate g ar vs ss.
Proof.
  unfold crate_ok. rewrite !andb_true_iff. intros [[[[[[H1 H2] H3] H0] H4] H5] H6]. constructor.
  - apply all_ids_spec. exact H1.
  - apply nodupb_spec. exact H2.
  - apply refs_ok_spec. exact H3.
  - apply nodupb_spec. exact H0.
  - apply (files_ok_spec g ar H1). exact H4.
  - intros v Hin. apply rv_ok_spec. unfold values_ok in H5. rewrite forallb_forall in H5. apply H5. exact Hin.
  - intros v Hin. apply sv_ok_spec. unfold steps_ok in H6. rewrite forallb_forall in H6. apply H6. exact Hin.
Qed.

Theorem crate_ok_complete g ar vs ss : wf_crate g ar vs ss -> crate_ok g ar vs ss = true.
Proof.
  intros [H1 H2 H3 H0 H4 H5 H6]. unfold crate_ok. rewrite !andb_true_iff.
  assert (Hall : all_ids g = true) by (apply all_ids_spec; exact H1).
  split; [split; [split; [split; [split; [split|]|]|]|]|].
  - exact Hall.
  - apply nodupb_spec. exact H2.
  - apply refs_ok_spec. exact H3.
  - apply nodupb_spec. exact H0.
  - apply (files_ok_spec g ar Hall). exact H4.
  - unfold values_ok. rewrite forallb_forall. intros v Hin. apply rv_ok_spec. apply H5. exact Hin.
  - unfold steps_ok. rewrite forallb_forall. intros v Hin. apply sv_ok_spec. apply H6. exact Hin.
Qed.

Corollary crate_ok_iff g ar vs ss : crate_ok g ar vs ss = true <-> wf_crate g ar vs ss.
Proof. split; [apply crate_ok_sound|apply crate_ok_complete]. Qed.

Theorem doc_ok_iff m ar vs ss : doc_ok m ar vs ss = true <-> wf_doc m ar vs ss.
Proof.
  unfold doc_ok, wf_doc. split.
  - destruct (get m "@context") as [ctx|]; [|discriminate].
    destruct (get m "@graph") as [[| | | |g|]|]; try discriminate.
    intro H. exists ctx, g. split; [reflexivity|split; [reflexivity|apply crate_ok_sound; exact H]].
  - intros (ctx & g & -> & -> & H). apply crate_ok_complete. exact H.
Qed.

(* ---------------------------------------------------------------- consequences of well-formedness *)
Lemma in_ids g i : In i (ids g) <-> exists e, Entity g i e.
Proof.
  unfold ids, Entity. rewrite in_flat_map. split.
  - intros [e [Hin Hi]]. exists e. split; [exact Hin|]. destruct (ent_id e) as [j|]; simpl in Hi; [|contradiction].
    destruct Hi as [->|[]]. reflexivity.
  - intros [e [Hin Hid]]. exists e. split; [exact Hin|]. rewrite Hid. left. reflexivity.
Qed.

(* unique identifiers: an @id names at most one element of the graph (same position, not just equal content) *)
Lemma nodup_ids_unique g : NoDup (ids g) ->
  forall i e1 e2 n1 n2, nth_error g n1 = Some e1 -> nth_error g n2 = Some e2 ->
    ent_id e1 = Some i -> ent_id e2 = Some i -> n1 = n2.
Proof.
  induction g as [|e g IH]; intros Hnd i e1 e2 n1 n2 Hn1 Hn2 H1 H2.
  - destruct n1; discriminate.
  - unfold ids in Hnd. simpl in Hnd. fold (ids g) in Hnd.
    assert (Htail : NoDup (ids g)).
    { destruct (ent_id e); simpl in Hnd; [inversion Hnd; assumption|assumption]. }
    destruct n1 as [|n1], n2 as [|n2]; simpl in Hn1, Hn2.
    + reflexivity.
    + exfalso. inversion Hn1; subst e1. rewrite H1 in Hnd. simpl in Hnd. inversion Hnd; subst.
      apply H3. apply in_ids. exists e2. split; [eapply nth_error_In; eauto|exact H2].
    + exfalso. inversion Hn2; subst e2. rewrite H2 in Hnd. simpl in Hnd. inversion Hnd; subst.
      apply H3. apply in_ids. exists e1. split; [eapply nth_error_In; eauto|exact H1].
    + f_equal. eapply IH; eauto.
Qed.

Lemma wf_lookup_unique g ar vs ss : wf_crate g ar vs ss ->
  forall i e1 e2, Entity g i e1 -> Entity g i e2 -> e1 = e2.
Proof.
  intros Hwf i e1 e2 [Hin1 Hid1] [Hin2 Hid2].
  apply In_nth_error in Hin1. apply In_nth_error in Hin2. destruct Hin1 as [n1 Hn1], Hin2 as [n2 Hn2].
  assert (n1 = n2) by (eapply nodup_ids_unique; eauto using wf_unique). subst. congruence.
Qed.

(* self-containment, stated on its own: a File entity of an accepted crate that records a checksum has an
   archive entry under its @id with exactly that digest *)
Lemma wf_file_present g ar vs ss : wf_crate g ar vs ss ->
  forall e i h, Entity g i e -> HasType e "File" -> get e "sha1" = Some (JStr h) ->
    exists s, In (i, h, s) ar.
Proof.
  intros Hwf e i h He Ht Hs. destruct (wf_files _ _ _ _ Hwf e i He Ht) as [_ [[d [s Hin]] Hall]].
  destruct (Hall d s Hin) as [Hsha _]. specialize (Hsha _ Hs). inversion Hsha; subst. exists s. exact Hin.
Qed.

(* a represented file value is in the archive under the id of a File entity, with the run's checksum and size *)
Lemma represented_file_in_archive g ar inp p h s :
  Represented g ar (RV inp p (VItem (IFile h s))) ->
  exists y e, Entity g y e /\ HasType e "File" /\ In (y, h, s) ar.
Proof.
  intros (root & m & mainE & a & x & e & q & _ & _ & _ & _ & _ & _ & _ & _ & _ & Hval). simpl in Hval.
  destruct Hval as [[fe [Hfe [Ht _]]] [[d [s' Hin]] Hall]]. destruct (Hall d s' Hin) as [-> ->].
  exists x, fe. auto.
Qed.

(* every action orchestrated for a step is the record of one of that step's jobs: what it lists as result carries
   what that job produced *)
Lemma wf_step_results g ar vs ss : wf_crate g ar vs ss ->
  forall v a, In v ss -> StepAction g (sv_step v) a ->
    exists j, In j (sv_jobs v) /\ JobOk g ar a j.
Proof.
  intros Hwf v a Hv Ha. destruct (wf_steps _ _ _ _ Hwf v Hv) as [H _]. apply H. exact Ha.
Qed.

(* every job of a step has its record *)
Lemma wf_step_jobs g ar vs ss : wf_crate g ar vs ss ->
  forall v j, In v ss -> In j (sv_jobs v) -> exists a, StepAction g (sv_step v) a /\ JobOk g ar a j.
Proof.
  intros Hwf v j Hv Hj. destruct (wf_steps _ _ _ _ Hwf v Hv) as [_ H]. apply H. exact Hj.
Qed.
